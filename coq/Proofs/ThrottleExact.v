(* C09 exactness for throttle: the first item of a window goes out on the leading edge, the last
   one on the trailing edge, under an executor that polls a window task when it is spawned (the
   poll that arms its timer) and again when the timer is due; a completion flushes the pending
   trailing item. *)
From RxModel Require Import Timed.
From RxSpec Require Import TimedSpec.
From RxProofs Require Import ValEq TimedLaws RateLaws.
Open Scope N_scope.

Definition feed (vs : list val) : list tlab := map (fun x => LSrc (Next x)) vs.

(* ---------- the pending item after a run of items inside an open window ---------- *)

(* ELeading never stores a candidate; the other edges keep the latest item *)
Definition stash (e : edge) (tr : option val) (x : val) : option val :=
  match e with ELeading => tr | _ => Some x end.

Fixpoint stash_all (e : edge) (tr : option val) (vs : list val) : option val :=
  match vs with
  | [] => tr
  | x :: r => stash_all e (stash e tr x) r
  end.

Lemma stash_all_leading tr vs : stash_all ELeading tr vs = tr.
Proof. revert tr. induction vs as [|x vs IH]; intros tr; [reflexivity|]. cbn [stash_all stash]. apply IH. Qed.

Lemma last_default_irrelevant {A} : forall (l : list A) x a b, last (x :: l) a = last (x :: l) b.
Proof.
  induction l as [|y l IH]; intros x a b; [reflexivity|].
  change (last (y :: l) a = last (y :: l) b). apply IH.
Qed.

Lemma last_cons_default {A} : forall (l : list A) x v, last (x :: l) v = last l x.
Proof.
  intros l x v. destruct l as [|y l]; [reflexivity|].
  change (last (y :: l) v = last (y :: l) x). apply last_default_irrelevant.
Qed.

Lemma stash_not_leading e tr x : e <> ELeading -> stash e tr x = Some x.
Proof. intros He. destruct e; [congruence|reflexivity|reflexivity]. Qed.

Lemma stash_all_some e : e <> ELeading -> forall vs v, stash_all e (Some v) vs = Some (last vs v).
Proof.
  intros He vs. induction vs as [|x vs IH]; intros v; [reflexivity|].
  cbn [stash_all]. rewrite (stash_not_leading e _ x He), IH, last_cons_default. reflexivity.
Qed.

Lemma stash_all_none e : e <> ELeading -> forall vs v,
  stash_all e None vs = match vs with [] => None | _ :: _ => Some (last vs v) end.
Proof.
  intros He vs v. destruct vs as [|x vs]; [reflexivity|].
  cbn [stash_all]. rewrite (stash_not_leading e _ x He), (stash_all_some e He), last_cons_default. reflexivity.
Qed.

(* ---------- the states of the scenario, written out ---------- *)

(* window task i: just scheduled / timer armed at `due` / ran *)
Definition tk_new (d : N) (i : nat) : task := spawn (BOnce i) (Some d).
Definition tk_wait (d : N) (i : nat) (due : N) : task := with_stage (tk_new d i) (StWait due).
Definition tk_done (d : N) (i : nat) (due : N) : task := finished_ok (with_stage (tk_wait d i due) StBody).

Definition mk (t : N) (ts : list task) (js : list job) (tr : option val) (h : option nat) : tsys :=
  {| now := t; tasks := ts; jobs := js; alive := true; down_fin := false; src_on := true; src_done := false;
     trailing := tr; handler := h; multi := Some []; data := []; main_task := None; inner_subs := [] |}.

(* the first window: scheduled; open (its timer armed at d) with pending item tr *)
Definition st_first (d : N) (tr : option val) : tsys := mk 0 [tk_new d 0] [JTrailing] tr (Some 0%nat).
Definition st_open (d : N) (tr : option val) : tsys := mk 0 [tk_wait d 0 d] [JTrailing] tr (Some 0%nat).
(* the clock has reached d; then the window task has run *)
Definition st_due (d : N) (tr : option val) : tsys := mk d [tk_wait d 0 d] [JTrailing] tr (Some 0%nat).
Definition st_closed (d : N) : tsys := mk d [tk_done d 0 d] [JTrailing] None (Some 0%nat).
(* the second window *)
Definition st_second (d : N) (tr : option val) : tsys :=
  mk d [tk_done d 0 d; tk_new d 1] [JTrailing; JTrailing] tr (Some 1%nat).
Definition st_open2 (d : N) (tr : option val) : tsys :=
  mk d [tk_done d 0 d; tk_wait d 1 (d + d)] [JTrailing; JTrailing] tr (Some 1%nat).
Definition st_due2 (d : N) (tr : option val) : tsys :=
  mk (d + d) [tk_done d 0 d; tk_wait d 1 (d + d)] [JTrailing; JTrailing] tr (Some 1%nat).
Definition st_closed2 (d : N) : tsys :=
  mk (d + d) [tk_done d 0 d; tk_done d 1 (d + d)] [JTrailing; JTrailing] None (Some 1%nat).

(* what the first item of a window does, by edge: delivered at once or stashed *)
Definition lead_out (e : edge) (t : N) (v : val) : list tout :=
  match e with ETailing => [] | _ => [TOut t (Next v)] end.
Definition lead_trail (e : edge) (v : val) : option val :=
  match e with ETailing => Some v | _ => None end.

(* what the window task delivers when it runs *)
Definition trail_out (t : N) (tr : option val) : list tout :=
  match tr with Some v => [TOut t (Next v)] | None => [] end.

(* ---------- the single steps ---------- *)

Lemma ltb_refl_false n : (n <? n) = false.
Proof. apply N.ltb_irrefl. Qed.

Lemma ltb_add_pos n d : 0 < d -> (n <? n + d) = true.
Proof. intros Hd. apply N.ltb_lt. lia. Qed.

Lemma step_first d e v :
  tstep (TThrottle d e) (tinit (TThrottle d e)) (LSrc (Next v)) = (st_first d (lead_trail e v), lead_out e 0 v).
Proof. destruct e; reflexivity. Qed.

Lemma step_arm d e tr : 0 < d ->
  tstep (TThrottle d e) (st_first d tr) (LRun 0) = (st_open d tr, []).
Proof.
  intros Hd. cbn [tstep st_first mk tasks jobs nth_error now].
  unfold poll. cbn [tk_new spawn t_stage t_keep negb]. rewrite N.add_0_l.
  destruct (N.ltb_spec 0 d) as [_|H]; [reflexivity|lia].
Qed.

Lemma step_inside d e tr x :
  tstep (TThrottle d e) (st_open d tr) (LSrc (Next x)) = (st_open d (stash e tr x), []).
Proof. destruct e; reflexivity. Qed.

Lemma step_adv d e tr : tstep (TThrottle d e) (st_open d tr) (LAdv d) = (st_due d tr, []).
Proof. cbn [tstep st_open mk now upd_now]. rewrite N.add_0_l. reflexivity. Qed.

Lemma step_close d e tr :
  tstep (TThrottle d e) (st_due d tr) (LRun 0) = (st_closed d, trail_out d tr).
Proof.
  cbn [tstep st_due mk tasks jobs nth_error now].
  unfold poll. cbn [tk_wait tk_new with_stage spawn t_stage t_keep negb]. rewrite ltb_refl_false.
  unfold poll_body. cbn [with_stage t_body].
  destruct tr as [x|]; reflexivity.
Qed.

Lemma step_second d e w :
  tstep (TThrottle d e) (st_closed d) (LSrc (Next w)) = (st_second d (lead_trail e w), lead_out e d w).
Proof. destruct e; reflexivity. Qed.

Lemma step_arm2 d e tr : 0 < d ->
  tstep (TThrottle d e) (st_second d tr) (LRun 1) = (st_open2 d tr, []).
Proof.
  intros Hd. cbn [tstep st_second mk tasks jobs nth_error now].
  unfold poll. cbn [tk_new spawn t_stage t_keep negb]. rewrite (ltb_add_pos d d Hd). reflexivity.
Qed.

Lemma step_adv2 d e tr : tstep (TThrottle d e) (st_open2 d tr) (LAdv d) = (st_due2 d tr, []).
Proof. reflexivity. Qed.

Lemma step_close2 d e tr :
  tstep (TThrottle d e) (st_due2 d tr) (LRun 1) = (st_closed2 d, trail_out (d + d) tr).
Proof.
  cbn [tstep st_due2 mk tasks jobs nth_error now].
  unfold poll. cbn [tk_wait tk_new with_stage spawn t_stage t_keep negb]. rewrite ltb_refl_false.
  unfold poll_body. cbn [with_stage t_body].
  destruct tr as [x|]; reflexivity.
Qed.

(* a completion inside the open window: the pending item, then the completion *)
Lemma step_done d e tr :
  snd (tstep (TThrottle d e) (st_open d tr) (LSrc Done)) = trail_out 0 tr ++ [TOut 0 Done].
Proof. destruct tr as [x|]; reflexivity. Qed.

(* ---------- runs ---------- *)

Lemma run_cons o s j l r s1 out :
  tstep o s l = (s1, out) -> touts (trun_sys o s j (l :: r)) = touts out ++ touts (trun_sys o s1 (S j) r).
Proof. intros E. rewrite trun_sys_cons, E. cbn [fst snd]. rewrite touts_mark, touts_app. reflexivity. Qed.

Lemma touts_outs_lead e t v : touts (lead_out e t v) = lead_out e t v.
Proof. destruct e; reflexivity. Qed.

Lemma touts_outs_trail t tr : touts (trail_out t tr) = trail_out t tr.
Proof. destruct tr; reflexivity. Qed.

(* the items that arrive inside the open window produce nothing; only the pending item changes *)
Lemma run_feed d e : forall vs tr j rest,
  touts (trun_sys (TThrottle d e) (st_open d tr) j (feed vs ++ rest)) =
  touts (trun_sys (TThrottle d e) (st_open d (stash_all e tr vs)) (j + length vs) rest).
Proof.
  induction vs as [|x vs IH]; intros tr j rest.
  - cbn [feed map app length stash_all]. rewrite Nat.add_0_r. reflexivity.
  - cbn [feed map app length stash_all]. rewrite (run_cons _ _ _ _ _ _ _ (step_inside d e tr x)).
    cbn [touts filter app]. fold (feed vs). rewrite IH.
    replace (S j + length vs)%nat with (j + S (length vs))%nat by lia. reflexivity.
Qed.

(* the prefix common to all scenarios: the first item, the poll arming the window timer, the items
   inside the window *)
Lemma run_prefix d e v vs rest : 0 < d ->
  touts (run_timed (TThrottle d e) (LSrc (Next v) :: LRun 0 :: feed vs ++ rest)) =
  lead_out e 0 v ++
  touts (trun_sys (TThrottle d e) (st_open d (stash_all e (lead_trail e v) vs)) (2 + length vs) rest).
Proof.
  intros Hd. unfold run_timed.
  rewrite (run_cons _ _ _ _ _ _ _ (step_first d e v)), touts_outs_lead.
  rewrite (run_cons _ _ _ _ _ _ _ (step_arm d e _ Hd)). cbn [touts filter app].
  rewrite run_feed. reflexivity.
Qed.

(* the window closes when its timer is due, the next item opens the second window *)
Lemma run_round d e tr w j rest : 0 < d ->
  touts (trun_sys (TThrottle d e) (st_open d tr) j (LAdv d :: LRun 0 :: LSrc (Next w) :: LRun 1 :: rest)) =
  trail_out d tr ++ lead_out e d w ++
  touts (trun_sys (TThrottle d e) (st_open2 d (lead_trail e w)) (S (S (S (S j)))) rest).
Proof.
  intros Hd.
  rewrite (run_cons _ _ _ _ _ _ _ (step_adv d e tr)). cbn [touts filter app].
  rewrite (run_cons _ _ _ _ _ _ _ (step_close d e tr)), touts_outs_trail.
  rewrite (run_cons _ _ _ _ _ _ _ (step_second d e w)), touts_outs_lead.
  rewrite (run_cons _ _ _ _ _ _ _ (step_arm2 d e _ Hd)). cbn [touts filter app]. reflexivity.
Qed.

(* the second window closes *)
Lemma run_round2 d e tr j :
  touts (trun_sys (TThrottle d e) (st_open2 d tr) j [LAdv d; LRun 1]) = trail_out (d + d) tr.
Proof.
  rewrite (run_cons _ _ _ _ _ _ _ (step_adv2 d e tr)). cbn [touts filter app].
  rewrite (run_cons _ _ _ _ _ _ _ (step_close2 d e tr)), touts_outs_trail.
  cbn [trun_sys touts filter]. apply app_nil_r.
Qed.

(* the general statement, for every edge: scenario, and scenario continued by one more window *)
Lemma throttle_window_gen d e v vs w : 0 < d ->
  touts (run_timed (TThrottle d e)
           (LSrc (Next v) :: LRun 0 :: feed vs ++ [LAdv d; LRun 0; LSrc (Next w); LRun 1])) =
  lead_out e 0 v ++ trail_out d (stash_all e (lead_trail e v) vs) ++ lead_out e d w.
Proof.
  intros Hd. rewrite (run_prefix d e v vs _ Hd). f_equal.
  rewrite (run_round d e _ w _ [] Hd). cbn [trun_sys touts filter]. rewrite app_nil_r. reflexivity.
Qed.

Lemma throttle_window_gen2 d e v vs w : 0 < d ->
  touts (run_timed (TThrottle d e)
           (LSrc (Next v) :: LRun 0 :: feed vs ++ [LAdv d; LRun 0; LSrc (Next w); LRun 1] ++ [LAdv d; LRun 1])) =
  lead_out e 0 v ++ trail_out d (stash_all e (lead_trail e v) vs) ++ lead_out e d w ++
  trail_out (d + d) (lead_trail e w).
Proof.
  intros Hd. rewrite (run_prefix d e v vs _ Hd). f_equal.
  cbn [app]. rewrite (run_round d e _ w _ [LAdv d; LRun 1] Hd). rewrite run_round2. reflexivity.
Qed.

Lemma throttle_done_gen d e v vs : 0 < d ->
  touts (run_timed (TThrottle d e) (LSrc (Next v) :: LRun 0 :: feed vs ++ [LSrc Done])) =
  lead_out e 0 v ++ trail_out 0 (stash_all e (lead_trail e v) vs) ++ [TOut 0 Done].
Proof.
  intros Hd. rewrite (run_prefix d e v vs _ Hd). f_equal.
  rewrite trun_sys_cons, touts_mark, touts_app, step_done, touts_app, touts_outs_trail.
  cbn [trun_sys touts filter app]. rewrite app_nil_r. reflexivity.
Qed.

(* ---------- C09: the theorems ---------- *)

(* 1. leading edge: the first item of the window at once, the items inside the window dropped,
      the first item after the window opens the next one *)
Theorem throttle_leading_exact : forall d v vs w, 0 < d ->
  touts (run_timed (TThrottle d ELeading)
           (LSrc (Next v) :: LRun 0 :: feed vs ++ [LAdv d; LRun 0; LSrc (Next w); LRun 1])) =
  [TOut 0 (Next v); TOut d (Next w)].
Proof.
  intros d v vs w Hd. rewrite (throttle_window_gen d ELeading v vs w Hd).
  rewrite stash_all_leading. reflexivity.
Qed.

(* 2. trailing edge: when the window closes, the last item that arrived in it; w is pending *)
Theorem throttle_trailing_exact : forall d v vs w, 0 < d ->
  touts (run_timed (TThrottle d ETailing)
           (LSrc (Next v) :: LRun 0 :: feed vs ++ [LAdv d; LRun 0; LSrc (Next w); LRun 1])) =
  [TOut d (Next (last vs v))].
Proof.
  intros d v vs w Hd. rewrite (throttle_window_gen d ETailing v vs w Hd).
  cbn [lead_out lead_trail app]. rewrite (stash_all_some ETailing) by discriminate. reflexivity.
Qed.

(*    ... and w is delivered when its own window closes *)
Theorem throttle_trailing_exact_next : forall d v vs w, 0 < d ->
  touts (run_timed (TThrottle d ETailing)
           (LSrc (Next v) :: LRun 0 :: feed vs ++ [LAdv d; LRun 0; LSrc (Next w); LRun 1] ++ [LAdv d; LRun 1])) =
  [TOut d (Next (last vs v))] ++ [TOut (d + d) (Next w)].
Proof.
  intros d v vs w Hd. rewrite (throttle_window_gen2 d ETailing v vs w Hd).
  cbn [lead_out lead_trail app]. rewrite (stash_all_some ETailing) by discriminate. reflexivity.
Qed.

(* 3. both edges: v at once; at the close of the window the last item that arrived inside it
      (nothing if there was none: the leading item is not repeated); w at once *)
Theorem throttle_all_exact : forall d v vs w, 0 < d ->
  touts (run_timed (TThrottle d EAll)
           (LSrc (Next v) :: LRun 0 :: feed vs ++ [LAdv d; LRun 0; LSrc (Next w); LRun 1])) =
  TOut 0 (Next v) :: (match vs with [] => [] | _ :: _ => [TOut d (Next (last vs v))] end) ++ [TOut d (Next w)].
Proof.
  intros d v vs w Hd. rewrite (throttle_window_gen d EAll v vs w Hd).
  cbn [lead_out lead_trail app]. rewrite (stash_all_none EAll ltac:(discriminate) vs v).
  destruct vs; reflexivity.
Qed.

(*    ... and w, delivered on the leading edge, is not delivered again when its window closes *)
Theorem throttle_all_exact_next : forall d v vs w, 0 < d ->
  touts (run_timed (TThrottle d EAll)
           (LSrc (Next v) :: LRun 0 :: feed vs ++ [LAdv d; LRun 0; LSrc (Next w); LRun 1] ++ [LAdv d; LRun 1])) =
  TOut 0 (Next v) :: (match vs with [] => [] | _ :: _ => [TOut d (Next (last vs v))] end) ++ [TOut d (Next w)].
Proof.
  intros d v vs w Hd. rewrite (throttle_window_gen2 d EAll v vs w Hd).
  cbn [lead_out lead_trail trail_out app]. rewrite (stash_all_none EAll ltac:(discriminate) vs v).
  destruct vs; reflexivity.
Qed.

(*    the leading-edge window closes silently as well *)
Theorem throttle_leading_exact_next : forall d v vs w, 0 < d ->
  touts (run_timed (TThrottle d ELeading)
           (LSrc (Next v) :: LRun 0 :: feed vs ++ [LAdv d; LRun 0; LSrc (Next w); LRun 1] ++ [LAdv d; LRun 1])) =
  [TOut 0 (Next v); TOut d (Next w)].
Proof.
  intros d v vs w Hd. rewrite (throttle_window_gen2 d ELeading v vs w Hd).
  rewrite stash_all_leading. reflexivity.
Qed.

(* 4. a completion inside the window flushes the pending trailing item, then completes *)
Theorem throttle_trailing_done_exact : forall d v vs, 0 < d ->
  touts (run_timed (TThrottle d ETailing) (LSrc (Next v) :: LRun 0 :: feed vs ++ [LSrc Done])) =
  [TOut 0 (Next (last vs v)); TOut 0 Done].
Proof.
  intros d v vs Hd. rewrite (throttle_done_gen d ETailing v vs Hd).
  cbn [lead_out lead_trail app]. rewrite (stash_all_some ETailing) by discriminate. reflexivity.
Qed.

Theorem throttle_all_done_exact : forall d v vs, 0 < d ->
  touts (run_timed (TThrottle d EAll) (LSrc (Next v) :: LRun 0 :: feed vs ++ [LSrc Done])) =
  TOut 0 (Next v) :: (match vs with [] => [] | _ :: _ => [TOut 0 (Next (last vs v))] end) ++ [TOut 0 Done].
Proof.
  intros d v vs Hd. rewrite (throttle_done_gen d EAll v vs Hd).
  cbn [lead_out lead_trail app]. rewrite (stash_all_none EAll ltac:(discriminate) vs v).
  destruct vs; reflexivity.
Qed.

(*    the leading edge has nothing to flush: the items inside the window are lost *)
Theorem throttle_leading_done_exact : forall d v vs, 0 < d ->
  touts (run_timed (TThrottle d ELeading) (LSrc (Next v) :: LRun 0 :: feed vs ++ [LSrc Done])) =
  [TOut 0 (Next v); TOut 0 Done].
Proof.
  intros d v vs Hd. rewrite (throttle_done_gen d ELeading v vs Hd).
  rewrite stash_all_leading. reflexivity.
Qed.

(* both flushing edges in one statement: the output ends with the pending item (if any) followed
   by the completion *)
Theorem throttle_done_flushes : forall d e v vs, 0 < d -> e <> ELeading ->
  touts (run_timed (TThrottle d e) (LSrc (Next v) :: LRun 0 :: feed vs ++ [LSrc Done])) =
  match e with ETailing => [] | _ => [TOut 0 (Next v)] end ++
  match e, vs with EAll, [] => [] | _, _ => [TOut 0 (Next (last vs v))] end ++ [TOut 0 Done].
Proof.
  intros d e v vs Hd He. destruct e; [congruence| |].
  - rewrite (throttle_trailing_done_exact d v vs Hd). reflexivity.
  - rewrite (throttle_all_done_exact d v vs Hd). destruct vs; reflexivity.
Qed.

(* ---------- the hypotheses are needed ---------- *)

(* the window timer is armed by the task's first poll: without the poll at spawn time the poll at
   time d only arms it (due at d + d), and the trailing item is not delivered at d *)
Example throttle_trailing_needs_the_arming_poll :
  touts (run_timed (TThrottle 3 ETailing)
           (LSrc (Next (VZ 1)) :: feed [VZ 2] ++ [LAdv 3; LRun 0; LSrc (Next (VZ 9)); LRun 1])) = [].
Proof. vm_compute. reflexivity. Qed.

(* d = 0: the window closes at the poll that follows the first item, so the next item is a leading
   item again (and w falls inside the window that item opened) *)
Example throttle_leading_zero_window :
  touts (run_timed (TThrottle 0 ELeading)
           (LSrc (Next (VZ 1)) :: LRun 0 :: feed [VZ 2] ++ [LAdv 0; LRun 0; LSrc (Next (VZ 9)); LRun 1])) =
  [TOut 0 (Next (VZ 1)); TOut 0 (Next (VZ 2))].
Proof. vm_compute. reflexivity. Qed.

Print Assumptions throttle_leading_exact.
Print Assumptions throttle_trailing_exact.
Print Assumptions throttle_trailing_exact_next.
Print Assumptions throttle_all_exact.
Print Assumptions throttle_all_exact_next.
Print Assumptions throttle_leading_exact_next.
Print Assumptions throttle_trailing_done_exact.
Print Assumptions throttle_all_done_exact.
Print Assumptions throttle_leading_done_exact.
Print Assumptions throttle_done_flushes.
