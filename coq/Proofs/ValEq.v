(* val_eqb decides equality. *)
From RxModel Require Import Base.

Section ValInd.
  Variable P : val -> Prop.
  Hypothesis HZ : forall z, P (VZ z).
  Hypothesis HB : forall b, P (VB b).
  Hypothesis HU : P VU.
  Hypothesis HP : forall a b, P a -> P b -> P (VP a b).
  Hypothesis HL : forall l, Forall P l -> P (VL l).
  Hypothesis HN : P (VOpt None).
  Hypothesis HS : forall a, P a -> P (VOpt (Some a)).

  Fixpoint val_ind' (v : val) : P v :=
    match v with
    | VZ z => HZ z
    | VB b => HB b
    | VU => HU
    | VP a b => HP a b (val_ind' a) (val_ind' b)
    | VL l => HL l ((fix go (l : list val) : Forall P l :=
                       match l with
                       | [] => Forall_nil P
                       | x :: r => Forall_cons x (val_ind' x) (go r)
                       end) l)
    | VOpt None => HN
    | VOpt (Some a) => HS a (val_ind' a)
    end.
End ValInd.

Lemma val_eqb_eq a : forall b, val_eqb a b = true <-> a = b.
Proof.
  induction a using val_ind'; intros b'.
  - destruct b'; cbn; try (split; discriminate). rewrite Z.eqb_eq. split; congruence.
  - destruct b'; cbn; try (split; discriminate). rewrite Bool.eqb_true_iff. split; congruence.
  - destruct b'; cbn; try (split; discriminate). split; reflexivity.
  - destruct b'; cbn; try (split; discriminate).
    rewrite Bool.andb_true_iff, IHa1, IHa2. split; [intros [-> ->]; reflexivity|intros E; inversion E; auto].
  - destruct b' as [| | | |l'|]; cbn; try (split; discriminate).
    revert l'. induction H as [|x l Hx Hl IH]; intros l'; destruct l' as [|y l']; try (split; discriminate).
    + split; reflexivity.
    + rewrite Bool.andb_true_iff, Hx, IH. split; [intros [-> E]; inversion E; reflexivity|intros E; inversion E; auto].
  - destruct b' as [| | | | |[x|]]; cbn; try (split; discriminate). split; reflexivity.
  - destruct b' as [| | | | |[x|]]; cbn; try (split; discriminate). rewrite IHa. split; congruence.
Qed.

Lemma val_eqb_refl a : val_eqb a a = true.
Proof. apply val_eqb_eq. reflexivity. Qed.

Lemma val_eqb_sym a b : val_eqb a b = val_eqb b a.
Proof.
  destruct (val_eqb a b) eqn:E.
  - apply val_eqb_eq in E. subst. symmetry. apply val_eqb_refl.
  - destruct (val_eqb b a) eqn:E'; [|reflexivity]. apply val_eqb_eq in E'. subst. rewrite val_eqb_refl in E. discriminate.
Qed.

Lemma val_eqb_spec a b : reflect (a = b) (val_eqb a b).
Proof. destruct (val_eqb a b) eqn:E; constructor; [apply val_eqb_eq, E|]. intros ->. rewrite val_eqb_refl in E. discriminate. Qed.

Lemma mem_In v l : mem v l = true <-> In v l.
Proof.
  unfold mem. rewrite existsb_exists. split.
  - intros (x & Hx & E). apply val_eqb_eq in E. subst. exact Hx.
  - intros H. exists v. split; [exact H|apply val_eqb_refl].
Qed.
