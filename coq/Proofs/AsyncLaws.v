(* from_future / from_stream relay exactly what the future / stream yields, then terminate;
   nothing after unsubscribe. *)
From RxModel Require Import Async.

Definition outs (o : list aout) : list ev :=
  flat_map (fun x => match x with AOut e => [e] | ARet _ => [] end) o.

Lemma pump_yields k script :
  let '(o, r, f) := pump k script in
  yields k script = o ++ (if f then [] else yields k r).
Proof.
  induction script as [|x r IH]; [destruct k; reflexivity|].
  destruct x; cbn [pump yields]; destruct k; try reflexivity;
    destruct (pump _ r) as [[o r'] f]; cbn; rewrite IH; reflexivity.
Qed.

Lemma outs_app a b : outs (a ++ b) = outs a ++ outs b.
Proof. apply flat_map_app. Qed.

Lemma outs_map o : outs (map AOut o) = o.
Proof. induction o as [|x o IH]; [reflexivity|]. cbn. f_equal. exact IH. Qed.

Lemma finished_quiet k : forall m s, a_finished s = true -> arun' k s (repeat APoll m) = [].
Proof. induction m as [|m IHm]; intros s H; [reflexivity|]. cbn. rewrite H. cbn. apply IHm, H. Qed.

(* any number of polls: what has been delivered is a prefix of what the source yields ... *)
Theorem async_prefix k : forall n s,
  a_keep s = true -> a_finished s = false ->
  exists rest, yields k (a_script s) = outs (arun' k s (repeat APoll n)) ++ rest.
Proof.
  induction n as [|n IH]; intros s Hk Hf; [exists (yields k (a_script s)); reflexivity|].
  cbn [repeat arun' astep]. rewrite Hf, Hk. cbn [negb].
  pose proof (pump_yields k (a_script s)) as P. destruct (pump k (a_script s)) as [[o r] f].
  rewrite outs_app, outs_map. destruct f.
  - rewrite finished_quiet by reflexivity. exists []. rewrite P. cbn. rewrite !app_nil_r. reflexivity.
  - destruct (IH {| a_script := r; a_finished := false; a_keep := true; a_value := false |} eq_refl eq_refl) as [rest Hr].
    cbn [a_script] in Hr. exists rest. rewrite P, Hr, app_assoc. reflexivity.
Qed.

(* ... and a source that is never pending is relayed completely by the first poll *)
Fixpoint never_pending (script : list presult) : bool :=
  match script with [] => true | PPending :: _ => false | _ :: r => never_pending r end.

Lemma pump_complete k script :
  never_pending script = true -> (k = AStream \/ k = AStreamResult) ->
  fst (fst (pump k script)) = yields k script.
Proof.
  intros H Hk. induction script as [|x r IH]; [destruct Hk as [-> | ->]; reflexivity|].
  destruct x; cbn in H; try discriminate; specialize (IH H);
    destruct Hk as [-> | ->]; cbn [pump yields]; try reflexivity;
    destruct (pump _ r) as [[o r'] f]; cbn in *; rewrite IH; reflexivity.
Qed.

Theorem async_complete k script :
  never_pending script = true -> (k = AStream \/ k = AStreamResult) ->
  outs (arun' k {| a_script := script; a_finished := false; a_keep := true; a_value := false |} [APoll]) = yields k script.
Proof.
  intros H Hk. cbn [arun' astep a_finished a_keep negb a_script].
  pose proof (pump_complete k script H Hk) as P. destruct (pump k script) as [[o r] f]. cbn in *.
  rewrite app_nil_r, outs_map. exact P.
Qed.

(* nothing is delivered after unsubscribe() *)
Theorem async_silent_after_unsub k : forall ls s,
  a_keep s = false -> outs (arun' k s ls) = [].
Proof.
  induction ls as [|l r IH]; intros s Hk; [reflexivity|].
  destruct l; cbn [arun' astep].
  - destruct (a_finished s) eqn:Ef; cbn.
    + apply IH, Hk.
    + rewrite Hk. cbn. apply IH. reflexivity.
  - cbn. apply IH. reflexivity.
  - cbn. apply IH, Hk.
Qed.

(* a stream that is pending m times in total is relayed completely by m + 1 polls (or more) *)
Lemma pump_pending_count k script :
  (k = AStream \/ k = AStreamResult) ->
  snd (pump k script) = false -> pendings script = S (pendings (snd (fst (pump k script)))).
Proof.
  intros Hk. induction script as [|x r IH]; [destruct Hk as [-> | ->]; cbn; discriminate|].
  destruct x; destruct Hk as [-> | ->]; cbn [pump pendings]; try (cbn; discriminate); try (cbn; reflexivity);
    destruct (pump _ r) as [[o r'] f] eqn:E; cbn in *; intros Hf; apply IH; auto.
Qed.

Theorem async_complete_gen k :
  (k = AStream \/ k = AStreamResult) ->
  forall n script, (pendings script < n)%nat ->
    outs (arun' k {| a_script := script; a_finished := false; a_keep := true; a_value := false |} (repeat APoll n))
    = yields k script.
Proof.
  intros Hk n. induction n as [|n IH]; intros script Hn; [lia|].
  cbn [repeat arun' astep a_finished a_keep negb a_script].
  pose proof (pump_yields k script) as P. pose proof (pump_pending_count k script Hk) as C.
  destruct (pump k script) as [[o r] f]. cbn [fst snd] in *.
  rewrite outs_app, outs_map. destruct f.
  - rewrite finished_quiet by reflexivity. rewrite P. cbn. rewrite !app_nil_r. reflexivity.
  - rewrite IH by (specialize (C eq_refl); lia). rewrite P. reflexivity.
Qed.

(* ---------- futures: relayed completely once polled often enough ----------
   An entry of the script that makes a poll of the task return without finishing: Pending for every kind; for a future
   also the answers a future cannot give (end of stream; an error for the infallible form), which the model treats as
   "not ready yet". *)
Definition waiting (k : akind) (x : presult) : bool :=
  match k, x with
  | _, PPending => true
  | AFuture, PFail _ | AFuture, PEnd | AFutureResult, PEnd => true
  | _, _ => false
  end.

Fixpoint waits (k : akind) (script : list presult) : nat :=
  match script with [] => 0 | x :: r => (if waiting k x then 1 else 0) + waits k r end.

Lemma future_pump_step k x r :
  (k = AFuture \/ k = AFutureResult) ->
  let '(o, r', f) := pump k (x :: r) in
  r' = r /\ (f = false -> waiting k x = true /\ o = []).
Proof.
  intros [-> | ->]; destruct x; cbn; split; try reflexivity; intros H; try discriminate; split; reflexivity.
Qed.

Lemma future_never_ready k : (k = AFuture \/ k = AFutureResult) ->
  forall n, outs (arun' k {| a_script := []; a_finished := false; a_keep := true; a_value := false |} (repeat APoll n)) = [].
Proof.
  intros Hk n. induction n as [|n IH]; [reflexivity|].
  cbn [repeat arun' astep a_finished a_keep negb a_script].
  destruct Hk as [-> | ->]; cbn [pump map app outs flat_map]; exact IH.
Qed.

Theorem future_complete k :
  (k = AFuture \/ k = AFutureResult) ->
  forall n script, (waits k script < n)%nat ->
    outs (arun' k {| a_script := script; a_finished := false; a_keep := true; a_value := false |} (repeat APoll n))
    = yields k script.
Proof.
  intros Hk n. induction n as [|n IH]; intros script Hn; [inversion Hn|].
  destruct script as [|x r].
  - rewrite (future_never_ready k Hk). destruct Hk as [-> | ->]; reflexivity.
  - cbn [repeat arun' astep a_finished a_keep negb a_script].
    pose proof (pump_yields k (x :: r)) as P. pose proof (future_pump_step k x r Hk) as S.
    destruct (pump k (x :: r)) as [[o r'] f]. destruct S as [-> S].
    rewrite outs_app, outs_map. destruct f.
    + rewrite finished_quiet by reflexivity. rewrite P. cbn. rewrite !app_nil_r. reflexivity.
    + destruct (S eq_refl) as [Hw ->]. cbn [waits] in Hn. rewrite Hw in Hn.
      rewrite IH by (apply Nat.succ_lt_mono; exact Hn). rewrite P. reflexivity.
Qed.
