(* delay / observe_on meet Spec/RelayComplete.v for every sequence of labels: a relation between
   the system's state and the walking state that every label preserves. *)
From RxModel Require Import Timed.
From RxSpec Require Import TimedSpec RelayComplete.
From RxProofs Require Import ValEq TimedLaws RelayLaws.
From RxProofs Require BufferLaws.
Open Scope N_scope.

Definition emits (j : job) : Prop := match j with JEmit _ | JEmitErr _ | JComplete => True | _ => False end.

Definition stage_ok (d : N) (armed : list (nat * N)) (i : nat) (tk : task) : Prop :=
  match t_stage tk with
  | StDelay d' => d' = d /\ armed_at i armed = None
  | StWait due => exists a, armed_at i armed = Some a /\ due = a + d
  | StBody => d = 0 /\ armed_at i armed = None
  | StFinished => False
  end.

Record RC (d : N) (s : tsys) (c : rcstate) : Prop := {
  rc_now : c_now c = now s;
  rc_n : c_n c = length (tasks s);
  rc_jobs : length (jobs s) = length (tasks s);
  rc_done : c_done c = src_done s;
  rc_on : src_on s = negb (src_done s) && negb (c_unsub c);
  rc_alive : c_fin c = false -> c_unsub c = false -> alive s = true;
  rc_multi : c_unsub c = false -> exists l, multi s = Some l;
  rc_armed : forall i a, armed_at i (c_armed c) = Some a -> (i < length (tasks s))%nat;
  rc_owed : c_owed c = false;
  rc_all : forall i tk, nth_error (tasks s) i = Some tk ->
             (exists k, t_body tk = BOnce k) /\ exists j, nth_error (jobs s) i = Some j /\ emits j;
  rc_pending : forall i tk, nth_error (tasks s) i = Some tk -> pending c i = true ->
             t_keep tk = true /\ stage_ok d (c_armed c) i tk
}.

Ltac cf := cbn [c_now c_cur c_n c_done c_unsub c_fin c_armed c_deliv c_owed] in *.

Lemma c_walk_inert d de ls : forall out c, inert out -> walk (c_step d de ls) c out = Some c.
Proof.
  induction out as [|x r IH]; intros c H; [reflexivity|]. cbn [walk].
  assert (Hx : c_step d de ls c x = Some c).
  { pose proof (H x (or_introl eq_refl)) as Hx. destruct x; try contradiction; reflexivity. }
  rewrite Hx. apply IH. intros y Hy. apply H. right. exact Hy.
Qed.

(* what a poll does with a task whose notification is still owed *)
Definition due_now (d : N) (armed : list (nat * N)) (i : nat) (now : N) : bool :=
  match armed_at i armed with Some a => a + d <=? now | None => d =? 0 end.

Lemma poll_pending now tk k d armed i :
  t_keep tk = true -> t_body tk = BOnce k -> stage_ok d armed i tk ->
  if due_now d armed i now then snd (poll now tk) = PRun k 0 false
  else snd (poll now tk) = PNone /\ t_keep (fst (poll now tk)) = true /\ t_body (fst (poll now tk)) = BOnce k /\
       stage_ok d (match armed_at i armed with Some _ => armed | None => (i, now) :: armed end) i (fst (poll now tk)).
Proof.
  intros Hk Hb Hs. unfold stage_ok in Hs. unfold due_now, poll, poll_body.
  destruct (t_stage tk) as [d'|due| |] eqn:Es; try rewrite Hk; cbn [negb].
  - destruct Hs as [-> Ha]. rewrite Ha. destruct (N.eqb_spec d 0) as [->|Hd].
    + rewrite N.add_0_r, N.ltb_irrefl. cbn [t_body with_stage]. rewrite Hb. reflexivity.
    + assert (H : now <? now + d = true) by (apply N.ltb_lt; lia). rewrite H. cbn [fst snd with_stage t_keep t_body].
      repeat split; auto. unfold stage_ok. cbn [t_stage with_stage armed_at]. rewrite Nat.eqb_refl. eauto.
  - destruct Hs as (a & Ha & ->). rewrite Ha. destruct (N.leb_spec (a + d) now) as [Hle|Hlt].
    + assert (H : now <? a + d = false) by (apply N.ltb_ge; exact Hle). rewrite H. cbn [t_body with_stage]. rewrite Hb. reflexivity.
    + assert (H : now <? a + d = true) by (apply N.ltb_lt; exact Hlt). rewrite H. cbn [fst snd].
      repeat split; auto. unfold stage_ok. rewrite Es. eauto.
  - destruct Hs as [-> Ha]. rewrite Ha. cbn [N.eqb]. rewrite Hb. reflexivity.
  - contradiction.
Qed.

Lemma poll_body_kept now tk k : t_body tk = BOnce k -> t_body (fst (poll now tk)) = BOnce k.
Proof.
  intros Hb. pose proof (poll_once now tk k Hb) as P. destruct (poll now tk) as [tk1 res]. cbn [fst].
  destruct P as [(_ & H & _)|(_ & _ & _ & _ & H)]; exact H.
Qed.

(* polling a task of delay / observe_on: the three things that can happen *)
Lemma lrun_shape o s t tk j k :
  nth_error (tasks s) t = Some tk -> nth_error (jobs s) t = Some j -> t_body tk = BOnce k -> emits j ->
  let s1 := upd_tasks s (set_nth (tasks s) t (fst (poll (now s) tk))) in
  (snd (poll (now s) tk) = PNone /\ tstep o s (LRun t) = (s1, []))
  \/ (snd (poll (now s) tk) = PRun k 0 false /\
      ((alive s = false /\ tstep o s (LRun t) = (s1, []))
       \/ (alive s = true /\ exists e, tstep o s (LRun t) = ((if is_term e then upd_alive s1 false else s1), [TOut (now s) e])))).
Proof.
  intros Ht Hj Hb He. cbn [tstep]. rewrite Ht, Hj.
  pose proof (poll_once (now s) tk k Hb) as P. destruct (poll (now s) tk) as [tk1 res]. cbn [fst snd].
  destruct P as [(-> & _)|(-> & _)]; [left; split; reflexivity|right; split; [reflexivity|]].
  destruct j; try contradiction; cbn [on_job]; unfold slot_next, slot_term; cbn [alive upd_tasks now];
    destruct (alive s); [right|left; split; reflexivity|right|left; split; reflexivity|right|left; split; reflexivity];
    (split; [reflexivity|]).
  - exists (Next v). reflexivity.
  - exists (Err e). reflexivity.
  - exists Done. reflexivity.
Qed.

Lemma pending_mono c c' i :
  c_n c' = c_n c -> c_unsub c' = c_unsub c ->
  (forall x, memn' x (c_deliv c) = true -> memn' x (c_deliv c') = true) ->
  (c_fin c = true -> c_fin c' = true) ->
  pending c' i = true -> pending c i = true.
Proof.
  intros Hn Hu Hd Hf. unfold pending. rewrite Hn, Hu. intros H.
  apply Bool.andb_true_iff in H. destruct H as [H H4]. apply Bool.andb_true_iff in H. destruct H as [H H3].
  apply Bool.andb_true_iff in H. destruct H as [H1 H2].
  rewrite H1, H3. cbn [andb].
  destruct (memn' i (c_deliv c)) eqn:E1; [rewrite (Hd i E1) in H2; discriminate|].
  destruct (c_fin c) eqn:E2; [rewrite (Hf eq_refl) in H4; discriminate|]. reflexivity.
Qed.

Lemma pending_fields c i : pending c i = true ->
  (i < c_n c)%nat /\ memn' i (c_deliv c) = false /\ c_unsub c = false /\ c_fin c = false.
Proof.
  unfold pending. intros H.
  apply Bool.andb_true_iff in H. destruct H as [H H4]. apply Bool.andb_true_iff in H. destruct H as [H H3].
  apply Bool.andb_true_iff in H. destruct H as [H1 H2]. apply Nat.ltb_lt in H1.
  repeat split; auto; apply Bool.negb_true_iff; assumption.
Qed.

Definition csim (o : top) (d : N) (de : bool) (ls : list tlab) (s : tsys) (c : rcstate) (l : tlab) : Prop :=
  exists c', walk (c_step d de ls) (c_label d de c (Some l)) (snd (tstep o s l)) = Some c' /\ RC d (fst (tstep o s l)) c'.

(* ---- the clock, and the labels that concern neither the input nor the tasks ---- *)
Lemma c_adv o d de ls s c dt : RC d s c -> csim o d de ls s c (LAdv dt).
Proof.
  intros [R1 R2 R3 R4 R5 R6 R7 R8 R9 R10 R11]. unfold csim. cbn [tstep fst snd walk c_label]. eexists. split; [reflexivity|].
  constructor; cf; cbn [upd_now now tasks jobs src_done src_on alive multi]; auto. congruence.
Qed.

Lemma c_quiet o d de ls s c l s' out :
  RC d s c -> tstep o s l = (s', out) -> inert out ->
  match l with LSrc _ | LRun _ | LAdv _ | LUnsub => False | _ => True end ->
  now s' = now s -> tasks s' = tasks s -> jobs s' = jobs s -> src_done s' = src_done s -> src_on s' = src_on s ->
  alive s' = alive s -> multi s' = multi s -> csim o d de ls s c l.
Proof.
  intros [R1 R2 R3 R4 R5 R6 R7 R8 R9 R10 R11] Hst Hin Hl F1 F2 F3 F4 F5 F6 F7. unfold csim. rewrite Hst. cbn [fst snd].
  rewrite (c_walk_inert d de ls out _ Hin). eexists. split; [reflexivity|].
  assert (E : forall x, pending (c_label d de c (Some l)) x = pending c x) by (intros x; destruct l; try contradiction; reflexivity).
  constructor; rewrite ?F1, ?F2, ?F3, ?F4, ?F5, ?F6, ?F7;
    try (destruct l; try contradiction; cf; cbn [c_label]; cf; assumption).
  - destruct l; try contradiction; reflexivity.
Qed.

(* ---- unsubscribe ---- *)
Lemma c_unsub_label o d de ls s c : relay_like o -> RC d s c -> csim o d de ls s c LUnsub.
Proof.
  intros Ho [R1 R2 R3 R4 R5 R6 R7 R8 R9 R10 R11]. unfold csim.
  assert (Hon : tstep o s LUnsub =
                let s1 := upd_src s false (src_done s) in
                match multi s1 with Some l => unsub_handles o (upd_multi s1 None) l | None => (s1, []) end).
  { destruct o; cbn [relay_like] in Ho; try contradiction; reflexivity. }
  rewrite Hon. cbn [upd_src multi]. clear Hon.
  set (c1 := c_label d de c (Some LUnsub)).
  assert (Fin : forall s', now s' = now s -> jobs s' = jobs s -> length (tasks s') = length (tasks s) ->
                 src_done s' = src_done s -> src_on s' = false ->
                 (forall i tk', nth_error (tasks s') i = Some tk' -> exists tk, nth_error (tasks s) i = Some tk /\ t_body tk' = t_body tk) ->
                 RC d s' c1).
  { intros s' F1 F2 F3 F4 F5 F6. unfold c1. constructor; cbn [c_label]; cf; rewrite ?F1, ?F2, ?F3, ?F4, ?F5; auto.
    - rewrite Bool.andb_false_r. reflexivity.
    - discriminate.
    - discriminate.
    - intros i tk' Hi. destruct (F6 i tk' Hi) as (tk & Ht & Hb). rewrite Hb. apply (R10 i tk Ht).
    - intros i tk' _ Hp. unfold pending in Hp. cf. rewrite Bool.andb_false_r in Hp. discriminate. }
  destruct (multi s) as [l|] eqn:Em.
  - set (s0 := upd_multi (upd_src s false (src_done s)) None).
    pose proof (unsub_handles_eff o l s0) as (E1 & E2 & E3 & E4 & E5).
    pose proof (unsub_handles_frame o l s0) as (G1 & G2 & G3).
    pose proof (unsub_handles_inert o l s0) as In1.
    destruct (unsub_handles o s0 l) as [s' out]. cbn [fst snd] in *.
    rewrite (c_walk_inert d de ls out c1 In1). exists c1. split; [reflexivity|].
    apply Fin; auto.
    + destruct E4 as [E4|E4]; [rewrite E4; reflexivity|exact E4].
    + intros i tk' Hi. destruct (E5 i tk' Hi) as (tk & Ht & Hs & _). exists tk. split; [exact Ht|].
      destruct Hs as [->| ->]; reflexivity.
  - cbn [walk fst snd]. exists c1. split; [reflexivity|]. apply Fin; auto.
    intros i tk Hi. exists tk. split; [exact Hi|reflexivity].
Qed.

(* ---- a poll ---- *)
Lemma stage_ok_ext d A A' i tk : armed_at i A' = armed_at i A -> stage_ok d A i tk -> stage_ok d A' i tk.
Proof. unfold stage_ok. intros ->. auto. Qed.

Lemma rc_after_run d s c c' t tk tk1 s' :
  RC d s c -> nth_error (tasks s) t = Some tk ->
  now s' = now s -> jobs s' = jobs s -> src_done s' = src_done s -> src_on s' = src_on s -> multi s' = multi s ->
  tasks s' = set_nth (tasks s) t tk1 -> t_body tk1 = t_body tk ->
  c_now c' = c_now c -> c_n c' = c_n c -> c_done c' = c_done c -> c_unsub c' = c_unsub c -> c_owed c' = false ->
  (c_fin c' = false -> c_fin c = false /\ alive s' = alive s) ->
  (forall i, i <> t -> armed_at i (c_armed c') = armed_at i (c_armed c)) ->
  (forall i, pending c' i = true -> pending c i = true) ->
  (pending c' t = true -> t_keep tk1 = true /\ stage_ok d (c_armed c') t tk1) ->
  RC d s' c'.
Proof.
  intros [R1 R2 R3 R4 R5 R6 R7 R8 R9 R10 R11] Et F1 F2 F3 F4 F5 F6 Hb C1 C2 C3 C4 C5 Ha Harm Hp Ht.
  assert (Hlt : (t < length (tasks s))%nat) by (apply nth_error_Some; congruence).
  constructor; rewrite ?F1, ?F2, ?F3, ?F4, ?F5, ?F6, ?set_nth_length, ?C1, ?C2, ?C3, ?C4; auto.
  - intros Hf Hu. destruct (Ha Hf) as [Hf0 ->]. auto.
  - intros i a Hi. destruct (Nat.eq_dec i t) as [->|Hne]; [exact Hlt|]. rewrite (Harm i Hne) in Hi. apply (R8 i a Hi).
  - intros i tk' Hi. destruct (Nat.eq_dec i t) as [->|Hne].
    + rewrite (nth_error_set_nth_eq _ _ _ _ Et) in Hi. inversion Hi; subst tk'. rewrite Hb. apply (R10 t tk Et).
    + rewrite nth_error_set_nth_neq in Hi by congruence. apply (R10 i tk' Hi).
  - intros i tk' Hi Hpi. destruct (Nat.eq_dec i t) as [->|Hne].
    + rewrite (nth_error_set_nth_eq _ _ _ _ Et) in Hi. inversion Hi; subst tk'. apply Ht, Hpi.
    + rewrite nth_error_set_nth_neq in Hi by congruence. destruct (R11 i tk' Hi (Hp i Hpi)) as [K1 K2].
      split; [exact K1|]. apply (stage_ok_ext d (c_armed c)); [apply Harm, Hne|exact K2].
Qed.

Lemma memn'_cons t l x : memn' x l = true -> memn' x (t :: l) = true.
Proof. unfold memn'. cbn [existsb]. intros ->. apply Bool.orb_true_r. Qed.

Lemma pending_deliver c e i : pending (c_deliver c e) i = true -> pending c i = true.
Proof.
  apply pending_mono; try reflexivity.
  - intros x Hx. unfold c_deliver. cf. destruct (c_cur c) as [[]|]; auto. apply memn'_cons, Hx.
  - intros Hf. unfold c_deliver. cf. rewrite Hf. reflexivity.
Qed.

Lemma pending_deliver_self c e t : c_cur c = Some (LRun t) -> pending (c_deliver c e) t = false.
Proof.
  intros Hc. unfold pending, c_deliver. cf. rewrite Hc. unfold memn'. cbn [existsb]. rewrite Nat.eqb_refl.
  cbn [orb negb]. rewrite Bool.andb_false_r. reflexivity.
Qed.

Lemma armed_at_cons_other t a A i : i <> t -> armed_at i ((t, a) :: A) = armed_at i A.
Proof. intros H. cbn [armed_at]. destruct (Nat.eqb_spec t i) as [->|_]; [contradiction|reflexivity]. Qed.

Lemma c_run o d de ls s c t : RC d s c -> csim o d de ls s c (LRun t).
Proof.
  intros R. unfold csim.
  destruct (nth_error (tasks s) t) as [tk|] eqn:Et.
  2: { (* no such task *)
    assert (Hst : tstep o s (LRun t) = (s, [])) by (cbn [tstep]; rewrite Et; reflexivity).
    rewrite Hst. cbn [fst snd walk]. eexists. split; [reflexivity|].
    assert (Hp : pending c t = false).
    { unfold pending. rewrite (rc_n _ _ _ R). apply nth_error_None in Et.
      assert (H : Nat.ltb t (length (tasks s)) = false) by (apply Nat.ltb_ge; exact Et). rewrite H. reflexivity. }
    destruct R as [R1 R2 R3 R4 R5 R6 R7 R8 R9 R10 R11]. cbn [c_label]. rewrite Hp.
    constructor; cf; auto. }
  destruct (rc_all _ _ _ R t tk Et) as ((k & Hb) & j & Hj & He).
  pose proof (lrun_shape o s t tk j k Et Hj Hb He) as S. cbn zeta in S.
  pose proof (poll_body_kept (now s) tk k Hb) as Hb1.
  set (tk1 := fst (poll (now s) tk)) in *. set (res := snd (poll (now s) tk)) in *.
  set (s1 := upd_tasks s (set_nth (tasks s) t tk1)) in *.
  assert (Hbb : t_body tk1 = t_body tk) by congruence.
  (* the two shapes of the new state *)
  assert (Quiet : forall c1, tstep o s (LRun t) = (s1, []) ->
            c_now c1 = c_now c -> c_n c1 = c_n c -> c_done c1 = c_done c -> c_unsub c1 = c_unsub c -> c_owed c1 = false ->
            c_fin c1 = c_fin c ->
            (forall i, i <> t -> armed_at i (c_armed c1) = armed_at i (c_armed c)) ->
            (forall i, pending c1 i = true -> pending c i = true) ->
            (pending c1 t = true -> t_keep tk1 = true /\ stage_ok d (c_armed c1) t tk1) ->
            exists c', walk (c_step d de ls) c1 (snd (tstep o s (LRun t))) = Some c' /\ RC d (fst (tstep o s (LRun t))) c').
  { intros c1 Hst C1 C2 C3 C4 C5 C6 C7 C8 C9. rewrite Hst. cbn [fst snd walk]. exists c1. split; [reflexivity|].
    apply (rc_after_run d s c c1 t tk tk1 s1 R Et); auto.
    intros Hf. rewrite <- C6. split; [exact Hf|reflexivity]. }
  assert (Loud : forall c1 e, tstep o s (LRun t) = ((if is_term e then upd_alive s1 false else s1), [TOut (now s) e]) ->
            c_cur c1 = Some (LRun t) ->
            c_now c1 = c_now c -> c_n c1 = c_n c -> c_done c1 = c_done c -> c_unsub c1 = c_unsub c ->
            (c_fin c1 = false -> c_fin c = false) ->
            (forall i, i <> t -> armed_at i (c_armed c1) = armed_at i (c_armed c)) ->
            (forall i, pending c1 i = true -> pending c i = true) ->
            exists c', walk (c_step d de ls) c1 (snd (tstep o s (LRun t))) = Some c' /\ RC d (fst (tstep o s (LRun t))) c').
  { intros c1 e Hst Hc C1 C2 C3 C4 C6 C7 C8. rewrite Hst. cbn [fst snd walk c_step]. eexists. split; [reflexivity|].
    apply (rc_after_run d s c (c_deliver c1 e) t tk tk1 (if is_term e then upd_alive s1 false else s1) R Et);
      try (destruct (is_term e); reflexivity); auto.
    - unfold c_deliver. cf. intros Hf. apply Bool.orb_false_iff in Hf. destruct Hf as [Hf1 Hf2].
      rewrite Hf2. split; [apply C6, Hf1|reflexivity].
    - intros i Hi. apply C8. apply (pending_deliver c1 e i Hi).
    - intros Hp. rewrite (pending_deliver_self c1 e t Hc) in Hp. discriminate. }
  destruct (pending c t) eqn:Ep.
  - (* the notification is still owed *)
    destruct (rc_pending _ _ _ R t tk Et Ep) as [Hk Hs].
    destruct (pending_fields c t Ep) as (Hlt & Hm & Hu & Hf).
    pose proof (rc_alive _ _ _ R Hf Hu) as Ha.
    pose proof (poll_pending (now s) tk k d (c_armed c) t Hk Hb Hs) as P. unfold due_now in P.
    change (snd (poll (now s) tk)) with res in P. change (fst (poll (now s) tk)) with tk1 in P.
    cbn [c_label]. rewrite Ep. rewrite <- (rc_now _ _ _ R) in P.
    destruct (armed_at t (c_armed c)) as [a|] eqn:Ea.
    + destruct (a + d <=? c_now c) eqn:Edue.
      * destruct S as [[S1 _]|[_ [[S1 _]|[_ (e & S2)]]]]; [congruence|congruence|].
        apply (Loud _ e S2); auto.
      * destruct P as (P1 & P2 & P3 & P4). destruct S as [[_ S2]|[S1 _]]; [|congruence].
        apply (Quiet _ S2); auto.
    + destruct (d =? 0) eqn:Ed.
      * destruct S as [[S1 _]|[_ [[S1 _]|[_ (e & S2)]]]]; [congruence|congruence|].
        apply (Loud _ e S2); auto.
      * destruct P as (P1 & P2 & P3 & P4). destruct S as [[_ S2]|[S1 _]]; [|congruence].
        apply (Quiet _ S2); auto; cf.
        -- intros i Hi. apply armed_at_cons_other, Hi.
  - (* nothing is owed for this task: whatever the poll does *)
    cbn [c_label]. rewrite Ep.
    destruct S as [[_ S2]|[_ [[_ S2]|[_ (e & S2)]]]].
    + apply (Quiet _ S2); auto. cf. unfold pending in *. cf. rewrite Ep. discriminate.
    + apply (Quiet _ S2); auto. cf. unfold pending in *. cf. rewrite Ep. discriminate.
    + apply (Loud _ e S2); auto.
Qed.

(* ---- the input ---- *)
Lemma rc_after_spawn d s c s' k j delay dn cur l' :
  RC d s c -> c_unsub c = false ->
  now s' = now s -> tasks s' = tasks s ++ [spawn (BOnce k) delay] -> jobs s' = jobs s ++ [j] -> emits j ->
  src_done s' = dn -> src_on s' = negb dn -> alive s' = alive s -> multi s' = Some l' ->
  match delay with Some d' => d' = d | None => d = 0 end ->
  RC d s' {| c_now := c_now c; c_cur := cur; c_n := S (c_n c); c_done := dn; c_unsub := false; c_fin := c_fin c;
             c_armed := c_armed c; c_deliv := c_deliv c; c_owed := false |}.
Proof.
  intros [R1 R2 R3 R4 R5 R6 R7 R8 R9 R10 R11] Hu F1 F2 F3 He F4 F5 F6 F7 Hd.
  constructor; cf; rewrite ?F1, ?F2, ?F3, ?F4, ?F5, ?F6, ?F7, ?app_length; cbn [length]; auto.
  - lia.
  - rewrite Bool.andb_true_r. reflexivity.
  - eauto.
  - intros i a Hi. pose proof (R8 i a Hi). lia.
  - intros i tk Hi. destruct (Nat.lt_ge_cases i (length (tasks s))) as [Hlt|Hge].
    + rewrite nth_error_app1 in Hi by exact Hlt. destruct (R10 i tk Hi) as (K1 & j0 & K2 & K3).
      split; [exact K1|]. exists j0. split; [|exact K3]. rewrite nth_error_app1 by (rewrite R3; exact Hlt). exact K2.
    + assert (Hi' : (i < length (tasks s ++ [spawn (BOnce k) delay]))%nat) by (apply nth_error_Some; congruence).
      rewrite app_length in Hi'. cbn [length] in Hi'. assert (i = length (tasks s)) by lia. subst i.
      rewrite nth_error_app_last in Hi. inversion Hi; subst tk. split; [eexists; reflexivity|].
      exists j. split; [|exact He]. rewrite <- R3. apply nth_error_app_last.
  - intros i tk Hi Hp. destruct (Nat.lt_ge_cases i (length (tasks s))) as [Hlt|Hge].
    + rewrite nth_error_app1 in Hi by exact Hlt. apply (R11 i tk Hi).
      unfold pending in *. cf. rewrite Hu. rewrite R2.
      assert (H : Nat.ltb i (length (tasks s)) = true) by (apply Nat.ltb_lt; exact Hlt). rewrite H.
      apply Bool.andb_true_iff in Hp. destruct Hp as [Hp H4]. apply Bool.andb_true_iff in Hp. destruct Hp as [Hp H3].
      apply Bool.andb_true_iff in Hp. destruct Hp as [_ H2]. rewrite H2, H4. reflexivity.
    + assert (Hi' : (i < length (tasks s ++ [spawn (BOnce k) delay]))%nat) by (apply nth_error_Some; congruence).
      rewrite app_length in Hi'. cbn [length] in Hi'. assert (i = length (tasks s)) by lia. subst i.
      rewrite nth_error_app_last in Hi. inversion Hi; subst tk. split; [reflexivity|].
      assert (Hn : armed_at (length (tasks s)) (c_armed c) = None).
      { destruct (armed_at (length (tasks s)) (c_armed c)) as [a|] eqn:Ea; [|reflexivity]. pose proof (R8 _ a Ea). lia. }
      unfold stage_ok, spawn. cbn [t_stage]. destruct delay as [d'|]; cbn in Hd; subst; split; auto.
Qed.

Lemma own_task_keepb de e : own_task de e = keepb de e.
Proof. reflexivity. Qed.

Lemma c_src o d de ls s c e : relay_op o d de -> RC d s c -> csim o d de ls s c (LSrc e).
Proof.
  intros Ho R. pose proof R as [R1 R2 R3 R4 R5 R6 R7 R8 R9 R10 R11]. unfold csim. cbn [tstep c_label]. rewrite R4.
  destruct (src_done s) eqn:Ed.
  - (* the input has terminated *)
    cbn [fst snd walk]. eexists. split; [reflexivity|]. constructor; cf; auto. rewrite Ed. exact R5.
  - destruct (src_on s) eqn:Eo.
    + assert (Hu : c_unsub c = false).
      { cbn in R5. destruct (c_unsub c); [discriminate|reflexivity]. }
      rewrite Hu.
      set (s1 := if is_term e then upd_src s false true else s).
      assert (S1 : now s1 = now s) by (unfold s1; destruct (is_term e); reflexivity).
      assert (S2 : tasks s1 = tasks s) by (unfold s1; destruct (is_term e); reflexivity).
      assert (S3 : jobs s1 = jobs s) by (unfold s1; destruct (is_term e); reflexivity).
      assert (S4 : alive s1 = alive s) by (unfold s1; destruct (is_term e); reflexivity).
      assert (S5 : multi s1 = multi s) by (unfold s1; destruct (is_term e); reflexivity).
      assert (S6 : src_done s1 = is_term e) by (unfold s1; destruct (is_term e); [reflexivity|exact Ed]).
      assert (S7 : src_on s1 = negb (is_term e)) by (unfold s1; destruct (is_term e); [reflexivity|exact Eo]).
      clearbody s1. destruct (R7 Hu) as (l & Hl).
      rewrite own_task_keepb. destruct (keepb de e) eqn:Ek.
      * (* a task of its own *)
        assert (Hlike : relay_like o) by (apply (relay_op_like o d de Ho)).
        assert (Hk' : keepb (match o with TDelay _ => true | _ => false end) e = true).
        { destruct o; cbn [relay_op] in Ho; try contradiction; destruct Ho as [_ ->]; exact Ek. }
        rewrite (on_src_relay o s1 e Hlike Hk'). cbn [schedule fst snd walk]. unfold append_multi.
        cbn [multi]. rewrite S5, Hl. eexists. split; [reflexivity|].
        apply (rc_after_spawn d s c _ (length (tasks s1)) (job_of e) (relay_delay o) (is_term e) (Some (LSrc e)) (l ++ [length (tasks s1)]) R Hu);
          cbn [upd_multi now tasks jobs src_done src_on alive multi]; auto; try congruence.
        -- destruct e; exact I.
        -- destruct o; cbn [relay_op] in Ho; try contradiction; destruct Ho as [H _]; cbn [relay_delay]; auto.
      * (* delay forwards an error at once *)
        destruct (keepb_false de e Ek) as [-> [x ->]].
        destruct o; cbn [relay_op] in Ho; try contradiction; [|destruct Ho; discriminate].
        destruct Ho as [-> _]. cbn [on_src]. unfold slot_term.
        destruct (alive s1) eqn:Ea; cbn [fst snd walk c_step].
        -- eexists. split; [reflexivity|]. unfold c_deliver. cf.
           constructor; cf; cbn [upd_alive now tasks jobs src_done src_on alive multi is_term];
             rewrite ?S1, ?S2, ?S3, ?S5, ?S6, ?S7, ?Bool.orb_true_r; auto; try discriminate.
           ++ intros i tk _ Hp. unfold pending in Hp. cf. rewrite Bool.andb_false_r in Hp. discriminate.
        -- assert (Hf : c_fin c = true).
           { destruct (c_fin c) eqn:Ef; [reflexivity|]. pose proof (R6 eq_refl Hu) as Ha. rewrite <- S4 in Ha. discriminate. }
           rewrite Hf. cbn [negb]. eexists. split; [reflexivity|].
           constructor; cf; rewrite ?S1, ?S2, ?S3, ?S5, ?S6, ?S7, ?Hf; auto; try discriminate.
           ++ intros i tk _ Hp. unfold pending in Hp. cf. rewrite ?Hf, Bool.andb_false_r in Hp. discriminate.
    + (* unsubscribed: dropped *)
      assert (Hu : c_unsub c = true).
      { cbn in R5. destruct (c_unsub c); [reflexivity|discriminate]. }
      rewrite Hu. cbn [fst snd walk]. eexists. split; [reflexivity|].
      constructor; cf; auto; try discriminate; destruct (is_term e); cbn [upd_src now tasks jobs src_done src_on alive multi]; auto.
      all: try (intros i tk _ Hp; unfold pending in Hp; cf; rewrite Bool.andb_false_r in Hp; discriminate).
      all: try (intros i tk _ Hp; unfold pending in Hp; cf; cbn in Hp; rewrite Bool.andb_false_r in Hp; discriminate).
      all: rewrite Eo, Bool.andb_false_r; reflexivity.
Qed.

Lemma inert_one x : match x with TOut _ _ | TMark _ => False | _ => True end -> inert [x].
Proof. intros H y [<-|[]]. exact H. Qed.

Lemma c_other o d de ls s c l : relay_like o -> RC d s c ->
  match l with LSrc _ | LRun _ | LAdv _ | LUnsub => False | _ => True end -> csim o d de ls s c l.
Proof.
  intros Ho R Hl.
  destruct l; try contradiction.
  - apply (c_quiet o d de ls s c LClosed s [TRet (sub_closed o s)] R); auto. apply inert_one. exact I.
  - apply (c_quiet o d de ls s c LFinish (upd_fin s) [] R); auto. apply inert_nil.
  - apply (c_quiet o d de ls s c _ s [] R); auto; [destruct o; try contradiction; reflexivity|apply inert_nil].
  - apply (c_quiet o d de ls s c _ s [] R); auto; [destruct o; try contradiction; reflexivity|apply inert_nil].
  - apply (c_quiet o d de ls s c _ s [] R); auto; [destruct o; try contradiction; reflexivity|apply inert_nil].
  - apply (c_quiet o d de ls s c _ s [] R); auto; [destruct o; try contradiction; reflexivity|apply inert_nil].
  - apply (c_quiet o d de ls s c _ s [] R); auto; [destruct o; try contradiction; reflexivity|apply inert_nil].
Qed.

Lemma c_step_sim o d de : relay_op o d de ->
  forall ls_full done l r s c, ls_full = done ++ l :: r -> RC d s c ->
    exists c', walk (c_step d de ls_full) c (TMark (length done) :: snd (tstep o s l)) = Some c' /\
               RC d (fst (tstep o s l)) c'.
Proof.
  intros Ho ls_full done l r s c E R.
  pose proof (relay_op_like o d de Ho) as Hlike.
  cbn [walk c_step]. rewrite (rc_owed _ _ _ R), E, nth_error_mid. rewrite <- E.
  change (csim o d de ls_full s c l).
  destruct l.
  - apply c_src; assumption.
  - apply c_run; assumption.
  - apply c_adv; assumption.
  - apply c_unsub_label; assumption.
  - apply c_other; auto.
  - apply c_other; auto.
  - apply c_other; auto.
  - apply c_other; auto.
  - apply c_other; auto.
  - apply c_other; auto.
  - apply c_other; auto.
Qed.

Lemma rc_init o d de : relay_op o d de -> RC d (tinit o) rc0.
Proof.
  intros Ho. destruct o; cbn [relay_op] in Ho; try contradiction; cbn [tinit];
    (constructor; cbn; auto; try discriminate; eauto;
     intros i tk Hi; destruct i; discriminate).
Qed.

Lemma relay_is_complete o d de : relay_op o d de -> forall ls, relay_complete d de ls (run_timed o ls) = true.
Proof.
  intros Ho ls. unfold relay_complete, run_timed.
  destruct (BufferLaws.run_sim_state (c_step d de) o (RC d) (c_step_sim o d de Ho) ls [] (tinit o) rc0 ls eq_refl (rc_init o d de Ho))
    as (c' & s' & Hw & R).
  cbn [length] in Hw. rewrite Hw, (rc_owed _ _ _ R). reflexivity.
Qed.

(* delay / observe_on deliver every notification whose task is polled when it is due while the
   subscriber is still listening: for EVERY sequence of labels *)
Theorem delay_is_complete : forall d ls, relay_complete d true ls (run_timed (TDelay d) ls) = true.
Proof. intros d ls. apply (relay_is_complete (TDelay d) d true). split; reflexivity. Qed.

Theorem observe_on_is_complete : forall ls, relay_complete 0 false ls (run_timed TObserveOn ls) = true.
Proof. intros ls. apply (relay_is_complete TObserveOn 0 false). split; reflexivity. Qed.

(* the predicate does reject: a run in which the completion's task is polled, due, and nothing
   comes out (what an operator that drops the completion of an idle stream would produce) *)
Example complete_rejects_a_lost_completion :
  relay_complete 0 true [LSrc Done; LRun 0] [TMark 0; TMark 1] = false.
Proof. reflexivity. Qed.

Example complete_accepts_the_delivery :
  relay_complete 0 true [LSrc Done; LRun 0] [TMark 0; TMark 1; TOut 0 Done] = true.
Proof. reflexivity. Qed.

(* before the timer has elapsed nothing is owed; at the poll that follows its expiry it is *)
Example complete_waits_for_the_timer :
  relay_complete 5 true [LSrc (Next (VZ 1)); LRun 0; LAdv 4; LRun 0; LAdv 1; LRun 0]
    [TMark 0; TMark 1; TMark 2; TMark 3; TMark 4; TMark 5; TOut 5 (Next (VZ 1))] = true /\
  relay_complete 5 true [LSrc (Next (VZ 1)); LRun 0; LAdv 4; LRun 0; LAdv 1; LRun 0]
    [TMark 0; TMark 1; TMark 2; TMark 3; TMark 4; TMark 5] = false.
Proof. split; reflexivity. Qed.

(* ================= delay_subscription / subscribe_on ================= *)

Definition alist (a : option N) : list (nat * N) := match a with Some x => [(0%nat, x)] | None => [] end.

Record RQ (d : N) (s : tsys) (q : qstate) : Prop := {
  rq_now : q_now q = now s;
  rq_done : q_done q = src_done s;
  rq_jobs : jobs s = [JSubscribe];
  rq_main : main_task s = Some 0%nat;
  rq_owed : q_owed q = false;
  rq_on : q_sub q = true -> q_unsub q = false -> src_done s = false -> src_on s = true;
  rq_task : exists tk k, tasks s = [tk] /\ t_body tk = BOnce k /\
      (q_sub q = false -> q_unsub q = false -> t_keep tk = true /\ stage_ok d (alist (q_armed q)) 0 tk)
}.

Ltac qf := cbn [q_now q_cur q_sub q_done q_unsub q_armed q_owed] in *.

Lemma q_walk_inert d ls : forall out q, inert out -> walk (q_step d ls) q out = Some q.
Proof.
  induction out as [|x r IH]; intros q H; [reflexivity|]. cbn [walk].
  assert (Hx : q_step d ls q x = Some q).
  { pose proof (H x (or_introl eq_refl)) as Hx. destruct x; try contradiction; reflexivity. }
  rewrite Hx. apply IH. intros y Hy. apply H. right. exact Hy.
Qed.

Definition qsim (o : top) (d : N) (ls : list tlab) (s : tsys) (q : qstate) (l : tlab) : Prop :=
  exists q', walk (q_step d ls) (q_label d q (Some l)) (snd (tstep o s l)) = Some q' /\ RQ d (fst (tstep o s l)) q'.

Lemma q_src o d ls s q e : pass_op o d -> RQ d s q -> qsim o d ls s q (LSrc e).
Proof.
  intros Ho [R1 R2 R3 R4 R5 R6 (tk & k & T1 & T2 & T3)]. unfold qsim. cbn [tstep q_label]. rewrite R2.
  destruct (src_done s) eqn:Ed.
  - cbn [fst snd walk]. eexists. split; [reflexivity|]. constructor; qf; auto.
    + intros _ _ H. rewrite Ed in H. discriminate.
    + exists tk, k. auto.
  - assert (Hs : on_src o = fun s e => (s, [TOut (now s) e])).
    { destruct o; cbn [pass_op] in Ho; try contradiction; reflexivity. }
    destruct (src_on s) eqn:Eo.
    + rewrite Hs. cbn [fst snd walk q_step]. eexists. split; [reflexivity|]. unfold q_deliver.
      constructor; qf; destruct (is_term e) eqn:Et; cbn [upd_src now tasks jobs src_done src_on main_task]; auto;
        try (intros _ _ H; discriminate H); try (exists tk, k; auto).
    + (* not subscribed to the input: nothing can be owed *)
      assert (Hno : q_sub q && negb (q_unsub q) = false).
      { destruct (q_sub q) eqn:E1; [|reflexivity]. destruct (q_unsub q) eqn:E2; [reflexivity|].
        pose proof (R6 eq_refl eq_refl eq_refl) as H. discriminate H. }
      rewrite Hno. cbn [fst snd walk]. eexists. split; [reflexivity|].
      constructor; qf; destruct (is_term e) eqn:Et; cbn [upd_src now tasks jobs src_done src_on main_task]; auto;
        try (intros _ _ H; discriminate H); try (exists tk, k; auto).
      intros H1 H2 _. rewrite H1, H2 in Hno. discriminate.
Qed.

Lemma q_run o d ls s q t : pass_op o d -> RQ d s q -> qsim o d ls s q (LRun t).
Proof.
  intros Ho [R1 R2 R3 R4 R5 R6 (tk & k & T1 & T2 & T3)]. unfold qsim.
  destruct t as [|t].
  2: { (* there is no other task *)
    assert (Hst : tstep o s (LRun (S t)) = (s, [])).
    { cbn [tstep]. rewrite T1. destruct t; reflexivity. }
    rewrite Hst. cbn [fst snd walk q_label]. eexists. split; [reflexivity|].
    constructor; qf; auto. exists tk, k. auto. }
  (* the subscribing task is polled *)
  assert (Hst : tstep o s (LRun 0) =
                let '(tk1, res) := poll (now s) tk in
                match res with
                | PNone => (upd_tasks s [tk1], [])
                | PRun _ _ _ => (upd_src (upd_tasks s [tk1]) true (src_done s), [])
                end).
  { cbn [tstep]. rewrite T1, R3. cbn [nth_error set_nth].
    pose proof (poll_once (now s) tk k T2) as P. destruct (poll (now s) tk) as [tk1 res].
    destruct P as [(-> & _)|(-> & _)]; reflexivity. }
  rewrite Hst. clear Hst.
  pose proof (poll_body_kept (now s) tk k T2) as Hb1.
  pose proof (poll_once (now s) tk k T2) as PO.
  cbn [q_label].
  destruct (negb (q_sub q) && negb (q_unsub q)) eqn:Ewait.
  - apply Bool.andb_true_iff in Ewait. destruct Ewait as [E1 E2].
    apply Bool.negb_true_iff in E1. apply Bool.negb_true_iff in E2.
    destruct (T3 E1 E2) as [Hk Hs].
    pose proof (poll_pending (now s) tk k d (alist (q_armed q)) 0 Hk T2 Hs) as P. unfold due_now in P.
    rewrite R1.
    destruct (q_armed q) as [a|] eqn:Ea; cbn [alist armed_at Nat.eqb] in P.
    + destruct (a + d <=? now s) eqn:Edue.
      * destruct (poll (now s) tk) as [tk1 res]. cbn [fst snd] in *. subst res. cbn [fst snd walk].
        eexists. split; [reflexivity|]. constructor; qf; cbn [upd_src upd_tasks now tasks jobs src_done src_on main_task]; auto.
        exists tk1, k. repeat split; auto; discriminate.
      * destruct P as (P1 & P2 & P3 & P4). destruct (poll (now s) tk) as [tk1 res]. cbn [fst snd] in *. subst res. cbn [fst snd walk].
        eexists. split; [reflexivity|]. constructor; qf; cbn [upd_src upd_tasks now tasks jobs src_done src_on main_task]; auto.
        -- intros H. discriminate H.
        -- exists tk1, k. repeat split; auto.
    + destruct (d =? 0) eqn:Ed.
      * destruct (poll (now s) tk) as [tk1 res]. cbn [fst snd] in *. subst res. cbn [fst snd walk].
        eexists. split; [reflexivity|]. constructor; qf; cbn [upd_src upd_tasks now tasks jobs src_done src_on main_task]; auto.
        exists tk1, k. repeat split; auto; discriminate.
      * destruct P as (P1 & P2 & P3 & P4). destruct (poll (now s) tk) as [tk1 res]. cbn [fst snd] in *. subst res. cbn [fst snd walk].
        eexists. split; [reflexivity|]. constructor; qf; cbn [upd_src upd_tasks now tasks jobs src_done src_on main_task]; auto.
        -- intros H. discriminate H.
        -- exists tk1, k. repeat split; auto.
  - (* already subscribed, or unsubscribed: whatever the poll does *)
    assert (Hvac : q_sub q = false -> q_unsub q = false -> False).
    { intros H1 H2. rewrite H1, H2 in Ewait. discriminate. }
    destruct (poll (now s) tk) as [tk1 res]. cbn [fst] in Hb1.
    destruct res; cbn [fst snd walk]; (eexists; split; [reflexivity|]);
      constructor; qf; cbn [upd_src upd_tasks now tasks jobs src_done src_on main_task]; auto.
    all: exists tk1, k; split; [reflexivity|]; split; [exact Hb1|]; intros H1 H2; destruct (Hvac H1 H2).
Qed.

Lemma q_unsub_label o d ls s q : pass_op o d -> RQ d s q -> qsim o d ls s q LUnsub.
Proof.
  intros Ho [R1 R2 R3 R4 R5 R6 (tk & k & T1 & T2 & T3)]. unfold qsim.
  assert (Hon : tstep o s LUnsub = match main_task s with Some t => unsub_handle o s t | None => (s, []) end).
  { destruct o; cbn [pass_op] in Ho; try contradiction; reflexivity. }
  rewrite Hon, R4. clear Hon.
  pose proof (unsub_handle_eff o s 0) as (E1 & E2 & E3 & E4 & E5).
  pose proof (unsub_handle_frame o s 0) as (G1 & G2 & G3 & G4).
  pose proof (unsub_handle_inert o s 0) as In1.
  destruct (unsub_handle o s 0) as [s' out]. cbn [fst snd] in *.
  rewrite (q_walk_inert d ls out _ In1). eexists. split; [reflexivity|].
  assert (Ht : exists tk', tasks s' = [tk'] /\ t_body tk' = BOnce k).
  { rewrite T1 in E3. cbn [length] in E3. destruct (tasks s') as [|tk' [|x r]] eqn:Ets; try discriminate.
    exists tk'. split; [reflexivity|]. destruct (E5 0%nat tk' eq_refl) as (tk0 & H0 & Hs & _).
    rewrite T1 in H0. inversion H0; subst tk0. destruct Hs as [->| ->]; exact T2. }
  destruct Ht as (tk' & Ht1 & Ht2).
  constructor; cbn [q_label]; qf; try congruence.
  - exists tk', k. split; [exact Ht1|]. split; [exact Ht2|]. intros _ H. discriminate H.
Qed.

Lemma q_adv o d ls s q dt : RQ d s q -> qsim o d ls s q (LAdv dt).
Proof.
  intros [R1 R2 R3 R4 R5 R6 (tk & k & T1 & T2 & T3)]. unfold qsim. cbn [tstep fst snd walk q_label]. eexists. split; [reflexivity|].
  constructor; qf; cbn [upd_now now tasks jobs src_done src_on main_task]; auto; [congruence|exists tk, k; auto].
Qed.

Lemma q_other o d ls s q l : pass_op o d -> RQ d s q ->
  match l with LSrc _ | LRun _ | LAdv _ | LUnsub => False | _ => True end -> qsim o d ls s q l.
Proof.
  intros Ho [R1 R2 R3 R4 R5 R6 (tk & k & T1 & T2 & T3)] Hl. unfold qsim.
  assert (Hst : exists out, inert out /\ (tstep o s l = (s, out) \/ (l = LFinish /\ tstep o s l = (upd_fin s, out)))).
  { destruct l; try contradiction.
    - exists [TRet (sub_closed o s)]. split; [apply inert_one; exact I|left; reflexivity].
    - exists []. split; [apply inert_nil|right; split; reflexivity].
    - exists []. split; [apply inert_nil|left; destruct o; cbn [pass_op] in Ho; try contradiction; reflexivity].
    - exists []. split; [apply inert_nil|left; destruct o; cbn [pass_op] in Ho; try contradiction; reflexivity].
    - exists []. split; [apply inert_nil|left; destruct o; cbn [pass_op] in Ho; try contradiction; reflexivity].
    - exists []. split; [apply inert_nil|left; destruct o; cbn [pass_op] in Ho; try contradiction; reflexivity].
    - exists []. split; [apply inert_nil|left; destruct o; cbn [pass_op] in Ho; try contradiction; reflexivity]. }
  destruct Hst as (out & Hin & [Hst|[-> Hst]]); rewrite Hst; cbn [fst snd]; rewrite (q_walk_inert d ls out _ Hin);
    (eexists; split; [reflexivity|]).
  - constructor; try (destruct l; try contradiction; cbn [q_label]; qf; assumption).
    + destruct l; try contradiction; reflexivity.
    + exists tk, k. split; [exact T1|]. split; [exact T2|]. destruct l; try contradiction; exact T3.
  - constructor; cbn [q_label upd_fin now tasks jobs src_done src_on main_task]; qf; auto. exists tk, k. auto.
Qed.

Lemma q_step_sim o d : pass_op o d ->
  forall ls_full done l r s q, ls_full = done ++ l :: r -> RQ d s q ->
    exists q', walk (q_step d ls_full) q (TMark (length done) :: snd (tstep o s l)) = Some q' /\
               RQ d (fst (tstep o s l)) q'.
Proof.
  intros Ho ls_full done l r s q E R.
  cbn [walk q_step]. rewrite (rq_owed _ _ _ R), E, nth_error_mid. rewrite <- E.
  change (qsim o d ls_full s q l).
  destruct l.
  - apply q_src; assumption.
  - apply q_run; assumption.
  - apply q_adv; assumption.
  - apply q_unsub_label; assumption.
  - apply q_other; auto.
  - apply q_other; auto.
  - apply q_other; auto.
  - apply q_other; auto.
  - apply q_other; auto.
  - apply q_other; auto.
  - apply q_other; auto.
Qed.

Lemma rq_init o d : pass_op o d -> RQ d (tinit o) q0.
Proof.
  intros Ho. destruct o; cbn [pass_op] in Ho; try contradiction; cbn [tinit schedule upd_main upd_src];
    (constructor; cbn; auto; try discriminate;
     eexists; eexists; split; [reflexivity|]; split; [reflexivity|]; intros _ _; split; [reflexivity|];
     unfold stage_ok; cbn; auto).
Qed.

Lemma pass_is_complete o d : pass_op o d -> forall ls, pass_complete d ls (run_timed o ls) = true.
Proof.
  intros Ho ls. unfold pass_complete, run_timed.
  destruct (BufferLaws.run_sim_state (q_step d) o (RQ d) (q_step_sim o d Ho) ls [] (tinit o) q0 ls eq_refl (rq_init o d Ho))
    as (q' & s' & Hw & R).
  cbn [length] in Hw. rewrite Hw, (rq_owed _ _ _ R). reflexivity.
Qed.

(* delay_subscription / subscribe_on: once the subscribing task has been polled when due, every
   notification of the input reaches the subscriber in the call that brings it *)
Theorem delay_subscription_is_complete : forall d ls, pass_complete d ls (run_timed (TDelaySubscription d) ls) = true.
Proof. intros d ls. apply (pass_is_complete (TDelaySubscription d) d). reflexivity. Qed.

Theorem subscribe_on_is_complete : forall ls, pass_complete 0 ls (run_timed TSubscribeOn ls) = true.
Proof. intros ls. apply (pass_is_complete TSubscribeOn 0). reflexivity. Qed.

Example pass_complete_rejects_a_swallowed_item :
  pass_complete 3 [LRun 0; LAdv 3; LRun 0; LSrc (Next (VZ 7))] [TMark 0; TMark 1; TMark 2; TMark 3] = false /\
  pass_complete 3 [LRun 0; LAdv 3; LRun 0; LSrc (Next (VZ 7))] [TMark 0; TMark 1; TMark 2; TMark 3; TOut 3 (Next (VZ 7))] = true /\
  (* not yet subscribed: nothing is owed *)
  pass_complete 3 [LRun 0; LAdv 2; LRun 0; LSrc (Next (VZ 7))] [TMark 0; TMark 1; TMark 2; TMark 3] = true.
Proof. repeat split; reflexivity. Qed.

(* ================= timer ================= *)

Record RM (d : N) (v : val) (s : tsys) (m : mstate) : Prop := {
  rm_now : m_now m = now s;
  rm_jobs : jobs s = [JTimer v];
  rm_main : main_task s = Some 0%nat;
  rm_on : src_on s = false;
  rm_owed : m_owed m = 0%nat;
  rm_task : exists tk k, tasks s = [tk] /\ t_body tk = BOnce k /\
      (m_ran m = false -> m_unsub m = false -> t_keep tk = true /\ stage_ok d (alist (m_armed m)) 0 tk)
}.

Ltac mf := cbn [m_now m_ran m_unsub m_armed m_owed] in *.

Lemma m_walk_inert d ls : forall out m, inert out -> walk (m_step d ls) m out = Some m.
Proof.
  induction out as [|x r IH]; intros m H; [reflexivity|]. cbn [walk].
  assert (Hx : m_step d ls m x = Some m).
  { pose proof (H x (or_introl eq_refl)) as Hx. destruct x; try contradiction; reflexivity. }
  rewrite Hx. apply IH. intros y Hy. apply H. right. exact Hy.
Qed.

Definition msim (d : N) (v : val) (ls : list tlab) (s : tsys) (m : mstate) (l : tlab) : Prop :=
  exists m', walk (m_step d ls) (m_label d m (Some l)) (snd (tstep (TTimer v d) s l)) = Some m' /\
             RM d v (fst (tstep (TTimer v d) s l)) m'.

Lemma m_run d v ls s m t : RM d v s m -> msim d v ls s m (LRun t).
Proof.
  intros [R1 R2 R3 R4 R5 (tk & k & T1 & T2 & T3)]. unfold msim.
  destruct t as [|t].
  2: { assert (Hst : tstep (TTimer v d) s (LRun (S t)) = (s, [])).
    { cbn [tstep]. rewrite T1. destruct t; reflexivity. }
    rewrite Hst. cbn [fst snd walk m_label]. eexists. split; [reflexivity|].
    constructor; mf; auto. exists tk, k. auto. }
  assert (Hst : tstep (TTimer v d) s (LRun 0) =
                let '(tk1, res) := poll (now s) tk in
                match res with
                | PNone => (upd_tasks s [tk1], [])
                | PRun _ _ _ => (upd_tasks s [tk1], [TOut (now s) (Next v); TOut (now s) Done])
                end).
  { cbn [tstep]. rewrite T1, R2. cbn [nth_error set_nth].
    pose proof (poll_once (now s) tk k T2) as P. destruct (poll (now s) tk) as [tk1 res].
    destruct P as [(-> & _)|(-> & _)]; reflexivity. }
  rewrite Hst. clear Hst.
  pose proof (poll_body_kept (now s) tk k T2) as Hb1.
  cbn [m_label].
  destruct (negb (m_ran m) && negb (m_unsub m)) eqn:Ewait.
  - apply Bool.andb_true_iff in Ewait. destruct Ewait as [E1 E2].
    apply Bool.negb_true_iff in E1. apply Bool.negb_true_iff in E2.
    destruct (T3 E1 E2) as [Hk Hs].
    pose proof (poll_pending (now s) tk k d (alist (m_armed m)) 0 Hk T2 Hs) as P. unfold due_now in P.
    rewrite R1.
    destruct (m_armed m) as [a|] eqn:Ea; cbn [alist armed_at Nat.eqb] in P.
    + destruct (a + d <=? now s) eqn:Edue.
      * destruct (poll (now s) tk) as [tk1 res]. cbn [fst snd] in *. subst res. cbn [fst snd walk m_step]. mf. cbn [Nat.pred].
        eexists. split; [reflexivity|]. constructor; mf; cbn [upd_tasks now tasks jobs src_on main_task]; auto.
        exists tk1, k. repeat split; auto; discriminate.
      * destruct P as (P1 & P2 & P3 & P4). destruct (poll (now s) tk) as [tk1 res]. cbn [fst snd] in *. subst res. cbn [fst snd walk].
        eexists. split; [reflexivity|]. constructor; mf; cbn [upd_tasks now tasks jobs src_on main_task]; auto.
        exists tk1, k. repeat split; auto.
    + destruct (d =? 0) eqn:Ed.
      * destruct (poll (now s) tk) as [tk1 res]. cbn [fst snd] in *. subst res. cbn [fst snd walk m_step]. mf. cbn [Nat.pred].
        eexists. split; [reflexivity|]. constructor; mf; cbn [upd_tasks now tasks jobs src_on main_task]; auto.
        exists tk1, k. repeat split; auto; discriminate.
      * destruct P as (P1 & P2 & P3 & P4). destruct (poll (now s) tk) as [tk1 res]. cbn [fst snd] in *. subst res. cbn [fst snd walk].
        eexists. split; [reflexivity|]. constructor; mf; cbn [upd_tasks now tasks jobs src_on main_task]; auto.
        exists tk1, k. repeat split; auto.
  - assert (Hvac : m_ran m = false -> m_unsub m = false -> False).
    { intros H1 H2. rewrite H1, H2 in Ewait. discriminate. }
    destruct (poll (now s) tk) as [tk1 res]. cbn [fst] in Hb1.
    destruct res; cbn [fst snd walk m_step]; mf; cbn [Nat.pred]; (eexists; split; [reflexivity|]);
      constructor; mf; cbn [upd_tasks now tasks jobs src_on main_task]; auto.
    all: exists tk1, k; split; [reflexivity|]; split; [exact Hb1|]; intros H1 H2; destruct (Hvac H1 H2).
Qed.

Lemma m_unsub_label d v ls s m : RM d v s m -> msim d v ls s m LUnsub.
Proof.
  intros [R1 R2 R3 R4 R5 (tk & k & T1 & T2 & T3)]. unfold msim.
  cbn [tstep on_unsub]. rewrite R3.
  pose proof (unsub_handle_eff (TTimer v d) s 0) as (E1 & E2 & E3 & E4 & E5).
  pose proof (unsub_handle_frame (TTimer v d) s 0) as (G1 & G2 & G3 & G4).
  pose proof (unsub_handle_inert (TTimer v d) s 0) as In1.
  destruct (unsub_handle (TTimer v d) s 0) as [s' out]. cbn [fst snd] in *.
  rewrite (m_walk_inert d ls out _ In1). eexists. split; [reflexivity|].
  assert (Ht : exists tk', tasks s' = [tk'] /\ t_body tk' = BOnce k).
  { rewrite T1 in E3. cbn [length] in E3. destruct (tasks s') as [|tk' [|x r]] eqn:Ets; try discriminate.
    exists tk'. split; [reflexivity|]. destruct (E5 0%nat tk' eq_refl) as (tk0 & H0 & Hs & _).
    rewrite T1 in H0. inversion H0; subst tk0. destruct Hs as [->| ->]; exact T2. }
  destruct Ht as (tk' & Ht1 & Ht2).
  constructor; cbn [m_label]; mf; try congruence.
  - destruct E4 as [E4|E4]; congruence.
  - exists tk', k. split; [exact Ht1|]. split; [exact Ht2|]. intros _ H. discriminate H.
Qed.

Lemma m_quiet d v ls s m l s' out :
  RM d v s m -> tstep (TTimer v d) s l = (s', out) -> inert out ->
  match l with LRun _ | LAdv _ | LUnsub => False | _ => True end ->
  now s' = now s -> tasks s' = tasks s -> jobs s' = jobs s -> src_on s' = false -> main_task s' = main_task s ->
  msim d v ls s m l.
Proof.
  intros [R1 R2 R3 R4 R5 (tk & k & T1 & T2 & T3)] Hst Hin Hl F1 F2 F3 F4 F5. unfold msim. rewrite Hst. cbn [fst snd].
  rewrite (m_walk_inert d ls out _ Hin). eexists. split; [reflexivity|].
  constructor; rewrite ?F1, ?F2, ?F3, ?F5; try (destruct l; try contradiction; cbn [m_label]; mf; assumption).
  { destruct l; try contradiction; reflexivity. }
  exists tk, k. split; [exact T1|]. split; [exact T2|]. destruct l; try contradiction; exact T3.
Qed.

Lemma m_step_sim d v :
  forall ls_full done l r s m, ls_full = done ++ l :: r -> RM d v s m ->
    exists m', walk (m_step d ls_full) m (TMark (length done) :: snd (tstep (TTimer v d) s l)) = Some m' /\
               RM d v (fst (tstep (TTimer v d) s l)) m'.
Proof.
  intros ls_full done l r s m E R.
  cbn [walk m_step]. rewrite (rm_owed _ _ _ _ R), E, nth_error_mid. rewrite <- E.
  change (msim d v ls_full s m l).
  pose proof (rm_on _ _ _ _ R) as Hon.
  destruct l.
  - (* the timer has no input *)
    cbn [tstep] in *. destruct (src_done s) eqn:Ed.
    + apply (m_quiet d v ls_full s m (LSrc e) s [] R); auto. { cbn [tstep]. rewrite Ed. reflexivity. } apply inert_nil.
    + apply (m_quiet d v ls_full s m (LSrc e) (if is_term e then upd_src s false true else s) [] R); auto;
        try (destruct (is_term e); reflexivity). { cbn [tstep]. rewrite Ed, Hon. reflexivity. } apply inert_nil.
      destruct (is_term e); [reflexivity|exact Hon].
  - apply m_run; assumption.
  - destruct R as [R1 R2 R3 R4 R5 (tk & k & T1 & T2 & T3)]. unfold msim. cbn [tstep fst snd walk m_label]. eexists. split; [reflexivity|].
    constructor; mf; cbn [upd_now now tasks jobs src_on main_task]; auto; [congruence|exists tk, k; auto].
  - apply m_unsub_label; assumption.
  - apply (m_quiet d v ls_full s m LClosed s [TRet (sub_closed (TTimer v d) s)] R); auto. apply inert_one. exact I.
  - apply (m_quiet d v ls_full s m LFinish (upd_fin s) [] R); auto. apply inert_nil.
  - apply (m_quiet d v ls_full s m _ s [] R); auto. apply inert_nil.
  - apply (m_quiet d v ls_full s m _ s [] R); auto. apply inert_nil.
  - apply (m_quiet d v ls_full s m _ s [] R); auto. apply inert_nil.
  - apply (m_quiet d v ls_full s m _ s [] R); auto. apply inert_nil.
  - apply (m_quiet d v ls_full s m _ s [] R); auto. apply inert_nil.
Qed.

Lemma rm_init d v : RM d v (tinit (TTimer v d)) m0.
Proof.
  cbn [tinit schedule upd_main upd_src]. constructor; cbn; auto.
  eexists. eexists. split; [reflexivity|]. split; [reflexivity|]. intros _ _. split; [reflexivity|].
  unfold stage_ok. cbn. auto.
Qed.

(* timer: polled when it is due, before unsubscribe(), it emits its item and completes in that poll *)
Theorem timer_is_complete : forall v d ls, timer_complete d ls (run_timed (TTimer v d) ls) = true.
Proof.
  intros v d ls. unfold timer_complete, run_timed.
  destruct (BufferLaws.run_sim_state (m_step d) (TTimer v d) (RM d v) (m_step_sim d v) ls [] (tinit (TTimer v d)) m0 ls eq_refl (rm_init d v))
    as (m' & s' & Hw & R).
  cbn [length] in Hw. rewrite Hw, (rm_owed _ _ _ _ R). reflexivity.
Qed.

Theorem timed_complete_holds : forall o ls, timed_complete o ls (run_timed o ls) = true.
Proof.
  intros o ls. destruct o; try reflexivity; cbn [timed_complete];
    [apply delay_is_complete|apply observe_on_is_complete|apply delay_subscription_is_complete|apply subscribe_on_is_complete
    |apply timer_is_complete].
Qed.

Example timer_complete_rejects_a_lost_completion :
  timer_complete 2 [LRun 0; LAdv 2; LRun 0] [TMark 0; TMark 1; TMark 2; TOut 2 (Next (VZ 9))] = false /\
  timer_complete 2 [LRun 0; LAdv 2; LRun 0] [TMark 0; TMark 1; TMark 2; TOut 2 (Next (VZ 9)); TOut 2 Done] = true /\
  timer_complete 2 [LRun 0; LAdv 1; LRun 0] [TMark 0; TMark 1; TMark 2] = true.
Proof. repeat split; reflexivity. Qed.
