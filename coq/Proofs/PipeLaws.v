(* C01: whatever the tree, whatever the calls on its hot inputs: items, at most one terminal, nothing after. *)
From RxModel Require Import Pipe.
From RxProofs Require Import ChainLaws DerivedLaws Ops2Laws UnsubLaws.
Local Open Scope nat_scope.

Lemma wf_nexts_app a b : forallb (fun e => negb (is_term e)) a = true -> wf (a ++ b) = wf b.
Proof.
  induction a as [|e r IH]; intros H; [reflexivity|]. cbn in H. apply andb_prop in H. destruct H as [He Hr].
  destruct e; try discriminate. cbn. apply IH, Hr.
Qed.

(* one step of a two-input operator emits items only, or items and then one terminal that closes it *)
Lemma step2_shape o s sd e s' out :
  step2 o s sd e = (s', out) ->
  forallb (fun x => negb (is_term x)) out = true \/ (wf out = true /\ alive s' = false).
Proof.
  intros Hs.
  destruct o; cbn in Hs; unfold complete_second, slot_next, slot_term, emit_data in Hs;
    repeat match type of Hs with
           | context [if ?c then _ else _] => destruct c eqn:?
           | context [match ?x with _ => _ end] => destruct x eqn:?
           end;
    inversion Hs; subst; cbn; auto.
Qed.

Theorem op2_wf o : forall tl s la lb, wf (run2 o s la lb tl) = true.
Proof.
  induction tl as [|[sd e] r IH]; intros s la lb; [reflexivity|]. cbn [run2].
  destruct (match sd with A => la | B => lb end); [|apply IH].
  destruct (step2 o s sd e) as [s' out] eqn:Es.
  destruct (step2_shape o s sd e s' out Es) as [Hn|[Hw Ha]].
  - rewrite wf_nexts_app by exact Hn. apply IH.
  - rewrite (silent o s' _ _ r Ha), app_nil_r. exact Hw.
Qed.

(* ---------- chunks compose ---------- *)
Lemma chain_chunks_concat : forall cs ch, concat (chain_chunks ch cs) = snd (push ch (concat cs)).
Proof.
  induction cs as [|c r IH]; intros ch.
  - cbn. rewrite <- drive_push. reflexivity.
  - cbn [chain_chunks concat]. rewrite push_app. destruct (push ch c) as [ch' out]. cbn [concat].
    rewrite IH. destruct (push ch' (concat r)) as [ch2 o2]. reflexivity.
Qed.

Lemma chunks_nonempty p sts : chunks p sts <> [].
Proof.
  revert sts. induction p as [i|script|s|p IH os|o a IHa b IHb]; intros sts; cbn [chunks]; try discriminate.
  - destruct (subscribe_chain os) as [ch pre]. destruct (chunks p sts) as [|c0 r]; [discriminate|].
    destruct (push ch c0); discriminate.
  - specialize (IHa sts). specialize (IHb sts). destruct (chunks a sts) as [|ca ra]; [contradiction|].
    destruct (chunks b sts) as [|cb rb]; [contradiction|]. cbn [op2_chunks].
    destruct (final2 o (init2 o) true true (chunk_tl o ca cb)) as [[s' la'] lb']. discriminate.
Qed.

Theorem exec_chain p os sts : exec (PChain p os) sts = run_hot os (exec p sts).
Proof.
  unfold exec, run_hot. cbn [chunks]. destruct (subscribe_chain os) as [ch pre].
  pose proof (chunks_nonempty p sts) as N. destruct (chunks p sts) as [|c0 r]; [contradiction|].
  cbn [concat]. rewrite drive_push, push_app. destruct (push ch c0) as [ch' out]. cbn [concat].
  rewrite chain_chunks_concat. destruct (push ch' (concat r)) as [ch2 o2]. cbn [snd]. rewrite app_assoc. reflexivity.
Qed.

Fixpoint all_tl (o : op2) (ca cb : list (list ev)) : timeline :=
  match ca, cb with
  | a :: ra, b :: rb => chunk_tl o a b ++ all_tl o ra rb
  | _, _ => []
  end.

Lemma op2_chunks_concat o : forall ca cb s la lb,
  concat (op2_chunks o s la lb ca cb) = run2 o s la lb (all_tl o ca cb).
Proof.
  induction ca as [|a ra IH]; intros cb s la lb; [reflexivity|]. destruct cb as [|b rb]; [reflexivity|].
  cbn [op2_chunks all_tl]. rewrite run2_incremental.
  destruct (final2 o s la lb (chunk_tl o a b)) as [[s' la'] lb']. cbn [concat]. rewrite IH. reflexivity.
Qed.

Theorem exec_op2 o a b sts : exec (POp2 o a b) sts = run_op2 o (all_tl o (chunks a sts) (chunks b sts)).
Proof. unfold exec, run_op2. cbn [chunks]. apply op2_chunks_concat. Qed.

Lemma hot_chunks_wf i : forall sts live, wf (concat (hot_chunks i live sts)) = true /\ (live = false -> concat (hot_chunks i live sts) = []).
Proof.
  induction sts as [|[j e] r IH]; intros live; [cbn; auto|]. cbn [hot_chunks].
  destruct (Nat.eqb i j && live) eqn:E.
  - apply andb_prop in E. destruct E as [_ ->]. cbn [concat app].
    destruct (IH (negb (is_term e))) as [W Z]. split; [|discriminate].
    destruct e; cbn [wf is_term negb] in *; [exact W|rewrite (Z eq_refl); reflexivity|rewrite (Z eq_refl); reflexivity].
  - cbn [concat app]. destruct (IH live) as [W Z]. split; [exact W|exact Z].
Qed.

Lemma concat_nils {A B} (l : list B) : concat (map (fun _ => @nil A) l) = [].
Proof. induction l; cbn; auto. Qed.

(* ---------- the grammar, for every tree and every sequence of calls on its hot inputs ---------- *)
Theorem pipe_wf : forall p sts, wf (exec p sts) = true.
Proof.
  induction p as [i|script|s|p IH os|o a IHa b IHb]; intros sts.
  - unfold exec. cbn [chunks concat app]. apply hot_chunks_wf.
  - unfold exec. cbn [chunks concat]. rewrite concat_nils, app_nil_r. apply wf_slot.
  - unfold exec. cbn [chunks concat]. rewrite concat_nils, app_nil_r. apply wf_src.
  - rewrite exec_chain. apply chain_output_wf, IH.
  - rewrite exec_op2. apply op2_wf.
Qed.

(* the closure idiom sees exactly the trace when it is well-formed ... *)
Theorem idiom_sees_trace : forall t, wf t = true -> idiom_log true t = t.
Proof.
  induction t as [|e r IH]; intros H; [reflexivity|]. cbn [idiom_log]. destruct e; cbn [is_term negb].
  - rewrite IH by exact H. reflexivity.
  - cbn in H. destruct r; [reflexivity|discriminate].
  - cbn in H. destruct r; [reflexivity|discriminate].
Qed.

(* ... and is well-formed in any case *)
Theorem idiom_wf : forall t live, wf (idiom_log live t) = true.
Proof.
  induction t as [|e r IH]; intros live; [reflexivity|]. cbn [idiom_log]. destruct live; [|reflexivity].
  destruct e; cbn [is_term negb wf].
  - apply IH.
  - destruct r; reflexivity.
  - destruct r; reflexivity.
Qed.

(* group_by: every group's subscriber sees a well-formed trace *)
From RxModel Require Import GroupBy.
From RxSpec Require Import GroupBySpec.
From RxProofs Require GroupByLaws.

Lemma wf_nexts_then (l : list val) (tl : list ev) : wf (map Next l ++ tl) = wf tl.
Proof. induction l as [|v r IH]; [reflexivity|exact IH]. Qed.

Theorem group_wf key k items t : wf (group_trace k (run_group_by key (mk items t))) = true.
Proof.
  rewrite GroupByLaws.group_by_group_trace, wf_nexts_then.
  destruct (mem k (map key items)); [|reflexivity]. destruct t; reflexivity.
Qed.
