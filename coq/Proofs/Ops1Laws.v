(* Every single-input operator machine computes its list specification, for every
   script (unbounded length), every parameter and every closure. *)
From RxModel Require Import Ops1.
From RxSpec Require Import Ops1Spec.

Local Open Scope nat_scope.
Local Arguments Nat.leb : simpl never.
Local Arguments Nat.ltb : simpl never.
Local Arguments Nat.eqb : simpl never.
Local Arguments Nat.sub : simpl never.

Lemma mk_nil t : mk [] t = term_evs t.
Proof. reflexivity. Qed.

Lemma mk_cons x xs t : mk (x :: xs) t = Next x :: mk xs t.
Proof. reflexivity. Qed.

Lemma mk_app a b t : mk (a ++ b) t = map Next a ++ mk b t.
Proof. unfold mk. rewrite map_app, app_assoc. reflexivity. Qed.

Ltac term_cases t := destruct t; cbn; rewrite ?app_nil_r; try reflexivity.

(* ---------- stateless operators ---------- *)

Lemma law_map f st items t : run1 (OMap f) st (mk items t) = out (map f items) t.
Proof. induction items as [|x xs IH]; [term_cases t|]. cbn. f_equal. exact IH. Qed.

Lemma law_map_to c st items t : run1 (OMapTo c) st (mk items t) = out (map (fun _ => c) items) t.
Proof. induction items as [|x xs IH]; [term_cases t|]. cbn. f_equal. exact IH. Qed.

Lemma law_filter p st items t : run1 (OFilter p) st (mk items t) = out (filter p items) t.
Proof.
  induction items as [|x xs IH]; [term_cases t|]. cbn.
  destruct (p x); cbn; [f_equal|]; exact IH.
Qed.

Lemma law_filter_map f st items t :
  run1 (OFilterMap f) st (mk items t) = out (filter_map_l f items) t.
Proof.
  induction items as [|x xs IH]; [term_cases t|]. cbn.
  destruct (f x); cbn; [f_equal|]; exact IH.
Qed.

Lemma law_tap st items t : run1 OTap st (mk items t) = out items t.
Proof. induction items as [|x xs IH]; [term_cases t|]. cbn. f_equal. exact IH. Qed.

Lemma law_on_error_map g st items t :
  run1 (OOnErrorMap g) st (mk items t) = out items (map_err g t).
Proof. induction items as [|x xs IH]; [term_cases t|]. cbn. f_equal. exact IH. Qed.

Lemma law_start_with_run vs st items t : run1 (OStartWith vs) st (mk items t) = out items t.
Proof. induction items as [|x xs IH]; [term_cases t|]. cbn. f_equal. exact IH. Qed.

(* ---------- take ---------- *)

Lemma take_dead n h items t : run1 (OTake n) (SCount false h) (mk items t) = [].
Proof.
  induction items as [|x xs IH]; [term_cases t|]. rewrite mk_cons. cbn [run1 step1 is_term].
  destruct (Nat.ltb h n); cbn [app]; exact IH.
Qed.

Lemma take_zero h items t alive :
  run1 (OTake 0) (SCount alive h) (mk items t) = if alive then out [] t else [].
Proof.
  induction items as [|x xs IH]; [destruct alive; term_cases t|]. cbn. exact IH.
Qed.

Lemma take_alive n h items t :
  h < n ->
  run1 (OTake n) (SCount true h) (mk items t) =
  if Nat.leb (n - h) (length items) then out (firstn (n - h) items) TDone else out items t.
Proof.
  revert h. induction items as [|x xs IH]; intros h Hlt.
  - cbn [length]. destruct (Nat.leb_spec (n - h) 0); [lia|]. term_cases t.
  - rewrite mk_cons. cbn [run1 step1 is_term].
    destruct (Nat.ltb_spec h n); [|lia].
    destruct (Nat.eqb_spec (S h) n) as [E|E].
    + subst n. replace (S h - h) with 1 by lia. cbn. rewrite take_dead. reflexivity.
    + rewrite IH by lia. cbn [length].
      replace (n - h) with (S (n - S h)) by lia. cbn [firstn].
      destruct (Nat.leb_spec (n - S h) (length xs)); destruct (Nat.leb_spec (S (n - S h)) (S (length xs))); try lia; reflexivity.
Qed.

Lemma law_take n items t : run1 (OTake n) (init1 (OTake n)) (mk items t) = spec1 (OTake n) items t.
Proof.
  cbn [init1 spec1]. destruct n as [|n].
  - rewrite take_zero. reflexivity.
  - rewrite take_alive by lia. rewrite Nat.sub_0_r. reflexivity.
Qed.

(* ---------- skip ---------- *)

Lemma skip_gen n h items t :
  run1 (OSkip n) (SHits h) (mk items t) = out (skipn (n - h) items) t.
Proof.
  revert h. induction items as [|x xs IH]; intros h.
  - rewrite skipn_nil. term_cases t.
  - rewrite mk_cons. cbn [run1 step1 is_term]. rewrite IH.
    destruct (Nat.ltb_spec n (S h)).
    + replace (n - h) with 0 by lia. replace (n - S h) with 0 by lia. reflexivity.
    + replace (n - h) with (S (n - S h)) by lia. reflexivity.
Qed.

Lemma law_skip n items t : run1 (OSkip n) (init1 (OSkip n)) (mk items t) = spec1 (OSkip n) items t.
Proof. cbn [init1 spec1]. rewrite skip_gen, Nat.sub_0_r. reflexivity. Qed.

(* ---------- take_while / skip_while ---------- *)

Lemma alive_dead_tw p inc items t : run1 (OTakeWhile p inc) (SAlive false) (mk items t) = [].
Proof. induction items as [|x xs IH]; [term_cases t|]. cbn. exact IH. Qed.

Lemma law_take_while p inc items t :
  run1 (OTakeWhile p inc) (init1 (OTakeWhile p inc)) (mk items t) = spec1 (OTakeWhile p inc) items t.
Proof.
  cbn [init1 spec1]. induction items as [|x xs IH]; [term_cases t|].
  rewrite mk_cons. cbn [run1 step1 is_term take_while_l].
  destruct (p x).
  - rewrite IH. destruct (take_while_l p inc xs) as [a b]. reflexivity.
  - rewrite alive_dead_tw. destruct inc; reflexivity.
Qed.

Lemma skip_while_done p items t : run1 (OSkipWhile p) (SFlag true) (mk items t) = out items t.
Proof. induction items as [|x xs IH]; [term_cases t|]. cbn. f_equal. exact IH. Qed.

Lemma law_skip_while p items t :
  run1 (OSkipWhile p) (init1 (OSkipWhile p)) (mk items t) = spec1 (OSkipWhile p) items t.
Proof.
  cbn [init1 spec1]. induction items as [|x xs IH]; [term_cases t|].
  rewrite mk_cons. cbn [run1 step1 is_term drop_while_l].
  destruct (p x); cbn [negb].
  - exact IH.
  - rewrite skip_while_done. reflexivity.
Qed.

(* ---------- take_last ---------- *)

Lemma trim_lastn n q : trim n q = lastn n q.
Proof.
  unfold lastn. induction q as [|a q IH]; [reflexivity|].
  cbn [trim length]. destruct (Nat.leb_spec (S (length q)) n).
  - replace (S (length q) - n) with 0 by lia. reflexivity.
  - rewrite IH. replace (S (length q) - n) with (S (length q - n)) by lia. reflexivity.
Qed.

Lemma skipn_skipn' (x y : nat) (l : list val) : skipn x (skipn y l) = skipn (x + y) l.
Proof.
  revert l. induction y as [|y IH]; intros l.
  - rewrite Nat.add_0_r. reflexivity.
  - destruct l as [|a l]; [rewrite !skipn_nil; reflexivity|].
    rewrite Nat.add_succ_r. cbn [skipn]. apply IH.
Qed.

Lemma lastn_lastn_app n a b : lastn n (lastn n a ++ b) = lastn n (a ++ b).
Proof.
  unfold lastn. set (k := length a - n).
  assert (H : skipn k a ++ b = skipn k (a ++ b)).
  { rewrite skipn_app. replace (k - length a) with 0 by lia. reflexivity. }
  rewrite H, skipn_skipn'. f_equal. rewrite skipn_length, app_length. lia.
Qed.

Lemma lastn_idem n a : lastn n (lastn n a) = lastn n a.
Proof. pose proof (lastn_lastn_app n a []) as H. rewrite !app_nil_r in H. exact H. Qed.

Lemma take_last_gen n q items t :
  q = lastn n q ->
  run1 (OTakeLast n) (SQueue q) (mk items t) = on_done t (lastn n (q ++ items)).
Proof.
  revert q. induction items as [|x xs IH]; intros q Hq.
  - rewrite app_nil_r, <- Hq. term_cases t.
  - rewrite mk_cons. cbn [run1 step1 is_term app]. rewrite trim_lastn.
    rewrite IH by (symmetry; apply lastn_idem).
    rewrite lastn_lastn_app, <- app_assoc. reflexivity.
Qed.

Lemma law_take_last n items t :
  run1 (OTakeLast n) (init1 (OTakeLast n)) (mk items t) = spec1 (OTakeLast n) items t.
Proof. cbn [init1 spec1]. rewrite take_last_gen; [reflexivity|]. unfold lastn. cbn. rewrite skipn_nil. reflexivity. Qed.

(* ---------- skip_last ---------- *)

Lemma skip_last_zero q items t :
  run1 (OSkipLast 0) (SCountQ 0 q) (mk items t) = out (firstn (length items) (q ++ items)) t.
Proof.
  revert q. induction items as [|x xs IH]; intros q.
  - cbn [length firstn]. term_cases t.
  - rewrite mk_cons. cbn [run1 step1 is_term].
    destruct q as [|a q']; cbn [app].
    + rewrite IH. reflexivity.
    + rewrite IH. cbn [length firstn]. rewrite <- app_assoc. reflexivity.
Qed.

Lemma skip_last_gen n cd q items t :
  cd + length q = n ->
  run1 (OSkipLast n) (SCountQ cd q) (mk items t) =
  out (firstn (length q + length items - n) (q ++ items)) t.
Proof.
  revert cd q. induction items as [|x xs IH]; intros cd q Hn.
  - cbn [length]. replace (length q + 0 - n) with 0 by lia. term_cases t.
  - rewrite mk_cons. cbn [run1 step1 is_term].
    destruct cd as [|cd'].
    + destruct q as [|a q']; cbn [app].
      * cbn in Hn. subst n. cbn [length]. rewrite (IH 0 []) by reflexivity. cbn [length app].
        replace (0 + S (length xs) - 0) with (S (0 + length xs - 0)) by lia. reflexivity.
      * rewrite (IH 0 (q' ++ [x])) by (rewrite app_length; cbn in *; lia).
        rewrite app_length. cbn [length] in *.
        replace (S (length q') + S (length xs) - n) with (S (length q' + 1 + length xs - n)) by lia.
        cbn [firstn]. rewrite <- app_assoc. reflexivity.
    + rewrite (IH cd' (q ++ [x])) by (rewrite app_length; cbn; lia).
      rewrite app_length, <- app_assoc. cbn [length app].
      replace (length q + 1 + length xs - n) with (length q + S (length xs) - n) by lia. reflexivity.
Qed.

Lemma law_skip_last n items t :
  run1 (OSkipLast n) (init1 (OSkipLast n)) (mk items t) = spec1 (OSkipLast n) items t.
Proof. cbn [init1 spec1]. rewrite (skip_last_gen n n []) by (cbn; lia). reflexivity. Qed.

(* ---------- last ---------- *)

Lemma last_opt_snoc l x : last_opt (l ++ [x]) = Some x.
Proof. unfold last_opt. rewrite rev_app_distr. reflexivity. Qed.

Lemma last_gen l items t :
  run1 OLast (SOpt l) (mk items t) =
  on_done t (match (match last_opt items with Some x => Some x | None => l end) with Some x => [x] | None => [] end).
Proof.
  revert l. induction items as [|x xs IH]; intros l.
  - cbn [last_opt rev]. destruct l; term_cases t.
  - rewrite mk_cons. cbn [run1 step1 is_term app]. rewrite IH.
    destruct xs as [|y ys] using rev_ind.
    + reflexivity.
    + replace (x :: ys ++ [y]) with ((x :: ys) ++ [y]) by reflexivity. rewrite !last_opt_snoc. reflexivity.
Qed.

Lemma law_last items t : run1 OLast (init1 OLast) (mk items t) = spec1 OLast items t.
Proof. cbn [init1 spec1]. rewrite last_gen. destruct (last_opt items); reflexivity. Qed.

(* ---------- scan ---------- *)

Lemma law_scan_gen f i a items t : run1 (OScan f i) (SAcc a) (mk items t) = out (scan_l f a items) t.
Proof.
  revert a. induction items as [|x xs IH]; intros a; [term_cases t|].
  rewrite mk_cons. cbn [run1 step1 is_term scan_l]. rewrite IH. reflexivity.
Qed.

(* ---------- default_if_empty ---------- *)

Lemma default_nonempty d items t : run1 (ODefaultIfEmpty d) (SFlag false) (mk items t) = out items t.
Proof. induction items as [|x xs IH]; [term_cases t|]. rewrite mk_cons. cbn [run1 step1 is_term]. rewrite IH. reflexivity. Qed.

Lemma law_default_if_empty d items t :
  run1 (ODefaultIfEmpty d) (init1 (ODefaultIfEmpty d)) (mk items t) = spec1 (ODefaultIfEmpty d) items t.
Proof.
  cbn [init1 spec1]. destruct items as [|x xs]; [term_cases t|].
  rewrite mk_cons. cbn [run1 step1 is_term]. rewrite default_nonempty. reflexivity.
Qed.

(* ---------- distinct family ---------- *)

Lemma distinct_gen (k : val -> val) seen items t :
  run1 (ODistinctKey k) (SQueue seen) (mk items t) = out (distinct_l k seen items) t.
Proof.
  revert seen. induction items as [|x xs IH]; intros seen; [term_cases t|].
  rewrite mk_cons. cbn [run1 step1 is_term distinct_l].
  destruct (mem (k x) seen); rewrite IH; reflexivity.
Qed.

Lemma distinct_plain_gen seen items t :
  run1 ODistinct (SQueue seen) (mk items t) = out (distinct_l (fun x => x) seen items) t.
Proof.
  revert seen. induction items as [|x xs IH]; intros seen; [term_cases t|].
  rewrite mk_cons. cbn [run1 step1 is_term distinct_l].
  destruct (mem x seen); rewrite IH; reflexivity.
Qed.

Lemma until_key_gen (k : val -> val) prev items t :
  run1 (ODistinctUntilKeyChanged k) (SOpt prev) (mk items t) = out (until_changed_l k prev items) t.
Proof.
  revert prev. induction items as [|x xs IH]; intros prev; [destruct prev; term_cases t|].
  rewrite mk_cons. cbn [run1 step1 is_term until_changed_l].
  destruct prev as [w|]; [destruct (val_eqb (k w) (k x))|]; rewrite IH; reflexivity.
Qed.

Lemma until_gen prev items t :
  run1 ODistinctUntilChanged (SOpt prev) (mk items t) = out (until_changed_l (fun x => x) prev items) t.
Proof.
  revert prev. induction items as [|x xs IH]; intros prev; [destruct prev; term_cases t|].
  rewrite mk_cons. cbn [run1 step1 is_term until_changed_l].
  destruct prev as [w|]; [destruct (val_eqb w x)|]; rewrite IH; reflexivity.
Qed.

(* ---------- pairwise ---------- *)

Lemma pairwise_gen a prev items t :
  run1 OPairwise (SPair a prev) (mk items t) = out (pairs_l prev items) t.
Proof.
  revert a prev. induction items as [|x xs IH]; intros a prev; [term_cases t|].
  rewrite mk_cons. cbn [run1 step1 is_term pairs_l].
  destruct prev; rewrite IH; reflexivity.
Qed.

(* ---------- buffer_with_count ---------- *)

Lemma buffer_gen n data items t :
  run1 (OBufferCount n) (SQueue data) (mk items t) =
  let '(full, rest) := chunks_l n data items in
  match t with
  | TDone => out (full ++ match rest with [] => [] | _ => [VL rest] end) TDone
  | _ => out full t
  end.
Proof.
  revert data. induction items as [|x xs IH]; intros data.
  - cbn [chunks_l]. destruct data; term_cases t.
  - rewrite mk_cons. cbn [run1 step1 is_term chunks_l].
    destruct (Nat.leb n (length (data ++ [x]))).
    + rewrite IH. destruct (chunks_l n [] xs) as [full rest].
      assert (E : emit_buf (data ++ [x]) = [Next (VL (data ++ [x]))]) by (destruct data; reflexivity).
      rewrite E. destruct t; reflexivity.
    + rewrite IH. reflexivity.
Qed.

(* ---------- contains ---------- *)

Lemma contains_dead target items t : run1 (OContains target) (SAlive false) (mk items t) = [].
Proof. induction items as [|x xs IH]; [term_cases t|]. rewrite mk_cons. cbn [run1 step1 is_term]. exact IH. Qed.

Lemma law_contains target items t :
  run1 (OContains target) (init1 (OContains target)) (mk items t) = spec1 (OContains target) items t.
Proof.
  cbn [init1 spec1]. induction items as [|x xs IH]; [term_cases t|].
  rewrite mk_cons. cbn [run1 step1 is_term index_of].
  destruct (val_eqb target x); cbn [orb].
  - rewrite contains_dead. reflexivity.
  - exact IH.
Qed.

(* ---------- collect ---------- *)

Lemma collect_gen c items t : run1 OCollect (SQueue c) (mk items t) = on_done t [VL (c ++ items)].
Proof.
  revert c. induction items as [|x xs IH]; intros c.
  - rewrite app_nil_r. term_cases t.
  - rewrite mk_cons. cbn [run1 step1 is_term app]. rewrite IH, <- app_assoc. reflexivity.
Qed.

(* ---------- all operators ---------- *)

Theorem op_meets_spec (o : op1) (items : list val) (t : term) :
  run_op o (mk items t) = spec1 o items t.
Proof.
  unfold run_op. destruct o; cbn [sub1 app].
  - apply law_map.
  - apply law_map_to.
  - apply law_filter.
  - apply law_filter_map.
  - apply law_tap.
  - apply law_on_error_map.
  - apply law_take.
  - apply law_skip.
  - apply law_take_while.
  - apply law_skip_while.
  - apply law_take_last.
  - apply law_skip_last.
  - apply law_last.
  - apply law_scan_gen.
  - apply law_default_if_empty.
  - apply distinct_plain_gen.
  - apply distinct_gen.
  - apply until_gen.
  - apply until_key_gen.
  - apply pairwise_gen.
  - cbn [init1 spec1]. apply buffer_gen.
  - apply law_contains.
  - apply (collect_gen []).
  - rewrite law_start_with_run. cbn [spec1]. unfold out. rewrite mk_app. reflexivity.
Qed.
