(* Ileave.v: the trace properties of C10 / C06 / C02 for every setup script, every set of thread
   scripts and EVERY schedule.  (il_no_deadlock, il_no_panic, il_values are in IleaveBase.v -- they
   need no hypothesis; il_no_overlap is in IleaveInv.v.) *)
From RxProofs Require Export IleaveOrder.
Local Open Scope nat_scope.

Lemma walks_silent {A} (f : A -> itr -> option A) (a : A) o :
  (forall a x, is_ev x = false -> f a x = Some a) ->
  forallb (fun x => negb (is_ev x)) o = true -> walks f a o = Some a.
Proof.
  intros Hf. induction o as [|x o IH]; cbn; [reflexivity|]. intros H.
  apply andb_true_iff in H. destruct H as [Hx Ho]. apply negb_true_iff in Hx.
  rewrite (Hf a x Hx). auto.
Qed.

(* a dead cell stays dead *)
Lemma dead_stays s ths t t' th s1 th1 o k :
  Core s ths -> nth_error ths t = Some th -> imove s t' th = (s1, th1, o) ->
  cell_known s k = true -> cell_alive s k = false ->
  cell_known s1 k = true /\ cell_alive s1 k = false.
Proof.
  intros HC Ht Hm Hk Hd. split.
  - rewrite (F_known _ _ _ _ _ _ k Hm), Hk. reflexivity.
  - destruct (cell_alive s1 k) eqn:E; auto.
    destruct (F_alive _ _ _ _ _ _ _ Hm E) as [H|H]; [congruence|].
    apply sub_now_in in H; [|eapply c_pcok; eauto].
    rewrite (c_fresh _ _ HC _ _ _ Ht H) in Hk. discriminate.
Qed.

(* a thread does not enter the callback of a probe whose cell is known and dead *)
Lemma no_enter_dead s ths t t' th s1 th1 o k :
  Core s ths -> nth_error ths t = Some th -> imove s t' th = (s1, th1, o) ->
  cell_known s k = true -> cell_alive s k = false -> in_cb (t_pc th1) <> Some k.
Proof.
  intros HC Ht Hm Hk Hd Hin.
  destruct (F_incb _ _ _ _ _ _ _ Hm Hin) as (_ & [(Ha & _)|(Hpc & r & Hops)]); [congruence|].
  assert (In k (subs th)) as Hs by (unfold subs; rewrite Hops; cbn; auto).
  rewrite (c_fresh _ _ HC _ _ _ Ht Hs) in Hk. discriminate.
Qed.

(* ------------------------------------------------------------------ *)
(* C01 per probe: nothing after its terminal                           *)
(* ------------------------------------------------------------------ *)

Definition gstep (D : list nat) (x : itr) : option (list nat) :=
  match x with
  | TEv k (YItem _) _ _ => if imem k D then None else Some D
  | TEv k (YTerm _) _ _ => if imem k D then None else Some (k :: D)
  | _ => Some D
  end.

Lemma grammar_walks D tr :
  grammar_walk D tr = match walks gstep D tr with Some _ => true | None => false end.
Proof.
  revert D. induction tr as [|x tr IH]; intros D; cbn; [reflexivity|].
  destruct x as [ | k [v|e] t j | | | | ]; cbn; rewrite ?IH; try reflexivity;
    destruct (imem k D); cbn; auto.
Qed.

Definition GInv (D : list nat) (s : ish) (ths : list ithread) : Prop :=
  forall k, In k D ->
            cell_known s k = true /\ cell_alive s k = false /\
            forall i th e r, nth_error ths i = Some th -> t_pc th <> PInCbT e k r.

Lemma GInv_frame D s ths t t' th s1 th1 o :
  Core s ths -> GInv D s ths -> nth_error ths t = Some th -> imove s t' th = (s1, th1, o) ->
  GInv D s1 (set_th ths t th1).
Proof.
  intros HC HG Ht Hm k Hk. destruct (HG _ Hk) as (Hkn & Hd & HnT).
  destruct (dead_stays _ _ _ _ _ _ _ _ k HC Ht Hm Hkn Hd) as [Hkn1 Hd1].
  split; [auto|split; [auto|]]. intros i x e r Hi Hpc.
  destruct (nth_set_th_inv _ _ _ _ _ _ Ht Hi) as [[-> ->]|[Hni Hi']].
  - eapply (no_enter_dead _ _ _ _ _ _ _ _ k HC Ht Hm); eauto. rewrite Hpc. reflexivity.
  - eapply HnT; eauto.
Qed.

Lemma GInv_step D s ths t th s1 th1 o :
  Core s ths -> GInv D s ths -> ienabled s ths t = true -> nth_error ths t = Some th ->
  imove s t th = (s1, th1, o) ->
  exists D', walks gstep D o = Some D' /\ GInv D' s1 (set_th ths t th1).
Proof.
  intros HC HG He Ht Hm. pose proof (GInv_frame _ _ _ _ _ _ _ _ _ HC HG Ht Hm) as HG1.
  destruct (in_cb (t_pc th)) as [k|] eqn:Ec.
  2:{ exists D. split; auto. apply walks_silent; [|eapply F_noev; eauto].
      intros a x Hx. destruct x; try discriminate; reflexivity. }
  destruct (F_out _ _ _ _ _ _ _ Hm Ec) as (p & Ho).
  assert (In (TEv k p t (t_idx th)) o) as Hin by (rewrite Ho; cbn; auto).
  destruct (F_ev _ _ _ _ _ _ _ _ _ _ Hm Hin) as (_ & _ & Hcase).
  assert (imem k D = false) as HkD.
  { apply imem_false. intros Hk. destruct (HG _ Hk) as (Hkn & Hd & HnT).
    destruct Hcase as [(rest & v & Hpc & _)|[(rest & e & Hpc & _)|(x & Hpc & _)]].
    - pose proof (c_local _ _ HC _ _ Ht) as Hl. unfold local in Hl. rewrite Hpc in Hl. congruence.
    - eapply HnT; eauto.
    - pose proof (in_cb_B _ _ _ (c_pcok _ _ HC _ _ Ht) Hpc) as Hs.
      rewrite (c_fresh _ _ HC _ _ _ Ht Hs) in Hkn. discriminate. }
  rewrite Ho. cbn. destruct p as [v|e]; rewrite HkD.
  - exists D. auto.
  - exists (k :: D). split; auto. intros k' [<-|Hk']; [|apply HG1; auto].
    destruct Hcase as [(rest & v & Hpc & Hp)|[(rest & e' & Hpc & _)|(x & Hpc & Hp)]]; try discriminate.
    pose proof (c_local _ _ HC _ _ Ht) as Hl. unfold local in Hl. rewrite Hpc in Hl. destruct Hl as [Hkn Hd].
    destruct (dead_stays _ _ _ _ _ _ _ _ k HC Ht Hm Hkn Hd) as [Hkn1 Hd1].
    split; [auto|split; [auto|]]. intros i x e0 r Hi Hx.
    destruct (nth_set_th_inv _ _ _ _ _ _ Ht Hi) as [[-> ->]|[Hni Hi']].
    + eapply (no_enter_dead _ _ _ _ _ _ _ _ k HC Ht Hm); eauto. rewrite Hx. reflexivity.
    + apply Hni. eapply (c_mutex _ _ HC i t x th LObs); eauto.
      * rewrite Hx. reflexivity.
      * rewrite Hpc. reflexivity.
Qed.

Lemma grammar_irun sched s ths s' ths' tr :
  Core s ths -> irun s ths sched = (s', ths', tr) -> grammar_ok tr = true.
Proof.
  intros HC Hr. unfold grammar_ok. rewrite grammar_walks.
  destruct (irun_walks gstep (fun D s ths => Core s ths /\ GInv D s ths)) with (sched := sched) (a := @nil nat)
    (s := s) (ths := ths) (s' := s') (ths' := ths') (tr := tr) as (a' & Hw & _); auto.
  - intros D s0 ths0 t th s1 th1 o [HC0 HG0] He Hn Hm.
    destruct (GInv_step _ _ _ _ _ _ _ _ HC0 HG0 He Hn Hm) as (D' & Hw & HG1).
    exists D'. split; auto. split; auto. eapply Core_step; eauto.
  - split; auto. intros k [].
  - rewrite Hw. reflexivity.
Qed.

Theorem il_grammar v0 setup scripts sched :
  names_ok setup scripts = true ->
  let '(tr, e, fin) := run_case v0 setup scripts sched in grammar_ok tr = true.
Proof.
  intros Hn. rewrite run_case_eq. cbv zeta.
  destruct (irun _ _ sched) as [[s ths] tr] eqn:Er.
  eapply grammar_irun; [|exact Er]. apply Core_after_setup; auto.
Qed.

(* ------------------------------------------------------------------ *)
(* C02: once unsubscribe() has returned, the probe is never called     *)
(* ------------------------------------------------------------------ *)

(* a script unsubscribes only probes that are known to have been subscribed: by the setup script
   (K) or earlier in the same script *)
Fixpoint us_ok (K : nat -> bool) (ops : list iop) : bool :=
  match ops with
  | [] => true
  | IUnsub k :: r => K k && us_ok K r
  | ISub k :: r | IBSub k :: r => us_ok (fun x => Nat.eqb k x || K x) r
  | _ :: r => us_ok K r
  end.

Definition in_setup (setup : list iop) (x : nat) : bool := imem x (subscribed_in setup).

Definition unsubs_ok (setup : list iop) (scripts : list (list iop)) : bool :=
  forallb (us_ok (in_setup setup)) scripts.

Lemma us_mono ops : forall K K' : nat -> bool,
  (forall x, K x = true -> K' x = true) -> us_ok K ops = true -> us_ok K' ops = true.
Proof.
  induction ops as [|o r IH]; intros K K' HK; cbn; [auto|].
  destruct o; try (apply IH; auto; fail).
  - apply IH. intros x Hx. apply orb_true_iff in Hx. apply orb_true_iff. destruct Hx; auto.
  - intros H. apply andb_true_iff in H. destruct H as [H1 H2]. apply andb_true_iff. split; auto.
    eapply IH; eauto.
  - apply IH. intros x Hx. apply orb_true_iff in Hx. apply orb_true_iff. destruct Hx; auto.
Qed.

Section Quiet.
(* the probes of the setup script: they have a cell, or (when the setup script did not get to
   them) nobody will ever subscribe them *)
Variable S0 : nat -> bool.

Definition KS (s : ish) (x : nat) : bool := cell_known s x || S0 x.

Lemma F_usok s t th s1 th1 o :
  imove s t th = (s1, th1, o) -> pc_ok th ->
  us_ok (KS s) (t_ops th) = true -> us_ok (KS s1) (t_ops th1) = true.
Proof.
  destruct th as [pc ops idx]. intros H Hp Hu.
  assert (Hmono : forall x, KS s x = true -> KS s1 x = true).
  { intros x Hx. unfold KS in *. rewrite (F_known _ _ _ _ _ _ x H).
    destruct (cell_known s x); [reflexivity|]. cbn in Hx. rewrite Hx. apply orb_true_r. }
  imove_cases H.
  all: try (eapply us_mono; [|exact Hu]; exact Hmono).
  all: unfold pc_ok in Hp; cbn [t_pc t_ops pc_op pay_op] in Hp.
  all: try (destruct Hp as (r0 & ->)).
  all: cbn [tl us_ok] in *.
  all: try reflexivity.
  all: try (apply andb_true_iff in Hu; destruct Hu as [Hu1 Hu]).
  all: try (eapply us_mono; [|exact Hu]; exact Hmono).
  all: eapply us_mono; [|exact Hu]; intros x Hx; cbn beta in Hx; unfold KS in *; autorewrite with il;
    destruct (Nat.eqb _ x), (cell_known _ x), (S0 x); cbn in *; auto.
Qed.

Definition UsInv (s : ish) (ths : list ithread) : Prop :=
  forall i th, nth_error ths i = Some th -> us_ok (KS s) (t_ops th) = true.

Lemma UsInv_step s ths t t' th s1 th1 o :
  Core s ths -> UsInv s ths -> nth_error ths t = Some th -> imove s t' th = (s1, th1, o) ->
  UsInv s1 (set_th ths t th1).
Proof.
  intros HC HU Ht Hm i x Hi. destruct (nth_set_th_inv _ _ _ _ _ _ Ht Hi) as [[-> ->]|[Hni Hi']].
  - eapply F_usok; eauto. eapply c_pcok; eauto.
  - eapply us_mono; [|eapply HU; eauto]. intros y Hy. unfold KS in *.
    rewrite (F_known _ _ _ _ _ _ y Hm). destruct (cell_known s y); [reflexivity|].
    cbn in Hy. rewrite Hy. apply orb_true_r.
Qed.

(* no thread will subscribe a probe of the setup script *)
Definition NSInv (ths : list ithread) : Prop :=
  forall i th x, nth_error ths i = Some th -> In x (subs th) -> S0 x = false.

Lemma NSInv_step s ths t t' th s1 th1 o :
  NSInv ths -> nth_error ths t = Some th -> imove s t' th = (s1, th1, o) -> NSInv (set_th ths t th1).
Proof.
  intros HN Ht Hm i x y Hi Hy. destruct (nth_set_th_inv _ _ _ _ _ _ Ht Hi) as [[-> ->]|[Hni Hi']].
  - eapply HN; eauto. eapply subs_step_in; eauto.
  - eapply HN; eauto.
Qed.

Definition ustep (U : list nat) (x : itr) : option (list nat) :=
  match x with
  | TEv k _ _ _ => if imem k U then None else Some U
  | TUn k _ _ => Some (k :: U)
  | _ => Some U
  end.

Lemma unsub_walks U tr :
  unsub_walk U tr = match walks ustep U tr with Some _ => true | None => false end.
Proof.
  revert U. induction tr as [|x tr IH]; intros U; cbn; [reflexivity|].
  destruct x as [t l|k p t j|y t j|k t j|k|t]; cbn; rewrite ?IH; try reflexivity.
  destruct (imem k U); cbn; auto.
Qed.

Definition uns (o : list itr) : list nat :=
  flat_map (fun x => match x with TUn k _ _ => [k] | _ => [] end) o.

Lemma walks_un U o :
  forallb (fun x => negb (is_ev x)) o = true -> walks ustep U o = Some (rev (uns o) ++ U).
Proof.
  revert U. induction o as [|x o IH]; intros U; cbn; [reflexivity|]. intros H.
  apply andb_true_iff in H. destruct H as [Hx Ho].
  destruct x; try discriminate; cbn; rewrite (IH _ Ho); try reflexivity.
  rewrite <- app_assoc. reflexivity.
Qed.

Lemma uns_in k o : In k (uns o) -> exists t j, In (TUn k t j) o.
Proof.
  unfold uns. rewrite in_flat_map. intros (x & Hx & Hk). destruct x; cbn in Hk; try contradiction.
  destruct Hk as [<-|[]]. eauto.
Qed.

(* an unsubscribed probe: its cell is dead and nobody is inside its callback -- or it has no
   cell and never will *)
Definition QInv (U : list nat) (s : ish) (ths : list ithread) : Prop :=
  forall k, In k U ->
            (cell_known s k = true /\ cell_alive s k = false /\
             forall i th, nth_error ths i = Some th -> in_cb (t_pc th) <> Some k) \/
            (cell_known s k = false /\
             forall i th, nth_error ths i = Some th -> ~ In k (subs th)).

Lemma never_known s ths t t' th s1 th1 o k :
  Core s ths -> nth_error ths t = Some th -> imove s t' th = (s1, th1, o) ->
  cell_known s k = false -> (forall i x, nth_error ths i = Some x -> ~ In k (subs x)) ->
  cell_known s1 k = false /\ forall i x, nth_error (set_th ths t th1) i = Some x -> ~ In k (subs x).
Proof.
  intros HC Ht Hm Hk Hn. split.
  - rewrite (F_known _ _ _ _ _ _ k Hm), Hk. cbn.
    destruct (sub_now th) as [k'|] eqn:Es; [|reflexivity].
    destruct (Nat.eqb k' k) eqn:E; [|reflexivity]. apply Nat.eqb_eq in E. subst k'.
    apply sub_now_in in Es; [|eapply c_pcok; eauto]. exfalso. eapply Hn; eauto.
  - intros i x Hi Hx. destruct (nth_set_th_inv _ _ _ _ _ _ Ht Hi) as [[-> ->]|[Hni Hi']].
    + eapply Hn; eauto. eapply subs_step_in; eauto.
    + eapply Hn; eauto.
Qed.

Lemma QInv_frame U s ths t t' th s1 th1 o :
  Core s ths -> QInv U s ths -> nth_error ths t = Some th -> imove s t' th = (s1, th1, o) ->
  QInv U s1 (set_th ths t th1).
Proof.
  intros HC HQ Ht Hm k Hk. destruct (HQ _ Hk) as [(Hkn & Hd & Hn)|(Hkn & Hn)].
  - left. destruct (dead_stays _ _ _ _ _ _ _ _ k HC Ht Hm Hkn Hd) as [Hkn1 Hd1].
    split; [auto|split; [auto|]]. intros i x Hi.
    destruct (nth_set_th_inv _ _ _ _ _ _ Ht Hi) as [[-> ->]|[Hni Hi']].
    + eapply (no_enter_dead _ _ _ _ _ _ _ _ k HC Ht Hm); eauto.
    + eapply Hn; eauto.
  - right. eapply never_known; eauto.
Qed.

Lemma QInv_step U s ths t th s1 th1 o :
  Core s ths -> UsInv s ths -> NSInv ths -> QInv U s ths ->
  ienabled s ths t = true -> nth_error ths t = Some th ->
  imove s t th = (s1, th1, o) ->
  exists U', walks ustep U o = Some U' /\ QInv U' s1 (set_th ths t th1).
Proof.
  intros HC HU HN HQ He Ht Hm. pose proof (QInv_frame _ _ _ _ _ _ _ _ _ HC HQ Ht Hm) as HQ1.
  destruct (in_cb (t_pc th)) as [k|] eqn:Ec.
  - destruct (F_out _ _ _ _ _ _ _ Hm Ec) as (p & Ho). rewrite Ho. cbn.
    assert (imem k U = false) as HkU.
    { apply imem_false. intros Hk. destruct (HQ _ Hk) as [(_ & _ & Hn)|(Hkn & Hn)].
      - eapply Hn; eauto.
      - destruct (in_cb_cases _ _ Ec) as [Hh|(x & Hx)].
        + rewrite (in_cb_known _ _ _ (c_local _ _ HC _ _ Ht) Hh) in Hkn. discriminate.
        + eapply Hn; eauto. eapply in_cb_B; eauto. eapply c_pcok; eauto. }
    rewrite HkU. exists U. auto.
  - rewrite (walks_un U o (F_noev _ _ _ _ _ _ Hm Ec)). eexists. split; [reflexivity|].
    intros k Hk. apply in_app_or in Hk. destruct Hk as [Hk|Hk]; [|apply HQ1; auto].
    apply in_rev in Hk. apply uns_in in Hk. destruct Hk as (t0 & j & Hk).
    destruct (F_un _ _ _ _ _ _ _ _ _ Hm Hk) as (Hpc & r & Hops).
    assert (KS s k = true) as HK.
    { pose proof (HU _ _ Ht) as H. rewrite Hops in H. cbn in H. apply andb_true_iff in H. tauto. }
    unfold KS in HK. destruct (cell_known s k) eqn:Hkn.
    + left. destruct (F_unsub _ _ _ _ _ _ _ _ Hm Hpc Hops Hkn) as [Hd1 Hn].
      split; [rewrite (F_known _ _ _ _ _ _ k Hm), Hkn; reflexivity|]. split; [auto|].
      intros i x Hi Hx.
      destruct (nth_set_th_inv _ _ _ _ _ _ Ht Hi) as [[-> ->]|[Hni Hi']].
      * destruct (F_incb _ _ _ _ _ _ _ Hm Hx) as (_ & [(_ & Ho & _)|(_ & r' & Hops')]).
        -- rewrite Hpc in Ho. discriminate.
        -- congruence.
      * destruct (in_cb_cases _ _ Hx) as [Hh|(y & Hy)].
        -- rewrite (enabled_free _ _ _ _ _ _ _ He Ht Hn Hi') in Hh. discriminate.
        -- pose proof (in_cb_B _ _ _ (c_pcok _ _ HC _ _ Hi') Hy) as Hs.
           rewrite (c_fresh _ _ HC _ _ _ Hi' Hs) in Hkn. discriminate.
    + right. cbn in HK. eapply never_known; eauto.
      intros i x Hi Hx. rewrite (HN _ _ _ Hi Hx) in HK. discriminate.
Qed.

Lemma quiet_irun sched s ths s' ths' tr :
  Core s ths -> UsInv s ths -> NSInv ths -> irun s ths sched = (s', ths', tr) ->
  quiet_after_unsub tr = true.
Proof.
  intros HC HU HN Hr. unfold quiet_after_unsub. rewrite unsub_walks.
  destruct (irun_walks ustep (fun U s ths => Core s ths /\ UsInv s ths /\ NSInv ths /\ QInv U s ths))
    with (sched := sched) (a := @nil nat)
    (s := s) (ths := ths) (s' := s') (ths' := ths') (tr := tr) as (a' & Hw & _); auto.
  - intros U s0 ths0 t th s1 th1 o (HC0 & HU0 & HN0 & HQ0) He Hn Hm.
    destruct (QInv_step _ _ _ _ _ _ _ _ HC0 HU0 HN0 HQ0 He Hn Hm) as (U' & Hw & HQ1).
    exists U'. split; auto. split; [eapply Core_step; eauto|]. split; [eapply UsInv_step; eauto|].
    split; auto. eapply NSInv_step; eauto.
  - split; auto. split; auto. split; auto. intros k [].
  - rewrite Hw. reflexivity.
Qed.

End Quiet.

Lemma UsInv_init setup scripts s :
  unsubs_ok setup scripts = true -> UsInv (in_setup setup) s (map start_thread scripts).
Proof.
  intros Hu i th Hi. apply nth_map_start in Hi. destruct Hi as (sc & Hsc & ->). cbn.
  unfold unsubs_ok in Hu. rewrite forallb_forall in Hu.
  eapply us_mono; [|apply Hu; eapply nth_error_In; eauto].
  intros x Hx. unfold KS. rewrite Hx. apply orb_true_r.
Qed.

Lemma NSInv_init setup scripts :
  names_ok setup scripts = true -> NSInv (in_setup setup) (map start_thread scripts).
Proof.
  intros Hn i th x Hi Hx. apply nth_map_start in Hi. destruct Hi as (sc & Hsc & ->).
  unfold subs in Hx. cbn in Hx. unfold in_setup. apply imem_false. intros Hs.
  destruct (names_split (setup :: scripts) (names_ok_nodup _ _ Hn)) as [_ H2].
  specialize (H2 0 (S i) setup sc x eq_refl Hsc Hs Hx). discriminate.
Qed.

Theorem il_quiet_after_unsub v0 setup scripts sched :
  names_ok setup scripts = true -> unsubs_ok setup scripts = true ->
  let '(tr, e, fin) := run_case v0 setup scripts sched in quiet_after_unsub tr = true.
Proof.
  intros Hn Hu. rewrite run_case_eq. cbv zeta.
  destruct (irun _ _ sched) as [[s ths] tr] eqn:Er.
  eapply (quiet_irun (in_setup setup)); [| | |exact Er].
  - apply Core_after_setup; auto.
  - apply UsInv_init; auto.
  - apply NSInv_init; auto.
Qed.

(* ------------------------------------------------------------------ *)
(* everything together                                                 *)
(* ------------------------------------------------------------------ *)

Theorem il_all v0 setup scripts sched :
  names_ok setup scripts = true -> setup_completes v0 setup = true -> unsubs_ok setup scripts = true ->
  let '(tr, e, fin) := run_case v0 setup scripts sched in
  no_overlap tr && no_panic tr && grammar_ok tr && quiet_after_unsub tr && values_ok scripts tr &&
  common_order_ok scripts tr = true /\ e <> EDeadlock.
Proof.
  intros Hn Hc Hu.
  pose proof (il_no_deadlock v0 setup scripts sched) as H1.
  pose proof (il_no_overlap v0 setup scripts sched Hn Hc) as H2.
  pose proof (il_no_panic v0 setup scripts sched) as H3.
  pose proof (il_grammar v0 setup scripts sched Hn) as H4.
  pose proof (il_quiet_after_unsub v0 setup scripts sched Hn Hu) as H5.
  pose proof (il_values v0 setup scripts sched) as H6.
  pose proof (il_common_order v0 setup scripts sched Hn) as H7.
  destruct (run_case v0 setup scripts sched) as [[tr e] fin].
  rewrite H2, H3, H4, H5, H6, H7. split; [reflexivity|exact H1].
Qed.

(* ------------------------------------------------------------------ *)
(* the hypotheses: satisfiable, and needed                             *)
(* ------------------------------------------------------------------ *)

Definition tr_of (r : list itr * iend * Z) : list itr := fst (fst r).

(* a non-trivial case that satisfies the three hypotheses (three threads, subject and behavior
   operations mixed, subscriptions and unsubscriptions while others emit, a terminal) *)
Definition ex_setup : list iop := [ISub 0; IBSub 1; IBNext 4%Z].
Definition ex_scripts : list (list iop) :=
  [[INext 1%Z; IBSub 2; IUnsub 2; INext 2%Z]; [IBNext 7%Z; IUnsub 0; IBPeek]; [ISub 3; INext 9%Z; ITerm None]].
Definition ex_sched : list nat :=
  [0;1;2;0;1;2;2;0;0;1;1;2;0;1;0;2;0;0;0;1;1;1;2;2;2;0;1;2;0;0;0;0;0;1;1;1;1;1;2;2;2;2;2;2] ++
  concat (repeat [0;1;2] 40).

Example hyps_satisfiable :
  (names_ok ex_setup ex_scripts, setup_completes 0%Z ex_setup, unsubs_ok ex_setup ex_scripts) = (true, true, true).
Proof. vm_compute. reflexivity. Qed.

Example hyps_case_runs :
  (let '(tr, e, f) := run_case 0%Z ex_setup ex_scripts ex_sched in
   (ileave_ok ex_setup ex_scripts tr e, e, Nat.ltb 30 (length tr))) = (true, EFinished, true).
Proof. vm_compute. reflexivity. Qed.

(* il_no_overlap without names_ok: probe 0 is subscribed by the setup script and again, on the
   BehaviorSubject side, by a thread while another thread is inside its callback *)
Example no_overlap_needs_names :
  (names_ok [ISub 0] [[INext 1%Z]; [IBSub 0]], setup_completes 0%Z [ISub 0],
   no_overlap (tr_of (run_case 0%Z [ISub 0] [[INext 1%Z]; [IBSub 0]] [0;0;0;0;1]))) = (false, true, false).
Proof. vm_compute. reflexivity. Qed.

(* il_no_overlap without setup_completes: `run_case` gives the setup script 1000 moves; a longer one
   is cut off inside probe 0's callback and `s_busy` keeps the probe for ever *)
Definition long_setup : list iop := ISub 0 :: repeat (INext 1%Z) 200.
Example no_overlap_needs_setup_completes :
  (names_ok long_setup [[INext 5%Z]], setup_completes 0%Z long_setup,
   no_overlap (tr_of (run_case 0%Z long_setup [[INext 5%Z]] [0;0;0;0]))) = (true, false, false).
Proof. vm_compute. reflexivity. Qed.

(* il_grammar without names_ok: probe 0 is handed the terminal and is then subscribed again *)
Example grammar_needs_names :
  (names_ok [ISub 0] [[ITerm None; IBSub 0]],
   grammar_ok (tr_of (run_case 0%Z [ISub 0] [[ITerm None; IBSub 0]] (repeat 0 30)))) = (false, false).
Proof. vm_compute. reflexivity. Qed.

(* il_quiet_after_unsub without unsubs_ok: a thread "unsubscribes" a probe that another thread has
   not subscribed yet *)
Example quiet_needs_unsubs_ok :
  (names_ok [] [[IUnsub 0]; [ISub 0; INext 1%Z]], unsubs_ok [] [[IUnsub 0]; [ISub 0; INext 1%Z]],
   quiet_after_unsub (tr_of (run_case 0%Z [] [[IUnsub 0]; [ISub 0; INext 1%Z]] [0;1;1;1;1;1;1;1;1])))
  = (true, false, false).
Proof. vm_compute. reflexivity. Qed.

(* il_quiet_after_unsub without names_ok: the probe is subscribed again after its unsubscribe() *)
Example quiet_needs_names :
  (names_ok [ISub 0] [[IUnsub 0; ISub 0; INext 1%Z]], unsubs_ok [ISub 0] [[IUnsub 0; ISub 0; INext 1%Z]],
   quiet_after_unsub (tr_of (run_case 0%Z [ISub 0] [[IUnsub 0; ISub 0; INext 1%Z]] (repeat 0 30))))
  = (false, true, false).
Proof. vm_compute. reflexivity. Qed.

(* il_common_order without names_ok: a probe subscribed twice sees every broadcast twice *)
Example common_order_needs_names :
  (names_ok [ISub 0; ISub 0] [[INext 1%Z]],
   common_order_ok [[INext 1%Z]] (tr_of (run_case 0%Z [ISub 0; ISub 0] [[INext 1%Z]] (repeat 0 30))))
  = (false, false).
Proof. vm_compute. reflexivity. Qed.

Print Assumptions il_no_deadlock.
Print Assumptions il_no_overlap.
Print Assumptions il_no_panic.
Print Assumptions il_grammar.
Print Assumptions il_quiet_after_unsub.
Print Assumptions il_values.
Print Assumptions il_common_order.
Print Assumptions il_all.
Print Assumptions no_stuck.
