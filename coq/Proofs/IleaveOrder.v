(* Ileave.v, C10 / C06: every probe sees the broadcasts as a sub-sequence of one global order. *)
From RxProofs Require Export IleaveInv.
Local Open Scope nat_scope.

(* ------------------------------------------------------------------ *)
(* lists of broadcast identifiers                                      *)
(* ------------------------------------------------------------------ *)

Lemma bid_eqb_eq a b : bid_eqb a b = true <-> a = b.
Proof.
  destruct a as [a1 a2], b as [b1 b2]. unfold bid_eqb. cbn.
  rewrite andb_true_iff, !Nat.eqb_eq. split; [intros [-> ->]; reflexivity|intros H; inversion H; auto].
Qed.

Lemma bid_eqb_refl a : bid_eqb a a = true.
Proof. apply bid_eqb_eq. reflexivity. Qed.

Lemma bid_eqb_neq a b : bid_eqb a b = false <-> a <> b.
Proof.
  rewrite <- bid_eqb_eq. destruct (bid_eqb a b); split; intros H; try discriminate; auto.
  exfalso; apply H; reflexivity.
Qed.

Lemma memb_In b l : memb b l = true <-> In b l.
Proof.
  unfold memb. rewrite existsb_exists. split.
  - intros (x & Hx & He). apply bid_eqb_eq in He. subst. exact Hx.
  - intros H. exists b. split; auto. apply bid_eqb_refl.
Qed.

Lemma memb_false b l : memb b l = false <-> ~ In b l.
Proof.
  rewrite <- memb_In. destruct (memb b l); split; intros H; try discriminate; auto.
  exfalso; apply H; reflexivity.
Qed.

Lemma subseq_nil b : subseq_bids [] b = true.
Proof. destruct b; reflexivity. Qed.

Lemma subseq_app_r a b c : subseq_bids a b = true -> subseq_bids a (b ++ c) = true.
Proof.
  revert a. induction b as [|y b IH]; intros [|x a]; cbn; rewrite ?subseq_nil; auto; try discriminate.
  destruct (bid_eqb x y); auto.
Qed.

Lemma subseq_snoc_both a b x : subseq_bids a b = true -> subseq_bids (a ++ [x]) (b ++ [x]) = true.
Proof.
  revert a. induction b as [|y b IH]; intros [|z a]; cbn; try discriminate.
  - intros _. rewrite bid_eqb_refl. reflexivity.
  - intros _. destruct (bid_eqb x y); [apply subseq_nil|]. apply (IH []). apply subseq_nil.
  - destruct (bid_eqb z y); intros H.
    + apply IH; auto.
    + apply (IH (z :: a)); auto.
Qed.

Lemma subseq_drop_last a b x : subseq_bids a (b ++ [x]) = true -> ~ In x a -> subseq_bids a b = true.
Proof.
  revert a. induction b as [|y b IH]; intros [|z a]; cbn; rewrite ?subseq_nil; auto.
  - destruct (bid_eqb z x) eqn:E.
    + apply bid_eqb_eq in E. subst. intros _ H. exfalso. apply H. auto.
    + destruct a; discriminate.
  - destruct (bid_eqb z y); intros H Hn.
    + apply IH; auto.
    + apply (IH (z :: a)); auto.
Qed.

Lemma first_seen_snoc seen l b :
  first_seen seen (l ++ [b]) = first_seen seen l ++ (if memb b seen || memb b l then [] else [b]).
Proof.
  revert seen. induction l as [|x l IH]; intros seen; cbn.
  - rewrite orb_false_r. destruct (memb b seen); reflexivity.
  - destruct (memb x seen) eqn:Ex.
    + rewrite IH. f_equal. destruct (bid_eqb b x) eqn:E; cbn; [|reflexivity].
      apply bid_eqb_eq in E. subst. rewrite Ex. reflexivity.
    + cbn. rewrite IH. f_equal. cbn. rewrite orb_assoc. rewrite (orb_comm (memb b seen)). reflexivity.
Qed.

Lemma first_seen_in seen l b : In b (first_seen seen l) <-> In b l /\ memb b seen = false.
Proof.
  revert seen. induction l as [|x l IH]; intros seen; cbn; [tauto|].
  destruct (memb x seen) eqn:Ex.
  - rewrite IH. split; [tauto|]. intros [[->|H] Hm]; [congruence|tauto].
  - cbn. rewrite IH. cbn. rewrite orb_false_iff, bid_eqb_neq. split.
    + intros [->|(H1 & H2 & H3)]; auto.
    + intros [[->|H] Hm]; auto. destruct (bid_eqb b x) eqn:E.
      * apply bid_eqb_eq in E. auto.
      * apply bid_eqb_neq in E. right. repeat split; auto.
Qed.

(* ---- the broadcasts of a trace, as a list ---- *)
Definition bent := (nat * Z * bid)%type.

Definition bidsL (L : list bent) (k : nat) : list bid :=
  flat_map (fun x : bent => if Nat.eqb (fst (fst x)) k then [snd x] else []) L.
Definition ordL (L : list bent) : list bid := first_seen [] (map snd L).

Lemma bids_of_L scripts tr k : bids_of scripts tr k = bidsL (bcasts scripts tr) k.
Proof. reflexivity. Qed.
Lemma order_L scripts tr : order scripts tr = ordL (bcasts scripts tr).
Proof. reflexivity. Qed.

Lemma ordL_in L b : In b (ordL L) <-> In b (map snd L).
Proof. unfold ordL. rewrite first_seen_in. cbn. tauto. Qed.

Lemma bidsL_in L k b : In b (bidsL L k) -> In b (ordL L).
Proof.
  rewrite ordL_in. unfold bidsL. rewrite in_flat_map. intros (x & Hx & Hb).
  destruct (Nat.eqb (fst (fst x)) k); [|contradiction]. destruct Hb as [<-|[]].
  apply in_map. exact Hx.
Qed.

Lemma bidsL_snoc L k v b k' :
  bidsL (L ++ [(k, v, b)]) k' = bidsL L k' ++ (if Nat.eqb k k' then [b] else []).
Proof. unfold bidsL. rewrite flat_map_app. cbn. rewrite app_nil_r. reflexivity. Qed.

Lemma ordL_snoc L k v b :
  ordL (L ++ [(k, v, b)]) = ordL L ++ (if memb b (map snd L) then [] else [b]).
Proof. unfold ordL. rewrite map_app. cbn [map snd]. rewrite first_seen_snoc. reflexivity. Qed.

Lemma ordL_snoc_in L k v b x : In x (ordL (L ++ [(k, v, b)])) <-> In x (ordL L) \/ x = b.
Proof.
  rewrite !ordL_in, map_app, in_app_iff. cbn. split; intros [H|H]; auto.
  - destruct H as [H|[]]; auto.
Qed.

(* ------------------------------------------------------------------ *)
(* the observer lists have no duplicates                               *)
(* ------------------------------------------------------------------ *)

Definition olist (o : option (list nat)) : list nat := match o with Some l => l | None => [] end.

Definition ObsInv (s : ish) : Prop :=
  NoDup (olist (s_obs s) ++ olist (s_cham s)) /\
  forall k, In k (olist (s_obs s) ++ olist (s_cham s)) -> cell_known s k = true.

Definition deliv (pc : ipc) : bool := match pc with PCell _ _ | PInCb _ _ _ => true | _ => false end.
Definition pending (pc : ipc) : list nat :=
  match pc with PCell _ rest => rest | PInCb _ k rest => k :: rest | _ => [] end.

Lemma ObsInv_kill s k : ObsInv s -> ObsInv (kill_cell s k).
Proof.
  intros [H1 H2]. split; [exact H1|]. intros x Hx. rewrite known_kill. apply H2. exact Hx.
Qed.

Lemma ObsInv_sub s k : ObsInv s -> cell_known s k = false -> ObsInv (subscribe_cell s k).
Proof.
  intros [H1 H2] Hk. unfold ObsInv. 
  assert (Hkn : forall x, cell_known s x = true -> cell_known (subscribe_cell s k) x = true).
  { intros x Hx. rewrite known_sub, Hx. reflexivity. }
  unfold subscribe_cell in *. destruct (s_cham s) as [c|] eqn:Ec; cbn [s_obs s_cham set_cells set_cham olist] in *;
    rewrite ?Ec; cbn [olist].
  - rewrite app_assoc. split.
    + apply NoDup_app_iff. split; [exact H1|]. split; [constructor; [intros []|constructor]|].
      intros x Hx [<-|[]]. rewrite (H2 _ Hx) in Hk. discriminate.
    + intros x Hx. apply in_app_or in Hx. destruct Hx as [Hx|[<-|[]]].
      * apply Hkn. apply H2. exact Hx.
      * specialize (known_sub s k k). unfold subscribe_cell. rewrite Ec. intros ->.
        rewrite Nat.eqb_refl. apply orb_true_r.
  - split; [exact H1|]. intros x Hx. apply Hkn. apply H2. exact Hx.
Qed.

Lemma ObsInv_obs_none s : ObsInv s -> ObsInv (set_obs s None).
Proof.
  intros [H1 H2]. unfold ObsInv. cbn. apply NoDup_app_iff in H1. destruct H1 as (_ & H1 & _).
  split; [exact H1|]. intros x Hx. apply H2. apply in_or_app. auto.
Qed.

Lemma ObsInv_cham_none s : ObsInv s -> ObsInv (set_cham s None).
Proof.
  intros [H1 H2]. unfold ObsInv. cbn. apply NoDup_app_iff in H1. destruct H1 as (H1 & _ & _).
  rewrite app_nil_r. split; [exact H1|]. intros x Hx. apply H2. apply in_or_app. auto.
Qed.

Lemma ObsInv_load s o c :
  s_obs s = Some o -> s_cham s = Some c -> ObsInv s ->
  ObsInv (set_cham (set_obs s (Some (o ++ c))) (Some [])).
Proof.
  intros Eo Ec [H1 H2]. unfold ObsInv in *. rewrite Eo, Ec in *. cbn in *. rewrite app_nil_r.
  split; auto.
Qed.

Lemma F_obsinv s t th s1 th1 o :
  imove s t th = (s1, th1, o) -> ObsInv s ->
  (forall k, sub_now th = Some k -> cell_known s k = false) -> ObsInv s1.
Proof.
  destruct th as [pc ops idx]. intros H HO Hs. imove_cases H.
  all: unfold sub_now in Hs; cbn [t_pc t_ops] in Hs.
  all: first [ exact HO
             | exact (ObsInv_kill _ _ HO)
             | exact (ObsInv_sub _ _ HO (Hs _ eq_refl))
             | exact (ObsInv_obs_none _ HO)
             | exact (ObsInv_cham_none _ HO)
             | eapply ObsInv_load; eassumption
             | idtac ].
Qed.

Lemma F_pend s t th s1 th1 o :
  imove s t th = (s1, th1, o) -> ObsInv s -> NoDup (pending (t_pc th)) -> NoDup (pending (t_pc th1)).
Proof.
  destruct th as [pc ops idx]. intros H [HO _] Hp. imove_cases H.
  all: cbn [pending] in *; try apply NoDup_nil; try exact Hp.
  all: try (inversion Hp; subst; assumption).
  all: cbn [olist] in HO; apply NoDup_app_iff in HO; destruct HO as (HO & _ & _); exact HO.
Qed.

Lemma F_deliv s t th s1 th1 o :
  imove s t th = (s1, th1, o) ->
  (t_idx th1 = S (t_idx th) /\ t_pc th1 = PIdle) \/
  (t_idx th1 = t_idx th /\
   (deliv (t_pc th) = true ->
    deliv (t_pc th1) = true /\ incl (pending (t_pc th1)) (pending (t_pc th)))).
Proof.
  destruct th as [pc ops idx]. intros H. imove_cases H.
  all: try (left; split; reflexivity).
  all: right; split; [reflexivity|]; cbn [deliv pending]; intros Hd; try discriminate.
  all: split; [reflexivity|]; intros x Hx; try exact Hx; try (right; exact Hx); try (destruct Hx; fail).
Qed.

Lemma F_deliv_k s t th s1 th1 o k :
  imove s t th = (s1, th1, o) -> in_cb (t_pc th) = Some k -> deliv (t_pc th) = true ->
  NoDup (pending (t_pc th)) -> ~ In k (pending (t_pc th1)).
Proof.
  destruct th as [pc ops idx]. intros H Hc Hd Hn. imove_cases H.
  all: cbn in Hc, Hd; try discriminate; inversion Hc; subst.
  all: cbn [pending] in *; inversion Hn; subst; auto.
Qed.

Lemma deliv_holds pc : deliv pc = true -> iholds pc LObs = true.
Proof. destruct pc; cbn; auto; discriminate. Qed.

Definition PendInv (ths : list ithread) : Prop :=
  forall t th, nth_error ths t = Some th -> NoDup (pending (t_pc th)).

Lemma PendInv_step s ths t t' th s1 th1 o :
  ObsInv s -> PendInv ths -> nth_error ths t = Some th -> imove s t' th = (s1, th1, o) ->
  PendInv (set_th ths t th1).
Proof.
  intros HO HP Ht Hm i x Hi. destruct (nth_set_th_inv _ _ _ _ _ _ Ht Hi) as [[-> ->]|[Hni Hi']].
  - eapply F_pend; eauto.
  - eauto.
Qed.

Lemma ObsInv_step s ths t t' th s1 th1 o :
  Core s ths -> ObsInv s -> nth_error ths t = Some th -> imove s t' th = (s1, th1, o) -> ObsInv s1.
Proof.
  intros HC HO Ht Hm. eapply F_obsinv; eauto. intros k Hk.
  apply sub_now_in in Hk; [|eapply c_pcok; eauto]. eapply c_fresh; eauto.
Qed.

(* ------------------------------------------------------------------ *)
(* the common order                                                    *)
(* ------------------------------------------------------------------ *)

Section Order.
Variable scripts : list (list iop).

Lemma bcasts_silent o : forallb (fun x => negb (is_ev x)) o = true -> bcasts scripts o = [].
Proof.
  induction o as [|x o IH]; cbn; [reflexivity|]. intros H. apply andb_true_iff in H. destruct H as [Hx Ho].
  destruct x; try discriminate; cbn; auto.
Qed.

Lemma move_bcasts s ths t th s1 th1 o :
  Static scripts ths -> nth_error ths t = Some th -> imove s t th = (s1, th1, o) ->
  bcasts scripts o = match t_pc th with PInCb v k _ => [(k, v, (t, t_idx th))] | _ => [] end.
Proof.
  intros HS Ht Hm. destruct (in_cb (t_pc th)) as [k|] eqn:Ec.
  - destruct (F_out _ _ _ _ _ _ _ Hm Ec) as (p & Ho).
    assert (In (TEv k p t (t_idx th)) o) as Hin by (rewrite Ho; cbn; auto).
    destruct (static_ev _ _ _ _ _ _ _ _ _ _ _ _ HS Ht Hm Hin) as (_ & _ & Hc). rewrite Ho.
    destruct Hc as [(rest & v & Hpc & -> & Hi & _)|[(rest & e & Hpc & ->)|(x & Hpc & -> & Hi)]];
      rewrite Hpc; cbn; rewrite ?Hi; reflexivity.
  - rewrite bcasts_silent; [|eapply F_noev; eauto].
    destruct (t_pc th); cbn in Ec; try discriminate; reflexivity.
Qed.

Definition COth (L : list bent) (t : nat) (th : ithread) : Prop :=
  (forall j', In (t, j') (ordL L) -> j' <= t_idx th) /\ (In (t, t_idx th) (ordL L) ->
   deliv (t_pc th) = true /\ exists o', ordL L = o' ++ [(t, t_idx th)]) /\ (forall k', In k' (pending (t_pc th)) -> ~ In (t, t_idx th) (bidsL L k')).

Definition CO (L : list bent) (ths : list ithread) : Prop :=
  (forall k, subseq_bids (bidsL L k) (ordL L) = true) /\ forall t th, nth_error ths t = Some th -> COth L t th.

Lemma COth_silent L t th th1 :
  COth L t th ->
  ((t_idx th1 = S (t_idx th) /\ t_pc th1 = PIdle) \/
   (t_idx th1 = t_idx th /\   (deliv (t_pc th) = true ->
     deliv (t_pc th1) = true /\ incl (pending (t_pc th1)) (pending (t_pc th))))) ->
  COth L t th1.
Proof.
  intros (C1 & C2 & C3) [[Hi Hp]|[Hi Hd]]; unfold COth; rewrite Hi.
  - rewrite Hp. cbn [pending deliv]. split; [intros j' Hj; apply C1 in Hj; lia|].
    split; [intros Hj; apply C1 in Hj; lia|intros k' []].
  - split; [exact C1|]. split.
    + intros Hin. destruct (C2 Hin) as [Hdv Hl]. split; [apply Hd; auto|exact Hl].
    + intros k' Hk' Hin. destruct (deliv (t_pc th)) eqn:Ed.
      * destruct (Hd eq_refl) as [_ Hincl]. eapply C3; eauto.
      * apply bidsL_in in Hin. destruct (C2 Hin) as [Hdv _]. discriminate.
Qed.

Lemma CO_step_silent L s ths t t' th s1 th1 o :
  CO L ths -> nth_error ths t = Some th -> imove s t' th = (s1, th1, o) ->
  CO L (set_th ths t th1).
Proof.
  intros [Ha Hth] Ht Hm. split; [exact Ha|]. intros i x Hi.
  destruct (nth_set_th_inv _ _ _ _ _ _ Ht Hi) as [[-> ->]|[Hni Hi']].
  - eapply COth_silent; [eauto|]. eapply F_deliv; eauto.
  - eauto.
Qed.

Lemma CO_step_bcast L s ths t t' th s1 th1 o v k rest :
  Core s ths -> PendInv ths -> CO L ths -> nth_error ths t = Some th ->
  t_pc th = PInCb v k rest -> imove s t' th = (s1, th1, o) ->
  CO (L ++ [(k, v, (t, t_idx th))]) (set_th ths t th1).
Proof.
  intros HC HP [Ha Hth] Ht Hpc Hm.
  destruct (Hth t th Ht) as (C1 & C2 & C3). remember (t, t_idx th) as b eqn:Eb.
  assert (Hkp : In k (pending (t_pc th))) by (rewrite Hpc; cbn; auto).
  assert (Hdl : deliv (t_pc th) = true) by (rewrite Hpc; reflexivity).
  split.
  - intros k'. rewrite bidsL_snoc, ordL_snoc. destruct (Nat.eqb k k') eqn:Ek.
    + apply Nat.eqb_eq in Ek. subst k'. destruct (memb b (map snd L)) eqn:Em.
      * rewrite app_nil_r. apply memb_In in Em. apply ordL_in in Em.
        destruct (C2 Em) as [_ (o' & Ho')]. rewrite Ho'. apply subseq_snoc_both.
        apply subseq_drop_last with (x := b);
          [pose proof (Ha k) as Hk; rewrite Ho' in Hk; exact Hk|]. apply C3. exact Hkp.
      * apply subseq_snoc_both. apply Ha.
    + rewrite app_nil_r. apply subseq_app_r. apply Ha.
  - intros i x Hi. destruct (nth_set_th_inv _ _ _ _ _ _ Ht Hi) as [[-> ->]|[Hni Hi']].
    + assert (HC1 : forall j', In (t, j') (ordL (L ++ [(k, v, b)])) -> j' <= t_idx th).
      { intros j' Hj. apply ordL_snoc_in in Hj. destruct Hj as [Hj|Hj]; [apply C1; auto|].
        rewrite Eb in Hj. inversion Hj. lia. }
      destruct (F_deliv _ _ _ _ _ _ Hm) as [[Hidx Hp1]|[Hidx Hd]]; unfold COth; rewrite Hidx; rewrite <- ?Eb.
      * rewrite Hp1. cbn [pending deliv]. split; [intros j' Hj; apply HC1 in Hj; lia|].
        split; [intros Hj; apply HC1 in Hj; lia|intros k' []].
      * destruct (Hd Hdl) as [Hd1 Hincl]. split; [exact HC1|]. split.
        -- intros _. split; [exact Hd1|]. rewrite ordL_snoc.
           destruct (memb b (map snd L)) eqn:Em.
           ++ rewrite app_nil_r. apply memb_In in Em. apply ordL_in in Em. apply C2 in Em. apply (proj2 Em).
           ++ exists (ordL L). reflexivity.
        -- intros k' Hk' Hin. rewrite bidsL_snoc in Hin.
           assert (~ In k (pending (t_pc th1))) as Hnk.
           { eapply F_deliv_k; eauto. rewrite Hpc. reflexivity. }
           destruct (Nat.eqb k k') eqn:Ek.
           ++ apply Nat.eqb_eq in Ek. subst k'. contradiction.
           ++ rewrite app_nil_r in Hin. eapply C3; [apply Hincl; exact Hk'|exact Hin].
    + destruct (Hth i x Hi') as (D1 & D2 & D3). unfold COth. split; [|split].
      * intros j' Hj. apply ordL_snoc_in in Hj. destruct Hj as [Hj|Hj]; [auto|].
        rewrite Eb in Hj. inversion Hj. congruence.
      * intros Hj. apply ordL_snoc_in in Hj. destruct Hj as [Hj|Hj]; [|rewrite Eb in Hj; inversion Hj; congruence].
        destruct (D2 Hj) as [Hdx _]. exfalso. apply Hni.
        eapply (c_mutex _ _ HC i t x th LObs); eauto using deliv_holds.
      * intros k' Hk' Hin. rewrite bidsL_snoc in Hin. apply in_app_or in Hin.
        destruct Hin as [Hin|Hin]; [eapply D3; eauto|].
        destruct (Nat.eqb k k'); [|destruct Hin]. destruct Hin as [Hin|[]]. rewrite Eb in Hin.
        inversion Hin. congruence.
Qed.

Definition bstep (L : list bent) (x : itr) : option (list bent) := Some (L ++ bcasts scripts [x]).

Lemma walks_bstep L o : walks bstep L o = Some (L ++ bcasts scripts o).
Proof.
  revert L. induction o as [|x o IH]; intros L; cbn [walks]; [cbn; rewrite app_nil_r; reflexivity|].
  unfold bstep at 1. rewrite IH. rewrite <- app_assoc. f_equal. f_equal.
  unfold bcasts. cbn [flat_map]. rewrite app_nil_r. reflexivity.
Qed.

Definition Inv7 (L : list bent) (s : ish) (ths : list ithread) : Prop :=
  Core s ths /\ Static scripts ths /\ ObsInv s /\ PendInv ths /\ CO L ths.

Lemma Inv7_step L s ths t th s1 th1 o :
  Inv7 L s ths -> ienabled s ths t = true -> nth_error ths t = Some th -> imove s t th = (s1, th1, o) ->
  exists L', walks bstep L o = Some L' /\ Inv7 L' s1 (set_th ths t th1).
Proof.
  intros (HC & HS & HO & HP & HCO) He Ht Hm. rewrite walks_bstep. eexists. split; [reflexivity|].
  split; [eapply Core_step; eauto|]. split; [eapply Static_step; eauto|].
  split; [eapply ObsInv_step; eauto|]. split; [eapply PendInv_step; eauto|].
  rewrite (move_bcasts _ _ _ _ _ _ _ HS Ht Hm).
  destruct (t_pc th) eqn:Epc; rewrite ?app_nil_r; try (eapply CO_step_silent; eauto; fail).
  eapply CO_step_bcast; eauto.
Qed.

Lemma common_order_irun sched s ths s' ths' tr :
  Inv7 [] s ths -> irun s ths sched = (s', ths', tr) -> common_order_ok scripts tr = true.
Proof.
  intros HI Hr.
  destruct (irun_walks bstep Inv7 Inv7_step sched [] s ths s' ths' tr HI Hr) as (L' & Hw & HI').
  rewrite walks_bstep in Hw. cbn in Hw. inversion Hw; subst L'.
  destruct HI' as (_ & _ & _ & _ & [Ha _]).
  unfold common_order_ok. apply forallb_forall. intros k _.
  rewrite bids_of_L, order_L. apply Ha.
Qed.

End Order.

Lemma CO_init ths : (forall x, In x ths -> t_pc x = PIdle) -> CO [] ths.
Proof.
  intros Hidle. split; [intros k; reflexivity|]. intros t th Ht.
  assert (t_pc th = PIdle) as Hpc by (apply Hidle; eapply nth_error_In; eauto).
  unfold COth. rewrite Hpc. cbn. split; [intros j' []|]. split; [intros []|intros k' []].
Qed.

Lemma ObsInv_after_setup v0 setup scripts :
  names_ok setup scripts = true -> ObsInv (run_alone 1000 (ish0 v0) (start_thread setup)).
Proof.
  intros Hn. rewrite run_alone_fst.
  pose proof (setup_cfg (fun s ths => Core s ths /\ ObsInv s) (map start_thread scripts)) as H.
  apply H with (fuel := 1000) (s := ish0 v0) (th := start_thread setup).
  - apply starts_idle.
  - intros s ths t' th s1 th1 o [HC HO] He Ht Hm. split.
    + eapply Core_step; eauto.
    + eapply ObsInv_step; eauto.
  - split.
    + apply (Core_init v0 (setup :: scripts)). apply names_ok_nodup; auto.
    + split; [constructor|intros k []].
Qed.

Theorem il_common_order v0 setup scripts sched :
  names_ok setup scripts = true ->
  let '(tr, e, fin) := run_case v0 setup scripts sched in common_order_ok scripts tr = true.
Proof.
  intros Hn. rewrite run_case_eq. cbv zeta.
  destruct (irun _ _ sched) as [[s ths] tr] eqn:Er.
  eapply common_order_irun; [|exact Er].
  split; [apply Core_after_setup; auto|]. split; [apply Static_init|].
  split; [eapply ObsInv_after_setup; eauto|]. split.
  - intros t th Ht. apply nth_map_start in Ht. destruct Ht as (sc & _ & ->). constructor.
  - apply CO_init. apply starts_idle.
Qed.
