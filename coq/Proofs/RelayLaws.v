(* C07: the scheduler-moving operators (delay, observe_on, delay_subscription, subscribe_on)
   satisfy their trace predicates for every label sequence; FIFO completeness; order. *)
From RxModel Require Import Timed.
From RxSpec Require Import TimedSpec.
From RxProofs Require Import ValEq TimedLaws.
From RxProofs Require SchedLaws.
Open Scope N_scope.

(* ---------- generalities ---------- *)

Lemma ev_eqb_refl e : ev_eqb e e = true.
Proof. destruct e as [v|x|]; cbn [ev_eqb]; [apply val_eqb_refl|apply Z.eqb_refl|reflexivity]. Qed.

Lemma ev_eqb_eq a b : ev_eqb a b = true -> a = b.
Proof.
  destruct a as [v|x|], b as [v'|x'|]; cbn [ev_eqb]; intros H; try discriminate.
  - apply val_eqb_eq in H. congruence.
  - apply Z.eqb_eq in H. congruence.
  - reflexivity.
Qed.

(* outputs that the operator predicates skip *)
Definition inert (out : list tout) : Prop :=
  forall x, In x out -> match x with TOut _ _ | TMark _ => False | _ => True end.

Lemma inert_nil : inert [].
Proof. intros x []. Qed.

Lemma inert_app a b : inert a -> inert b -> inert (a ++ b).
Proof. intros Ha Hb x Hx. apply in_app_or in Hx. destruct Hx as [Hx|Hx]; [apply Ha, Hx|apply Hb, Hx]. Qed.

Lemma unsub_handle_inert o s t : inert (snd (unsub_handle o s t)).
Proof.
  unfold unsub_handle. destruct (nth_error (tasks s) t) as [tk|]; [|apply inert_nil].
  destruct (nth_error (jobs s) t) as [j|]; [|apply inert_nil].
  destruct j; cbn [subscribing andb snd]; try apply inert_nil;
    destruct (handle_closed tk); cbn [snd]; try apply inert_nil.
  destruct (existsb _ _); cbn [snd]; [|apply inert_nil]. intros x [<-|[]]. exact I.
Qed.

Lemma unsub_handles_inert o : forall ts s, inert (snd (unsub_handles o s ts)).
Proof.
  induction ts as [|t r IH]; intros s; [apply inert_nil|]. cbn [unsub_handles].
  pose proof (unsub_handle_inert o s t) as N1. destruct (unsub_handle o s t) as [s1 o1].
  pose proof (IH s1) as N2. destruct (unsub_handles o s1 r) as [s2 o2]. cbn [snd] in *. apply inert_app; assumption.
Qed.

(* fields that unsubscribing task handles never touches *)
Lemma cancel_task_frame s t :
  now (cancel_task s t) = now s /\ src_done (cancel_task s t) = src_done s /\ multi (cancel_task s t) = multi s /\
  main_task (cancel_task s t) = main_task s.
Proof. unfold cancel_task. destruct (nth_error (tasks s) t); cbn; auto. Qed.

Lemma unsub_handle_frame o s t :
  now (fst (unsub_handle o s t)) = now s /\ src_done (fst (unsub_handle o s t)) = src_done s /\
  multi (fst (unsub_handle o s t)) = multi s /\ main_task (fst (unsub_handle o s t)) = main_task s.
Proof.
  pose proof (cancel_task_frame s t) as C.
  unfold unsub_handle. destruct (nth_error (tasks s) t) as [tk|]; [|cbn; auto].
  destruct (nth_error (jobs s) t) as [j|]; [|cbn; auto].
  destruct (subscribing j && handle_closed tk); [|exact C].
  destruct j; try (cbn [fst upd_src now src_done multi main_task]; exact C);
    destruct (existsb _ _); cbn [fst upd_inner now src_done multi main_task]; exact C.
Qed.

Lemma unsub_handles_frame o : forall ts s,
  now (fst (unsub_handles o s ts)) = now s /\ src_done (fst (unsub_handles o s ts)) = src_done s /\
  multi (fst (unsub_handles o s ts)) = multi s.
Proof.
  induction ts as [|t r IH]; intros s; [cbn; auto|]. cbn [unsub_handles].
  pose proof (unsub_handle_frame o s t) as (A1 & A2 & A3 & _). destruct (unsub_handle o s t) as [s1 o1]. cbn [fst] in *.
  pose proof (IH s1) as (B1 & B2 & B3). destruct (unsub_handles o s1 r) as [s2 o2]. cbn [fst] in *.
  repeat split; congruence.
Qed.

(* ---------- the walking state under a new label ---------- *)

Lemma w_label_src_fields w e :
  w_now (w_label w (Some (LSrc e))) = w_now w /\
  w_unsub (w_label w (Some (LSrc e))) = w_unsub w /\
  w_finished (w_label w (Some (LSrc e))) = w_finished w /\
  w_delivered (w_label w (Some (LSrc e))) = w_delivered w /\
  w_subscribed (w_label w (Some (LSrc e))) = w_subscribed w /\
  w_cur (w_label w (Some (LSrc e))) = Some (LSrc e) /\
  (w_src_done w = true -> w_src (w_label w (Some (LSrc e))) = w_src w /\ w_src_done (w_label w (Some (LSrc e))) = true) /\
  (w_src_done w = false ->
     w_src_done (w_label w (Some (LSrc e))) = is_term e /\
     w_src (w_label w (Some (LSrc e))) =
       if w_subscribed w && negb (w_unsub w) then w_src w ++ [(e, w_now w)] else w_src w).
Proof. cbn [w_label]. destruct (w_src_done w); cbn; repeat split; auto; discriminate. Qed.

(* ---------- C07, relays: delay d / observe_on ---------- *)

Definition job_of (e : ev) : job :=
  match e with Next v => JEmit v | Err x => JEmitErr x | Done => JComplete end.

(* does the notification get a task of its own? *)
Definition keepb (de : bool) (e : ev) : bool :=
  negb (de && match e with Err _ => true | _ => false end).

Definition dead (tk : task) : Prop := t_stage tk = StFinished \/ t_keep tk = false.

Definition live_task (d : N) (de : bool) (s : tsys) (w : wstate) (i : nat) (tk : task) (j : job) : Prop :=
  w_unsub w = false /\ (exists k, t_body tk = BOnce k) /\
  (alive s = true -> memn' i (w_delivered w) = false) /\
  exists e arrived, nth_error (task_events de w) i = Some (e, arrived) /\ j = job_of e /\ arrived + d <= lb (now s) tk.

Record RR (d : N) (de : bool) (s : tsys) (w : wstate) : Prop := {
  rr_now : w_now w = now s;
  rr_len : length (jobs s) = length (tasks s);
  rr_evlen : length (task_events de w) = length (tasks s);
  rr_done : w_src_done w = src_done s;
  rr_sub : w_subscribed w = true;
  rr_on : src_on s = negb (src_done s) && negb (w_unsub w);
  rr_alive : alive s = true -> w_finished w = false;
  rr_deliv : alive s = true -> forall i, memn' i (w_delivered w) = true -> (i < length (tasks s))%nat;
  rr_multi : w_unsub w = false -> exists l, multi s = Some l /\ forall i, (i < length (tasks s))%nat -> In i l;
  rr_tasks : forall i tk j, nth_error (tasks s) i = Some tk -> nth_error (jobs s) i = Some j ->
             dead tk \/ live_task d de s w i tk j
}.

(* walking states that the invariant cannot tell apart (the input-terminated flag aside) *)
Definition w_same (de : bool) (w w' : wstate) : Prop :=
  w_now w' = w_now w /\ task_events de w' = task_events de w /\ w_unsub w' = w_unsub w /\
  w_finished w' = w_finished w /\ w_delivered w' = w_delivered w /\ w_subscribed w' = w_subscribed w.

Lemma rr_frame d de s w s' w' :
  RR d de s w -> w_same de w w' ->
  now s' = now s -> tasks s' = tasks s -> jobs s' = jobs s -> alive s' = alive s -> multi s' = multi s ->
  w_src_done w' = src_done s' -> src_on s' = negb (src_done s') && negb (w_unsub w') ->
  RR d de s' w'.
Proof.
  intros [R1 R2 R3 R4 R5 R6 R7 R8 R9 R10] (W1 & W2 & W3 & W4 & W5 & W6) S1 S2 S3 S4 S5 S6 S7.
  constructor.
  - congruence.
  - congruence.
  - rewrite W2, S2. exact R3.
  - exact S6.
  - congruence.
  - exact S7.
  - rewrite S4, W4. exact R7.
  - rewrite S4, W5, S2. exact R8.
  - rewrite W3, S5, S2. exact R9.
  - intros i tk j Hi Hj. rewrite S2 in Hi. rewrite S3 in Hj.
    destruct (R10 i tk j Hi Hj) as [D|L]; [left; exact D|right].
    unfold live_task in *. rewrite W3, S4, W5, W2, S1. exact L.
Qed.

Lemma w_same_refl de w : w_same de w w.
Proof. repeat split. Qed.

Lemma w_same_other de w l :
  match l with LSrc _ | LAdv _ | LUnsub => False | _ => True end -> w_same de w (w_label w (Some l)).
Proof. destruct l; intros H; try contradiction; repeat split. Qed.

Lemma w_done_other w l :
  match l with LSrc _ => False | _ => True end -> w_src_done (w_label w (Some l)) = w_src_done w.
Proof. destruct l; intros H; try contradiction; reflexivity. Qed.

(* the state of one task changes *)
Lemma rr_set_task d de s w t tk tk1 :
  RR d de s w -> nth_error (tasks s) t = Some tk ->
  (dead tk -> dead tk1) ->
  (dead tk1 \/ (((exists k, t_body tk = BOnce k) -> (exists k, t_body tk1 = BOnce k)) /\ lb (now s) tk <= lb (now s) tk1)) ->
  RR d de (upd_tasks s (set_nth (tasks s) t tk1)) w.
Proof.
  intros [R1 R2 R3 R4 R5 R6 R7 R8 R9 R10] Ht Hd Hl.
  constructor; cbn [upd_tasks now tasks jobs src_done src_on alive multi]; rewrite ?set_nth_length; auto.
  intros i tk2 j Hi Hj. destruct (Nat.eq_dec t i) as [<-|Hne].
  - rewrite (nth_error_set_nth_eq _ _ _ _ Ht) in Hi. inversion Hi; subst tk2.
    destruct (R10 t tk j Ht Hj) as [D|(L1 & L2 & L3 & e & arr & L4 & L5 & L6)]; [left; apply Hd, D|].
    destruct Hl as [D1|[Hb Hlb]]; [left; exact D1|right].
    split; [exact L1|]. split; [apply Hb, L2|]. split; [exact L3|].
    exists e, arr. split; [exact L4|]. split; [exact L5|]. cbn [upd_tasks now]. lia.
  - rewrite nth_error_set_nth_neq in Hi by exact Hne.
    destruct (R10 i tk2 j Hi Hj) as [D|L]; [left; exact D|right; exact L].
Qed.

Lemma memn'_cons i t l : memn' i (t :: l) = Nat.eqb i t || memn' i l.
Proof. reflexivity. Qed.

(* the item of a (now finished) task was delivered *)
Lemma rr_deliver_next d de s w t tk v :
  RR d de s w -> nth_error (tasks s) t = Some tk -> dead tk -> RR d de s (w_deliver w t (Next v)).
Proof.
  intros [R1 R2 R3 R4 R5 R6 R7 R8 R9 R10] Ht Hd.
  assert (Hlt : (t < length (tasks s))%nat) by (apply nth_error_Some; congruence).
  constructor; cbn [w_deliver w_now w_src_done w_subscribed w_unsub w_finished w_delivered is_term]; auto.
  - intros Ha. rewrite (R7 Ha). reflexivity.
  - intros Ha i. rewrite memn'_cons. intros Hm. apply Bool.orb_true_iff in Hm. destruct Hm as [Hm|Hm].
    + apply Nat.eqb_eq in Hm. subst i. exact Hlt.
    + apply (R8 Ha i Hm).
  - intros i tk2 j Hi Hj. destruct (R10 i tk2 j Hi Hj) as [D|(L1 & L2 & L3 & L4)]; [left; exact D|].
    destruct (Nat.eq_dec i t) as [->|Hne].
    + left. rewrite Ht in Hi. inversion Hi; subst tk2. exact Hd.
    + right. split; [exact L1|]. split; [exact L2|]. split; [|exact L4].
      cbn [w_deliver w_delivered]. intros Ha. rewrite memn'_cons, (L3 Ha).
      apply Nat.eqb_neq in Hne. rewrite Hne. reflexivity.
Qed.

(* a terminal was delivered: the slot is now empty *)
Lemma rr_deliver_term d de s w idx e :
  RR d de s w -> RR d de (upd_alive s false) (w_deliver w idx e).
Proof.
  intros [R1 R2 R3 R4 R5 R6 R7 R8 R9 R10].
  constructor; cbn [upd_alive now tasks jobs src_done src_on alive multi
                    w_deliver w_now w_src_done w_subscribed w_unsub w_finished w_delivered]; auto; try discriminate.
  intros i tk2 j Hi Hj. destruct (R10 i tk2 j Hi Hj) as [D|(L1 & L2 & L3 & L4)]; [left; exact D|right].
  split; [exact L1|]. split; [exact L2|]. split; [cbn; discriminate|exact L4].
Qed.

Lemma rr_adv d de s w dt : RR d de s w -> RR d de (upd_now s (now s + dt)) (w_label w (Some (LAdv dt))).
Proof.
  intros [R1 R2 R3 R4 R5 R6 R7 R8 R9 R10].
  constructor; cbn [upd_now now tasks jobs src_done src_on alive multi
                    w_label w_now w_src_done w_subscribed w_unsub w_finished w_delivered]; auto.
  - rewrite R1. reflexivity.
  - intros i tk j Hi Hj. destruct (R10 i tk j Hi Hj) as [D|(L1 & L2 & L3 & e & arr & L4 & L5 & L6)]; [left; exact D|right].
    split; [exact L1|]. split; [exact L2|]. split; [exact L3|]. exists e, arr. split; [exact L4|]. split; [exact L5|].
    cbn [upd_now now]. pose proof (lb_mono (now s) dt tk). lia.
Qed.

(* an accepted notification gets a task of its own, appended to the MultiSubscription *)
Definition delay_ok (d : N) (delay : option N) : Prop :=
  match delay with Some d' => d <= d' | None => d = 0 end.

Lemma task_events_app de w w' e :
  w_src w' = w_src w ++ [(e, w_now w)] ->
  task_events de w' = task_events de w ++ (if keepb de e then [(e, w_now w)] else []).
Proof.
  intros H. unfold task_events. rewrite H, filter_app. cbn [filter fst]. unfold keepb. reflexivity.
Qed.

Lemma rr_src_spawn d de s w e delay s1 :
  RR d de s w -> src_on s = true -> src_done s = false -> keepb de e = true -> delay_ok d delay ->
  now s1 = now s -> tasks s1 = tasks s -> jobs s1 = jobs s -> alive s1 = alive s -> multi s1 = multi s ->
  src_done s1 = is_term e -> src_on s1 = negb (is_term e) ->
  RR d de (append_multi (fst (schedule s1 BOnce (job_of e) delay)) (snd (schedule s1 BOnce (job_of e) delay)))
          (w_label w (Some (LSrc e))).
Proof.
  intros [R1 R2 R3 R4 R5 R6 R7 R8 R9 R10] Hon Hdone Hk Hdl S1 S2 S3 S4 S5 S6 S7.
  assert (Hu : w_unsub w = false).
  { rewrite Hon, Hdone in R6. cbn in R6. destruct (w_unsub w); [discriminate|reflexivity]. }
  destruct (R9 Hu) as (l & Hl & Hin).
  pose proof (w_label_src_fields w e) as (W1 & W2 & W3 & W4 & W5 & W6 & _ & W8).
  rewrite R4 in W8. destruct (W8 Hdone) as [W9 W10]. rewrite R5, Hu in W10. cbn [negb andb] in W10.
  pose proof (task_events_app de w _ e W10) as TE. rewrite Hk in TE.
  set (w' := w_label w (Some (LSrc e))) in *. clearbody w'.
  unfold append_multi. cbn [schedule fst snd multi]. rewrite S5, Hl.
  constructor; cbn [upd_multi now tasks jobs src_done src_on alive multi].
  - congruence.
  - rewrite !app_length, S2, S3, R2. reflexivity.
  - rewrite TE, !app_length, S2, R3. reflexivity.
  - congruence.
  - congruence.
  - rewrite S6, S7, W2, Hu. destruct (is_term e); reflexivity.
  - rewrite S4, W3. exact R7.
  - rewrite S4, W4, S2, app_length. intros Ha i Hm. pose proof (R8 Ha i Hm). lia.
  - intros _. eexists. split; [reflexivity|]. intros i Hi. rewrite S2, app_length in Hi. cbn [length] in Hi.
    apply in_or_app. destruct (Nat.eq_dec i (length (tasks s))) as [->|Hne].
    + right. left. rewrite S2. reflexivity.
    + left. apply Hin. lia.
  - intros i tk j Hi Hj. rewrite S2 in Hi. rewrite S3 in Hj. unfold live_task. cbn [upd_multi now alive].
    destruct (Nat.lt_ge_cases i (length (tasks s))) as [Hlt|Hge].
    + apply nth_error_app_old in Hi; [|exact Hlt]. apply nth_error_app_old in Hj; [|rewrite R2; exact Hlt].
      destruct (R10 i tk j Hi Hj) as [D|(L1 & L2 & L3 & e0 & arr & L4 & L5 & L6)]; [left; exact D|right].
      split; [congruence|]. split; [exact L2|]. split; [rewrite S4, W4; exact L3|].
      exists e0, arr. split; [|split; [exact L5|rewrite S1; exact L6]].
      rewrite TE, nth_error_app1; [exact L4|]. rewrite R3. exact Hlt.
    + assert (Hi' : (i < length (tasks s ++ [spawn (BOnce (length (tasks s1))) delay]))%nat) by (apply nth_error_Some; congruence).
      rewrite app_length in Hi'. cbn [length] in Hi'. assert (i = length (tasks s)) by lia. subst i.
      rewrite nth_error_app_last in Hi. inversion Hi; subst tk.
      rewrite <- R2, nth_error_app_last in Hj. inversion Hj; subst j.
      right. split; [congruence|]. split; [cbn; eexists; reflexivity|]. split.
      * rewrite S4, W4. intros Ha. destruct (memn' (length (tasks s)) (w_delivered w)) eqn:Em; [|reflexivity].
        pose proof (R8 Ha _ Em). lia.
      * exists e, (w_now w). split; [|split; [reflexivity|]].
        -- rewrite TE, <- R3. apply nth_error_app_last.
        -- rewrite S1, R1. unfold lb, spawn. cbn [t_stage]. destruct delay as [d'|]; cbn in Hdl; lia.
Qed.

(* what the walk does with an output of the task being polled *)
Lemma relay_out_run d de ls w t e arr at_time :
  w_finished w = false -> w_unsub w = false -> w_now w = at_time -> w_cur w = Some (LRun t) ->
  nth_error (task_events de w) t = Some (e, arr) -> arr + d <= at_time -> memn' t (w_delivered w) = false ->
  relay_step d de ls w (TOut at_time e) = Some (w_deliver w t e).
Proof.
  intros H1 H2 H3 H4 H5 H6 H7. unfold relay_step. rewrite H1, H2, H3, H4, H5, H7, N.eqb_refl, ev_eqb_refl.
  cbn [negb andb]. assert (H : arr + d <=? at_time = true) by (apply N.leb_le; exact H6). rewrite H. reflexivity.
Qed.

Lemma relay_walk_inert d de ls : forall out w, inert out -> walk (relay_step d de ls) w out = Some w.
Proof.
  induction out as [|x r IH]; intros w H; [reflexivity|]. cbn [walk].
  assert (Hx : relay_step d de ls w x = Some w).
  { pose proof (H x (or_introl eq_refl)) as Hx. destruct x; try contradiction; reflexivity. }
  rewrite Hx. apply IH. intros y Hy. apply H. right. exact Hy.
Qed.

Definition relay_op (o : top) (d : N) (de : bool) : Prop :=
  match o with TDelay d' => d' = d /\ de = true | TObserveOn => d = 0 /\ de = false | _ => False end.

Definition sim_goal (o : top) (d : N) (de : bool) (ls : list tlab) (s : tsys) (w : wstate) (l : tlab) : Prop :=
  exists w', walk (relay_step d de ls) (w_label w (Some l)) (snd (tstep o s l)) = Some w' /\ RR d de (fst (tstep o s l)) w'.

Lemma relay_run o d de ls s w t : relay_op o d de -> RR d de s w -> sim_goal o d de ls s w (LRun t).
Proof.
  intros Ho R. unfold sim_goal. set (w1 := w_label w (Some (LRun t))).
  assert (R1 : RR d de s w1).
  { apply (rr_frame d de s w s w1 R); auto; try (apply w_same_other; exact I).
    - unfold w1. rewrite w_done_other by exact I. apply (rr_done _ _ _ _ R).
    - apply (rr_on _ _ _ _ R). }
  assert (Hcur : w_cur w1 = Some (LRun t)) by reflexivity.
  clearbody w1. clear R. cbn [tstep].
  destruct (nth_error (tasks s) t) as [tk|] eqn:Et; [|exists w1; split; [reflexivity|exact R1]].
  destruct (nth_error (jobs s) t) as [j|] eqn:Ej; [|exists w1; split; [reflexivity|exact R1]].
  pose proof (poll_status (now s) tk) as PS.
  destruct (rr_tasks _ _ _ _ R1 t tk j Et Ej) as [D|(Hu & (k & Hb) & Hmem & e & arr & Hev & Hj & Hlb)].
  - destruct (poll_quiet (now s) tk D) as [P1 P2].
    destruct (poll (now s) tk) as [tk1 res]. cbn [fst snd] in *. subst res. cbn [fst snd walk].
    exists w1. split; [reflexivity|]. apply (rr_set_task d de s w1 t tk tk1 R1 Et); [intros _; exact P2|left; exact P2].
  - pose proof (poll_once (now s) tk k Hb) as P.
    destruct (poll (now s) tk) as [tk1 res]. cbn [fst] in PS.
    destruct P as [(-> & Hb1 & Hk1 & Hs1)|(-> & Hk & Hl & Hs1 & Hb1)].
    + cbn [fst snd walk]. exists w1. split; [reflexivity|].
      apply (rr_set_task d de s w1 t tk tk1 R1 Et PS).
      destruct Hs1 as [F|(K & Lb & _)]; [left; left; exact F|right; split; [intros _; exists k; exact Hb1|exact Lb]].
    + assert (D1 : dead tk1) by (left; exact Hs1).
      assert (R2 : RR d de (upd_tasks s (set_nth (tasks s) t tk1)) w1).
      { apply (rr_set_task d de s w1 t tk tk1 R1 Et PS). left. exact D1. }
      assert (Et1 : nth_error (tasks (upd_tasks s (set_nth (tasks s) t tk1))) t = Some tk1).
      { cbn [upd_tasks tasks]. apply (nth_error_set_nth_eq _ _ _ _ Et). }
      set (s1 := upd_tasks s (set_nth (tasks s) t tk1)) in *.
      assert (Ha1 : alive s1 = alive s) by reflexivity.
      assert (Hn1 : now s1 = now s) by reflexivity.
      clearbody s1. subst j.
      assert (Hstep : forall e', e' = e -> alive s = true ->
                relay_step d de ls w1 (TOut (now s1) e') = Some (w_deliver w1 t e')).
      { intros e' -> Ha. apply (relay_out_run d de ls w1 t e arr (now s1)); auto.
        - apply (rr_alive _ _ _ _ R1 Ha).
        - rewrite Hn1. apply (rr_now _ _ _ _ R1).
        - rewrite Hn1. lia. }
      destruct e as [v|x|]; cbn [job_of on_job].
      * unfold slot_next. rewrite Ha1. destruct (alive s) eqn:Ea; cbn [fst snd walk].
        -- rewrite (Hstep (Next v) eq_refl eq_refl). eexists. split; [reflexivity|].
           apply (rr_deliver_next d de s1 w1 t tk1 v R2 Et1 D1).
        -- exists w1. split; [reflexivity|exact R2].
      * unfold slot_term. rewrite Ha1. destruct (alive s) eqn:Ea; cbn [fst snd walk].
        -- rewrite (Hstep (Err x) eq_refl eq_refl). eexists. split; [reflexivity|].
           apply (rr_deliver_term d de s1 w1 t (Err x) R2).
        -- exists w1. split; [reflexivity|exact R2].
      * unfold slot_term. rewrite Ha1. destruct (alive s) eqn:Ea; cbn [fst snd walk].
        -- rewrite (Hstep Done eq_refl eq_refl). eexists. split; [reflexivity|].
           apply (rr_deliver_term d de s1 w1 t Done R2).
        -- exists w1. split; [reflexivity|exact R2].
Qed.

Lemma keepb_false de e : keepb de e = false -> de = true /\ exists x, e = Err x.
Proof.
  unfold keepb. destruct de; cbn; [|discriminate]. destruct e as [v|x|]; cbn; try discriminate. intros _. split; [reflexivity|eauto].
Qed.

Lemma relay_src o d de ls s w e : relay_op o d de -> RR d de s w -> sim_goal o d de ls s w (LSrc e).
Proof.
  intros Ho R. unfold sim_goal.
  pose proof (w_label_src_fields w e) as (W1 & W2 & W3 & W4 & W5 & W6 & W7 & W8).
  rewrite (rr_done _ _ _ _ R) in W7, W8.
  cbn [tstep]. destruct (src_done s) eqn:Ed.
  - (* the input has terminated: nothing is delivered *)
    destruct (W7 eq_refl) as [W9 W10]. cbn [fst snd walk]. eexists. split; [reflexivity|].
    apply (rr_frame d de s w s _ R); auto.
    + repeat split; auto. unfold task_events. rewrite W9. reflexivity.
    + congruence.
    + rewrite W2. apply (rr_on _ _ _ _ R).
  - destruct (W8 eq_refl) as [W9 W10]. rewrite (rr_sub _ _ _ _ R) in W10.
    destruct (src_on s) eqn:Eo.
    + (* accepted *)
      assert (Hu : w_unsub w = false).
      { pose proof (rr_on _ _ _ _ R) as H. rewrite Eo, Ed in H. cbn in H. destruct (w_unsub w); [discriminate|reflexivity]. }
      rewrite Hu in W10. cbn [negb andb] in W10.
      set (s1 := if is_term e then upd_src s false true else s).
      assert (S1 : now s1 = now s) by (unfold s1; destruct (is_term e); reflexivity).
      assert (S2 : tasks s1 = tasks s) by (unfold s1; destruct (is_term e); reflexivity).
      assert (S3 : jobs s1 = jobs s) by (unfold s1; destruct (is_term e); reflexivity).
      assert (S4 : alive s1 = alive s) by (unfold s1; destruct (is_term e); reflexivity).
      assert (S5 : multi s1 = multi s) by (unfold s1; destruct (is_term e); reflexivity).
      assert (S6 : src_done s1 = is_term e) by (unfold s1; destruct (is_term e); [reflexivity|exact Ed]).
      assert (S7 : src_on s1 = negb (is_term e)) by (unfold s1; destruct (is_term e); [reflexivity|exact Eo]).
      clearbody s1.
      destruct (keepb de e) eqn:Ek.
      * (* it gets a task *)
        assert (Sp : forall delay, delay_ok d delay ->
                  RR d de (append_multi (fst (schedule s1 BOnce (job_of e) delay)) (snd (schedule s1 BOnce (job_of e) delay)))
                     (w_label w (Some (LSrc e)))).
        { intros delay Hdl. apply (rr_src_spawn d de s w e delay s1 R Eo Ed Ek Hdl S1 S2 S3 S4 S5 S6 S7). }
        destruct o; cbn [relay_op] in Ho; try contradiction.
        -- destruct Ho as [-> ->]. destruct e as [v|x|]; [| discriminate Ek |]; cbn [on_src].
           ++ pose proof (Sp (Some d) (N.le_refl d)) as P. cbn [job_of] in P.
              destruct (schedule s1 BOnce (JEmit v) (Some d)) as [s2 id]. cbn [fst snd walk] in *.
              eexists. split; [reflexivity|exact P].
           ++ pose proof (Sp (Some d) (N.le_refl d)) as P. cbn [job_of] in P.
              destruct (schedule s1 BOnce JComplete (Some d)) as [s2 id]. cbn [fst snd walk] in *.
              eexists. split; [reflexivity|exact P].
        -- destruct Ho as [-> ->]. cbn [on_src].
           pose proof (Sp None eq_refl) as P. unfold job_of in P.
           destruct (schedule s1 BOnce match e with Next v => JEmit v | Err x => JEmitErr x | Done => JComplete end None) as [s2 id].
           cbn [fst snd walk] in *. eexists. split; [reflexivity|exact P].
      * (* delay forwards an error at once *)
        destruct (keepb_false de e Ek) as [-> [x ->]].
        destruct o; cbn [relay_op] in Ho; try contradiction; [|destruct Ho; discriminate].
        destruct Ho as [-> _]. cbn [on_src].
        set (w1 := w_label w (Some (LSrc (Err x)))) in *.
        assert (R1 : RR d true s1 w1).
        { apply (rr_frame d true s w s1 w1 R); auto.
          - repeat split; auto. rewrite (task_events_app true w w1 (Err x) W10), Ek. apply app_nil_r.
          - rewrite W9, S6. reflexivity.
          - rewrite S7, S6. reflexivity. }
        unfold slot_term. destruct (alive s1) eqn:Ea; cbn [fst snd walk].
        -- assert (Hst : relay_step d true ls w1 (TOut (now s1) (Err x)) = Some (w_deliver w1 0 (Err x))).
           { unfold relay_step. rewrite (rr_alive _ _ _ _ R1 Ea), W2, Hu, W6, (rr_now _ _ _ _ R1), N.eqb_refl.
             cbn [negb andb]. rewrite ev_eqb_refl. reflexivity. }
           rewrite Hst. eexists. split; [reflexivity|]. apply (rr_deliver_term d true s1 w1 0 (Err x) R1).
        -- exists w1. split; [reflexivity|exact R1].
    + (* unsubscribed: dropped *)
      assert (Hu : w_unsub w = true).
      { pose proof (rr_on _ _ _ _ R) as H. rewrite Eo, Ed in H. cbn in H. destruct (w_unsub w); [reflexivity|discriminate]. }
      rewrite Hu in W10. cbn [negb andb] in W10. cbn [fst snd walk]. eexists. split; [reflexivity|].
      apply (rr_frame d de s w _ _ R).
      * repeat split; auto. unfold task_events. rewrite W10. reflexivity.
      * destruct (is_term e); reflexivity.
      * destruct (is_term e); reflexivity.
      * destruct (is_term e); reflexivity.
      * destruct (is_term e); reflexivity.
      * destruct (is_term e); reflexivity.
      * rewrite W9. destruct (is_term e); [reflexivity|cbn; congruence].
      * rewrite W2, Hu, Bool.andb_false_r. destruct (is_term e); [reflexivity|exact Eo].
Qed.

Lemma dead_cancel tk : dead (cancel tk).
Proof. right. reflexivity. Qed.

Lemma relay_unsub o d de ls s w : relay_op o d de -> RR d de s w -> sim_goal o d de ls s w LUnsub.
Proof.
  intros Ho R. unfold sim_goal. set (w1 := w_label w (Some LUnsub)).
  assert (Hon : tstep o s LUnsub =
                let s1 := upd_src s false (src_done s) in
                match multi s1 with Some l => unsub_handles o (upd_multi s1 None) l | None => (s1, []) end).
  { destruct o; cbn [relay_op] in Ho; try contradiction; reflexivity. }
  rewrite Hon. cbn [upd_src multi]. clear Hon.
  destruct R as [R1 R2 R3 R4 R5 R6 R7 R8 R9 R10].
  (* what remains to be shown of the new state *)
  assert (Fin : forall s', now s' = now s -> jobs s' = jobs s -> length (tasks s') = length (tasks s) ->
                 src_done s' = src_done s -> src_on s' = false -> alive s' = alive s ->
                 (forall i tk', nth_error (tasks s') i = Some tk' -> dead tk') -> RR d de s' w1).
  { intros s' F1 F2 F3 F4 F5 F6 F7.
    assert (TE : task_events de w1 = task_events de w) by reflexivity.
    constructor; rewrite ?TE; unfold w1; cbn [w_label w_now w_src_done w_subscribed w_unsub w_finished w_delivered].
    - congruence.
    - congruence.
    - congruence.
    - congruence.
    - exact R5.
    - rewrite F5, Bool.andb_false_r. reflexivity.
    - rewrite F6. exact R7.
    - rewrite F6, F3. exact R8.
    - discriminate.
    - intros i tk' j Hi _. left. apply (F7 i tk' Hi). }
  destruct (multi s) as [l|] eqn:Em.
  - set (s0 := upd_multi (upd_src s false (src_done s)) None).
    pose proof (unsub_handles_eff o l s0) as (E1 & E2 & E3 & E4 & E5).
    pose proof (unsub_handles_frame o l s0) as (G1 & G2 & G3).
    pose proof (unsub_handles_inert o l s0) as In1.
    destruct (unsub_handles o s0 l) as [s' out]. cbn [fst snd] in *.
    rewrite (relay_walk_inert d de ls out w1 In1). exists w1. split; [reflexivity|].
    apply Fin; auto.
    + destruct E4 as [E4|E4]; [rewrite E4; reflexivity|exact E4].
    + intros i tk' Hi. destruct (E5 i tk' Hi) as (tk & Ht & Hs & Hc). cbn [s0 upd_multi upd_src tasks jobs] in Ht, Hc.
      destruct Hs as [->| ->]; [|apply dead_cancel].
      assert (Hlt : (i < length (tasks s))%nat) by (apply nth_error_Some; congruence).
      destruct (nth_error (jobs s) i) as [j|] eqn:Ej; [|apply nth_error_None in Ej; lia].
      destruct (R10 i tk j Ht Ej) as [D|(L1 & _)]; [exact D|].
      destruct (R9 L1) as (l' & Hl' & Hin). inversion Hl'; subst l'.
      rewrite Hc; [apply dead_cancel|apply Hin, Hlt|discriminate].
  - cbn [walk fst snd]. exists w1. split; [reflexivity|]. apply Fin; auto.
    cbn [upd_src tasks]. intros i tk Hi.
    assert (Hlt : (i < length (tasks s))%nat) by (apply nth_error_Some; congruence).
    destruct (nth_error (jobs s) i) as [j|] eqn:Ej; [|apply nth_error_None in Ej; lia].
    destruct (R10 i tk j Hi Ej) as [D|(L1 & _)]; [exact D|].
    destruct (R9 L1) as (l' & Hl' & _). discriminate.
Qed.

Lemma relay_other o d de ls s w l : relay_op o d de -> RR d de s w ->
  match l with LSrc _ | LRun _ | LAdv _ | LUnsub => False | _ => True end -> sim_goal o d de ls s w l.
Proof.
  intros Ho R Hl. unfold sim_goal.
  assert (R1 : RR d de s (w_label w (Some l))).
  { apply (rr_frame d de s w s _ R); auto.
    - apply w_same_other. destruct l; auto.
    - rewrite w_done_other by (destruct l; auto). apply (rr_done _ _ _ _ R).
    - replace (w_unsub (w_label w (Some l))) with (w_unsub w) by (destruct l; try contradiction; reflexivity).
      apply (rr_on _ _ _ _ R). }
  destruct l; try contradiction; cbn [tstep].
  - (* LClosed *) cbn [fst snd walk relay_step]. eexists. split; [reflexivity|exact R1].
  - (* LFinish *) cbn [fst snd walk]. eexists. split; [reflexivity|].
    apply (rr_frame d de s _ _ _ R1 (w_same_refl de _)); auto.
    + apply (rr_done _ _ _ _ R1).
    + apply (rr_on _ _ _ _ R1).
  - destruct o; cbn [relay_op] in Ho; try contradiction; cbn [fst snd walk]; eexists; (split; [reflexivity|exact R1]).
  - destruct o; cbn [relay_op] in Ho; try contradiction; cbn [fst snd walk]; eexists; (split; [reflexivity|exact R1]).
  - destruct o; cbn [relay_op] in Ho; try contradiction; cbn [fst snd walk]; eexists; (split; [reflexivity|exact R1]).
  - destruct o; cbn [relay_op] in Ho; try contradiction; cbn [fst snd walk]; eexists; (split; [reflexivity|exact R1]).
  - destruct o; cbn [relay_op] in Ho; try contradiction; cbn [fst snd walk]; eexists; (split; [reflexivity|exact R1]).
Qed.

Lemma relay_step_sim o d de : relay_op o d de ->
  forall ls_full done l r s w, ls_full = done ++ l :: r -> RR d de s w ->
    exists w', walk (relay_step d de ls_full) w (TMark (length done) :: snd (tstep o s l)) = Some w' /\
               RR d de (fst (tstep o s l)) w'.
Proof.
  intros Ho ls_full done l r s w E R.
  cbn [walk relay_step]. rewrite E, nth_error_mid. rewrite <- E.
  change (sim_goal o d de ls_full s w l).
  destruct l.
  - apply relay_src; assumption.
  - apply relay_run; assumption.
  - unfold sim_goal. cbn [tstep fst snd walk]. eexists. split; [reflexivity|]. apply rr_adv, R.
  - apply relay_unsub; assumption.
  - apply relay_other; auto.
  - apply relay_other; auto.
  - apply relay_other; auto.
  - apply relay_other; auto.
  - apply relay_other; auto.
  - apply relay_other; auto.
  - apply relay_other; auto.
Qed.

Lemma rr_init o d de : relay_op o d de -> RR d de (tinit o) (w0 true).
Proof.
  intros Ho. destruct o; cbn [relay_op] in Ho; try contradiction; cbn [tinit];
    (constructor; cbn; auto; try discriminate;
     [intros _; eexists; split; [reflexivity|]; intros i Hi; lia
     |intros i tk j Hi; destruct i; discriminate]).
Qed.

Theorem delay_meets_spec : forall d ls, relay_ok d true ls (run_timed (TDelay d) ls) = true.
Proof.
  intros d ls. unfold relay_ok, run_timed.
  assert (Ho : relay_op (TDelay d) d true) by (split; reflexivity).
  apply (run_sim (relay_step d true) (TDelay d) (RR d true) (relay_step_sim (TDelay d) d true Ho) ls [] _ _ ls eq_refl).
  apply rr_init, Ho.
Qed.

Theorem observe_on_meets_spec : forall ls, relay_ok 0 false ls (run_timed TObserveOn ls) = true.
Proof.
  intros ls. unfold relay_ok, run_timed.
  assert (Ho : relay_op TObserveOn 0 false) by (split; reflexivity).
  apply (run_sim (relay_step 0 false) TObserveOn (RR 0 false) (relay_step_sim TObserveOn 0 false Ho) ls [] _ _ ls eq_refl).
  apply rr_init, Ho.
Qed.

(* ---------- C07, delayed subscription: delay_subscription d / subscribe_on ---------- *)

Definition pass_op (o : top) (d : N) : Prop :=
  match o with TDelaySubscription d' => d' = d | TSubscribeOn => d = 0 | _ => False end.

Record RP (d : N) (s : tsys) (w : wstate) : Prop := {
  rp_now : w_now w = now s;
  rp_jobs : jobs s = [JSubscribe];
  rp_main : main_task s = Some 0%nat;
  rp_fin : src_done s = false -> w_finished w = false;
  rp_task : exists tk, tasks s = [tk] /\ (exists k, t_body tk = BOnce k) /\
      ((src_on s = false /\ (dead tk \/ (w_unsub w = false /\ d <= lb (now s) tk)))
       \/ (src_on s = true /\ w_unsub w = false /\ d <= now s /\ t_stage tk = StFinished /\ t_value tk = true))
}.

Definition p_same (w w' : wstate) : Prop :=
  w_now w' = w_now w /\ w_unsub w' = w_unsub w /\ w_finished w' = w_finished w.

Lemma rp_frame d s w s' w' :
  RP d s w -> p_same w w' ->
  now s' = now s -> tasks s' = tasks s -> jobs s' = jobs s -> main_task s' = main_task s -> src_on s' = src_on s ->
  (src_done s' = false -> src_done s = false) -> RP d s' w'.
Proof.
  intros [R1 R2 R3 R4 (tk & T1 & T2 & T3)] (W1 & W2 & W3) S1 S2 S3 S4 S5 S6.
  constructor; try congruence.
  - intros H. rewrite W3. apply R4, S6, H.
  - exists tk. split; [congruence|]. split; [exact T2|]. rewrite S5, W2, S1. exact T3.
Qed.

Lemma p_same_label w l : match l with LAdv _ | LUnsub => False | _ => True end -> p_same w (w_label w (Some l)).
Proof.
  destruct l; intros H; try contradiction; try (repeat split; fail).
  cbn [w_label]. destruct (w_src_done w); repeat split.
Qed.

Lemma pass_walk_inert d ls : forall out w, inert out -> walk (passthru_step d ls) w out = Some w.
Proof.
  induction out as [|x r IH]; intros w H; [reflexivity|]. cbn [walk].
  assert (Hx : passthru_step d ls w x = Some w).
  { pose proof (H x (or_introl eq_refl)) as Hx. destruct x; try contradiction; reflexivity. }
  rewrite Hx. apply IH. intros y Hy. apply H. right. exact Hy.
Qed.

Definition pass_goal (o : top) (d : N) (ls : list tlab) (s : tsys) (w : wstate) (l : tlab) : Prop :=
  exists w', walk (passthru_step d ls) (w_label w (Some l)) (snd (tstep o s l)) = Some w' /\ RP d (fst (tstep o s l)) w'.

Lemma pass_src o d ls s w e : pass_op o d -> RP d s w -> pass_goal o d ls s w (LSrc e).
Proof.
  intros Ho R. unfold pass_goal. set (w1 := w_label w (Some (LSrc e))).
  assert (Hs : p_same w w1) by (apply p_same_label; exact I).
  assert (Hcur : w_cur w1 = Some (LSrc e)) by (unfold w1; cbn [w_label]; destruct (w_src_done w); reflexivity).
  clearbody w1. cbn [tstep].
  destruct (src_done s) eqn:Ed.
  - cbn [fst snd walk]. exists w1. split; [reflexivity|]. apply (rp_frame d s w s w1 R Hs); auto.
  - destruct (src_on s) eqn:Eo.
    + assert (Hon : forall s1, on_src o s1 e = (s1, [TOut (now s1) e])).
      { intros s1. destruct o; cbn [pass_op] in Ho; try contradiction; reflexivity. }
      rewrite Hon. cbn [fst snd walk].
      destruct R as [R1 R2 R3 R4 (tk & T1 & T2 & T3)]. destruct Hs as (W1 & W2 & W3).
      destruct T3 as [(T3 & _)|(_ & Hu & Hd & Hst & Hv)]; [congruence|].
      assert (Hn : now (if is_term e then upd_src s false true else s) = now s) by (destruct (is_term e); reflexivity).
      assert (Hst' : passthru_step d ls w1 (TOut (now s) e) = Some (w_deliver w1 0 e)).
      { unfold passthru_step. rewrite W3, (R4 Ed), W2, Hu, W1, R1, N.eqb_refl, Hcur, ev_eqb_refl. cbn [negb andb].
        assert (H : d <=? now s = true) by (apply N.leb_le; exact Hd). rewrite H. reflexivity. }
      rewrite Hn, Hst'. eexists. split; [reflexivity|].
      destruct (is_term e) eqn:Et.
      * constructor; cbn [upd_src now tasks jobs main_task src_done src_on w_deliver w_now w_finished w_unsub]; try congruence.
        exists tk. split; [exact T1|]. split; [exact T2|]. left. split; [reflexivity|]. left. left. exact Hst.
      * constructor; cbn [w_deliver w_now w_finished w_unsub]; try congruence.
        -- intros _. rewrite W3, (R4 Ed), Et. reflexivity.
        -- exists tk. split; [exact T1|]. split; [exact T2|]. right. rewrite W2. auto.
    + cbn [fst snd walk]. exists w1. split; [reflexivity|].
      destruct (is_term e); [|apply (rp_frame d s w s w1 R Hs); auto].
      apply (rp_frame d s w _ w1 R Hs); auto.
Qed.

Lemma poll_finished now tk : t_stage tk = StFinished -> poll now tk = (tk, PNone).
Proof. intros H. unfold poll. rewrite H. reflexivity. Qed.

Lemma poll_body_same now tk : t_body (fst (poll now tk)) = t_body tk.
Proof.
  unfold poll, poll_body. destruct (t_body tk) eqn:Eb; destruct (t_stage tk); cbn; destruct (t_keep tk); cbn; auto;
    repeat match goal with
           | |- context [if ?c then _ else _] => destruct c; cbn; auto
           end; rewrite ?Eb; cbn; auto;
    repeat match goal with
           | |- context [if ?c then _ else _] => destruct c; cbn; auto
           end.
Qed.

Lemma pass_run o d ls s w t : pass_op o d -> RP d s w -> pass_goal o d ls s w (LRun t).
Proof.
  intros Ho R. unfold pass_goal. set (w1 := w_label w (Some (LRun t))).
  assert (Hs : p_same w w1) by (apply p_same_label; exact I). clearbody w1.
  assert (R0 : RP d s w1) by (apply (rp_frame d s w s w1 R Hs); auto).
  destruct R as [R1 R2 R3 R4 (tk & T1 & (k & T2) & T3)]. destruct Hs as (W1 & W2 & W3).
  cbn [tstep]. rewrite T1, R2, !nth_error_single.
  destruct t as [|t]; [|cbn [fst snd walk]; exists w1; split; [reflexivity|exact R0]].
  (* what a silent poll leaves *)
  assert (Quiet : forall tk1, dead tk1 -> (exists k1, t_body tk1 = BOnce k1) ->
                  (src_on s = true -> t_stage tk1 = StFinished /\ t_value tk1 = true) ->
                  RP d (upd_tasks s (set_nth [tk] 0 tk1)) w1).
  { intros tk1 D1 B1 V1. constructor; cbn [upd_tasks now tasks jobs main_task src_done src_on set_nth]; try congruence.
    - intros H. rewrite W3. apply R4, H.
    - exists tk1. split; [reflexivity|]. split; [exact B1|].
      destruct T3 as [(T3 & _)|(T3 & Hu & Hd & _)].
      + left. split; [exact T3|]. left. exact D1.
      + right. destruct (V1 T3) as [V2 V3]. rewrite W2. auto. }
  destruct T3 as [(T3 & [D|(Hu & Hd)])|(T3 & Hu & Hd & Hst & Hv)].
  - (* dead *)
    destruct (poll_quiet (now s) tk D) as [P1 P2]. pose proof (poll_body_same (now s) tk) as PB.
    destruct (poll (now s) tk) as [tk1 res]. cbn [fst snd] in *. subst res. cbn [fst snd walk].
    exists w1. split; [reflexivity|]. apply Quiet; [exact P2|exists k; congruence|congruence].
  - (* waiting *)
    pose proof (poll_once_ran (now s) tk) as PO.
    pose proof (poll_once (now s) tk k T2) as P.
    destruct (poll (now s) tk) as [tk1 res]. cbn [fst snd] in *.
    destruct P as [(-> & Hb1 & Hk1 & Hs1)|(-> & Hk & Hl & Hs1 & Hb1)].
    + cbn [fst snd walk]. exists w1. split; [reflexivity|].
      destruct Hs1 as [F|(K & Lb & _)].
      * apply Quiet; [left; exact F|exists k; exact Hb1|congruence].
      * constructor; cbn [upd_tasks now tasks jobs main_task src_done src_on set_nth]; try congruence.
        -- intros H. rewrite W3. apply R4, H.
        -- exists tk1. split; [reflexivity|]. split; [exists k; exact Hb1|]. left. split; [exact T3|].
           right. split; [congruence|lia].
    + (* the subscribing task runs *)
      cbn [on_job fst snd walk]. exists w1. split; [reflexivity|].
      constructor; cbn [upd_src upd_tasks now tasks jobs main_task src_done src_on set_nth]; try congruence.
      * intros H. rewrite W3. apply R4, H.
      * exists tk1. split; [reflexivity|]. split; [exists k; exact Hb1|]. right.
        split; [reflexivity|]. split; [congruence|]. split; [lia|]. split; [exact Hs1|]. apply (PO k 0%nat). reflexivity.
  - (* subscribed: the task is finished *)
    rewrite (poll_finished (now s) tk Hst). cbn [fst snd walk]. exists w1. split; [reflexivity|].
    apply Quiet; [left; exact Hst|exists k; exact T2|auto].
Qed.

Lemma pass_unsub o d ls s w : pass_op o d -> RP d s w -> pass_goal o d ls s w LUnsub.
Proof.
  intros Ho R. unfold pass_goal. set (w1 := w_label w (Some LUnsub)).
  assert (Hon : tstep o s LUnsub = match main_task s with Some t => unsub_handle o s t | None => (s, []) end).
  { destruct o; cbn [pass_op] in Ho; try contradiction; reflexivity. }
  rewrite Hon. clear Hon.
  destruct R as [R1 R2 R3 R4 (tk & T1 & T2 & T3)]. rewrite R3.
  unfold unsub_handle, cancel_task. rewrite T1, R2. cbn [nth_error subscribing andb set_nth].
  assert (Fin : forall s', now s' = now s -> tasks s' = [cancel tk] -> jobs s' = jobs s -> main_task s' = main_task s ->
                 src_on s' = false -> src_done s' = src_done s -> RP d s' w1).
  { intros s' F1 F2 F3 F4 F5 F6. constructor; unfold w1; cbn [w_label w_now w_finished w_unsub]; try congruence.
    - rewrite F6. exact R4.
    - exists (cancel tk). split; [exact F2|]. split; [exact T2|]. left. split; [exact F5|]. left. apply dead_cancel. }
  unfold handle_closed. destruct (t_value tk) eqn:Ev; cbn [fst snd walk]; exists w1; (split; [reflexivity|]); apply Fin; auto.
  cbn [upd_tasks src_on]. destruct T3 as [(T3 & _)|(_ & _ & _ & _ & Hv)]; [exact T3|congruence].
Qed.

Lemma pass_other o d ls s w l : pass_op o d -> RP d s w ->
  match l with LSrc _ | LRun _ | LUnsub => False | _ => True end -> pass_goal o d ls s w l.
Proof.
  intros Ho R Hl. unfold pass_goal.
  destruct l; try contradiction; cbn [tstep].
  - (* LAdv *)
    cbn [fst snd walk]. eexists. split; [reflexivity|].
    destruct R as [R1 R2 R3 R4 (tk & T1 & T2 & T3)].
    constructor; cbn [upd_now now tasks jobs main_task src_done src_on w_label w_now w_finished w_unsub].
    + rewrite R1. reflexivity.
    + exact R2.
    + exact R3.
    + exact R4.
    + exists tk. split; [exact T1|]. split; [exact T2|].
      destruct T3 as [(T3 & [D|(Hu & Hd)])|(T3 & Hu & Hd & Hst & Hv)].
      * left. split; [exact T3|]. left. exact D.
      * left. split; [exact T3|]. right. split; [exact Hu|]. pose proof (lb_mono (now s) dt tk). lia.
      * right. repeat split; auto. lia.
  - (* LClosed *)
    cbn [fst snd walk passthru_step]. eexists. split; [reflexivity|].
    apply (rp_frame d s w s _ R); auto. repeat split.
  - (* LFinish *)
    cbn [fst snd walk]. eexists. split; [reflexivity|]. apply (rp_frame d s w _ _ R); auto. repeat split.
  - destruct o; cbn [pass_op] in Ho; try contradiction; cbn [fst snd walk]; eexists;
      (split; [reflexivity|apply (rp_frame d s w s _ R); auto; repeat split]).
  - destruct o; cbn [pass_op] in Ho; try contradiction; cbn [fst snd walk]; eexists;
      (split; [reflexivity|apply (rp_frame d s w s _ R); auto; repeat split]).
  - destruct o; cbn [pass_op] in Ho; try contradiction; cbn [fst snd walk]; eexists;
      (split; [reflexivity|apply (rp_frame d s w s _ R); auto; repeat split]).
  - destruct o; cbn [pass_op] in Ho; try contradiction; cbn [fst snd walk]; eexists;
      (split; [reflexivity|apply (rp_frame d s w s _ R); auto; repeat split]).
  - destruct o; cbn [pass_op] in Ho; try contradiction; cbn [fst snd walk]; eexists;
      (split; [reflexivity|apply (rp_frame d s w s _ R); auto; repeat split]).
Qed.

Lemma pass_step_sim o d : pass_op o d ->
  forall ls_full done l r s w, ls_full = done ++ l :: r -> RP d s w ->
    exists w', walk (passthru_step d ls_full) w (TMark (length done) :: snd (tstep o s l)) = Some w' /\
               RP d (fst (tstep o s l)) w'.
Proof.
  intros Ho ls_full done l r s w E R.
  cbn [walk passthru_step]. rewrite E, nth_error_mid. rewrite <- E.
  change (pass_goal o d ls_full s w l).
  destruct l.
  - apply pass_src; assumption.
  - apply pass_run; assumption.
  - apply pass_other; auto.
  - apply pass_unsub; assumption.
  - apply pass_other; auto.
  - apply pass_other; auto.
  - apply pass_other; auto.
  - apply pass_other; auto.
  - apply pass_other; auto.
  - apply pass_other; auto.
  - apply pass_other; auto.
Qed.

Lemma rp_init o d : pass_op o d -> RP d (tinit o) (w0 true).
Proof.
  intros Ho. destruct o; cbn [pass_op] in Ho; try contradiction; subst; cbn [tinit schedule upd_src upd_main];
    (constructor; cbn; auto; eexists; split; [reflexivity|]; split; [eexists; reflexivity|]; left; split; [reflexivity|];
     right; split; [reflexivity|]; unfold lb; cbn; lia).
Qed.

Theorem delay_subscription_meets_spec : forall d ls, passthru_ok d ls (run_timed (TDelaySubscription d) ls) = true.
Proof.
  intros d ls. unfold passthru_ok, run_timed.
  assert (Ho : pass_op (TDelaySubscription d) d) by reflexivity.
  apply (run_sim (passthru_step d) (TDelaySubscription d) (RP d) (pass_step_sim (TDelaySubscription d) d Ho) ls [] _ _ ls eq_refl).
  apply rp_init, Ho.
Qed.

Theorem subscribe_on_meets_spec : forall ls, passthru_ok 0 ls (run_timed TSubscribeOn ls) = true.
Proof.
  intros ls. unfold passthru_ok, run_timed.
  assert (Ho : pass_op TSubscribeOn 0) by reflexivity.
  apply (run_sim (passthru_step 0) TSubscribeOn (RP 0) (pass_step_sim TSubscribeOn 0 Ho) ls [] _ _ ls eq_refl).
  apply rp_init, Ho.
Qed.

(* ---------- FIFO completeness: polled in spawn order, everything arrives in source order ---------- *)

Lemma touts_app a b : touts (a ++ b) = touts a ++ touts b.
Proof. apply filter_app. Qed.

Lemma touts_step_nil j X : touts (TMark j :: [] ++ X) = touts X.
Proof. reflexivity. Qed.

Lemma touts_step_one j t e X : touts (TMark j :: [TOut t e] ++ X) = TOut t e :: touts X.
Proof. reflexivity. Qed.

Definition relay_like (o : top) : Prop := match o with TDelay _ | TObserveOn => True | _ => False end.

Definition relay_delay (o : top) : option N := match o with TDelay d => Some d | _ => None end.

Lemma on_src_relay o s e : relay_like o -> keepb (match o with TDelay _ => true | _ => false end) e = true ->
  on_src o s e = (append_multi (fst (schedule s BOnce (job_of e) (relay_delay o))) (snd (schedule s BOnce (job_of e) (relay_delay o))), []).
Proof.
  intros Ho Hk. destruct o; try contradiction; cbn [on_src relay_delay].
  - destruct e as [v|x|]; [reflexivity|discriminate Hk|reflexivity].
  - destruct e; reflexivity.
Qed.

(* the input phase: one fresh task per notification, nothing polled yet, the clock at 0 *)
Definition fed (delay : option N) (jl : list job) (s : tsys) : Prop :=
  now s = 0 /\ jobs s = jl /\ alive s = true /\ (exists l, multi s = Some l) /\ length (tasks s) = length jl /\
  (forall i tk, nth_error (tasks s) i = Some tk -> tk = spawn (BOnce i) delay).

Lemma fed_schedule delay jl s j :
  fed delay jl s ->
  fed delay (jl ++ [j]) (append_multi (fst (schedule s BOnce j delay)) (snd (schedule s BOnce j delay))) /\
  src_on (append_multi (fst (schedule s BOnce j delay)) (snd (schedule s BOnce j delay))) = src_on s /\
  src_done (append_multi (fst (schedule s BOnce j delay)) (snd (schedule s BOnce j delay))) = src_done s.
Proof.
  intros (F1 & F2 & F3 & (l & Hl) & F5 & F6). unfold append_multi. cbn [schedule fst snd multi]. rewrite Hl.
  cbn [upd_multi src_on src_done]. split; [|split; reflexivity].
  unfold fed. cbn [upd_multi now jobs alive multi tasks]. split; [exact F1|]. split; [rewrite F2; reflexivity|]. split; [exact F3|].
  split; [eexists; reflexivity|]. split; [rewrite !app_length, F5; reflexivity|].
  intros i tk Hi. destruct (Nat.lt_ge_cases i (length (tasks s))) as [Hlt|Hge].
  - apply nth_error_app_old in Hi; [|exact Hlt]. apply (F6 i tk Hi).
  - assert (Hi' : (i < length (tasks s ++ [spawn (BOnce (length (tasks s))) delay]))%nat) by (apply nth_error_Some; congruence).
    rewrite app_length in Hi'. cbn [length] in Hi'. assert (i = length (tasks s)) by lia. subst i.
    rewrite nth_error_app_last in Hi. inversion Hi. reflexivity.
Qed.

Lemma fed_next o jl s v : relay_like o -> fed (relay_delay o) jl s -> src_on s = true -> src_done s = false ->
  exists s', tstep o s (LSrc (Next v)) = (s', []) /\ fed (relay_delay o) (jl ++ [JEmit v]) s' /\ src_on s' = true /\ src_done s' = false.
Proof.
  intros Ho F Hon Hdone. cbn [tstep is_term]. rewrite Hdone, Hon.
  rewrite (on_src_relay o s (Next v) Ho) by (destruct o; reflexivity). cbn [job_of].
  destruct (fed_schedule _ jl s (JEmit v) F) as (G1 & G2 & G3).
  eexists. split; [reflexivity|]. split; [exact G1|]. split; congruence.
Qed.

Lemma fed_done o jl s : relay_like o -> fed (relay_delay o) jl s -> src_on s = true -> src_done s = false ->
  exists s', tstep o s (LSrc Done) = (s', []) /\ fed (relay_delay o) (jl ++ [JComplete]) s'.
Proof.
  intros Ho F Hon Hdone. cbn [tstep is_term]. rewrite Hdone, Hon.
  rewrite (on_src_relay o _ Done Ho) by (destruct o; reflexivity). cbn [job_of].
  assert (F' : fed (relay_delay o) jl (upd_src s false true)) by exact F.
  destruct (fed_schedule _ jl _ JComplete F') as (G1 & _).
  eexists. split; [reflexivity|exact G1].
Qed.

Definition src_labels (vs : list val) : list tlab := map (fun v => LSrc (Next v)) vs.

Lemma fed_items o : relay_like o -> forall vs jl s j rest,
  fed (relay_delay o) jl s -> src_on s = true -> src_done s = false ->
  exists s', fed (relay_delay o) (jl ++ map JEmit vs) s' /\ src_on s' = true /\ src_done s' = false /\
             touts (trun_sys o s j (src_labels vs ++ rest)) = touts (trun_sys o s' (j + length vs) rest).
Proof.
  intros Ho. induction vs as [|v vs IH]; intros jl s j rest F Hon Hdone.
  - exists s. rewrite app_nil_r, Nat.add_0_r. auto.
  - cbn [src_labels map app trun_sys length].
    destruct (fed_next o jl s v Ho F Hon Hdone) as (s1 & E1 & F1 & Hon1 & Hdone1). rewrite E1.
    destruct (IH (jl ++ [JEmit v]) s1 (S j) rest F1 Hon1 Hdone1) as (s' & F' & Hon' & Hdone' & E').
    exists s'. rewrite <- app_assoc in F'. cbn [app] in F'. split; [exact F'|]. split; [exact Hon'|]. split; [exact Hdone'|].
    rewrite touts_step_nil. fold (src_labels vs). rewrite E'.
    replace (S j + length vs)%nat with (j + S (length vs))%nat by lia. reflexivity.
Qed.

Lemma fed_init o : relay_like o -> fed (relay_delay o) [] (tinit o) /\ src_on (tinit o) = true /\ src_done (tinit o) = false.
Proof.
  intros Ho. destruct o; try contradiction; cbn [tinit]; (split; [|split; reflexivity]);
    (unfold fed; cbn; repeat split; auto; [eexists; reflexivity|intros i tk Hi; destruct i; discriminate]).
Qed.

(* a task that will run its function at the next poll *)
Definition ripe (T : N) (tk : task) : Prop :=
  t_keep tk = true /\ (exists b, t_body tk = BOnce b) /\
  match t_stage tk with StDelay d => d = 0 | StWait due => due <= T | StBody => True | StFinished => False end.

Lemma ripe_poll T tk : ripe T tk -> exists tk1 b, poll T tk = (tk1, PRun b 0 false).
Proof.
  intros (Hk & (b & Hb) & Hs). unfold poll, poll_body. rewrite Hk. cbn [negb].
  destruct (t_stage tk) as [d|due| |] eqn:Es; try contradiction.
  - subst d. rewrite N.add_0_r, N.ltb_irrefl. cbn [t_body with_stage]. rewrite Hb. eauto.
  - assert (H : T <? due = false) by (apply N.ltb_ge; exact Hs). rewrite H. cbn [t_body with_stage]. rewrite Hb. eauto.
  - rewrite Hb. eauto.
Qed.

(* the delivery phase: the clock at T, every task from k on is ripe *)
Definition ready (JL : list job) (T : N) (k : nat) (s : tsys) : Prop :=
  now s = T /\ jobs s = JL /\ alive s = true /\
  forall i, (k <= i < length JL)%nat -> exists tk, nth_error (tasks s) i = Some tk /\ ripe T tk.

Lemma ready_run_emit o JL T k s v :
  ready JL T k s -> nth_error JL k = Some (JEmit v) ->
  exists s', tstep o s (LRun k) = (s', [TOut T (Next v)]) /\ ready JL T (S k) s'.
Proof.
  intros (R1 & R2 & R3 & R4) Hj.
  assert (Hk : (k < length JL)%nat) by (apply nth_error_Some; congruence).
  destruct (R4 k (conj (le_n k) Hk)) as (tk & Ht & Hr).
  destruct (ripe_poll T tk Hr) as (tk1 & b & Hp).
  cbn [tstep]. rewrite Ht, R2, Hj, R1, Hp. cbn [on_job]. unfold slot_next. cbn [upd_tasks alive now]. rewrite R3, R1.
  eexists. split; [reflexivity|].
  unfold ready. cbn [upd_tasks now jobs alive tasks]. split; [exact R1|]. split; [exact R2|]. split; [exact R3|].
  intros i Hi. destruct (R4 i ltac:(lia)) as (tki & Hti & Hri). exists tki. split; [|exact Hri].
  rewrite nth_error_set_nth_neq by lia. exact Hti.
Qed.

Lemma ready_run_complete o JL T k s :
  ready JL T k s -> nth_error JL k = Some JComplete ->
  exists s', tstep o s (LRun k) = (s', [TOut T Done]).
Proof.
  intros (R1 & R2 & R3 & R4) Hj.
  assert (Hk : (k < length JL)%nat) by (apply nth_error_Some; congruence).
  destruct (R4 k (conj (le_n k) Hk)) as (tk & Ht & Hr).
  destruct (ripe_poll T tk Hr) as (tk1 & b & Hp).
  cbn [tstep]. rewrite Ht, R2, Hj, R1, Hp. cbn [on_job]. unfold slot_term. cbn [upd_tasks alive now]. rewrite R3, R1.
  eexists. reflexivity.
Qed.

Lemma ready_items o JL T tl : forall vs pre s j rest,
  JL = map JEmit pre ++ map JEmit vs ++ tl -> ready JL T (length pre) s ->
  exists s', ready JL T (length pre + length vs) s' /\
    touts (trun_sys o s j (map LRun (seq (length pre) (length vs)) ++ rest)) =
    map (fun v => TOut T (Next v)) vs ++ touts (trun_sys o s' (j + length vs) rest).
Proof.
  induction vs as [|v vs IH]; intros pre s j rest HJ R.
  - exists s. cbn [length seq map app]. rewrite !Nat.add_0_r. auto.
  - cbn [length seq map app trun_sys].
    assert (Hn : nth_error JL (length pre) = Some (JEmit v)).
    { rewrite HJ. cbn [map app]. rewrite <- (map_length JEmit pre). apply nth_error_mid. }
    destruct (ready_run_emit o JL T (length pre) s v R Hn) as (s1 & E1 & R1). rewrite E1.
    assert (HJ' : JL = map JEmit (pre ++ [v]) ++ map JEmit vs ++ tl).
    { rewrite HJ, map_app, <- app_assoc. reflexivity. }
    assert (Hl : length (pre ++ [v]) = S (length pre)) by (rewrite app_length; cbn; lia).
    rewrite <- Hl in R1.
    destruct (IH (pre ++ [v]) s1 (S j) rest HJ' R1) as (s' & R' & E'). rewrite Hl in R', E'.
    exists s'. split; [replace (length pre + S (length vs))%nat with (S (length pre) + length vs)%nat by lia; exact R'|].
    rewrite touts_step_one, E'. cbn [map app]. replace (S j + length vs)%nat with (j + S (length vs))%nat by lia. reflexivity.
Qed.

(* the whole delivery round *)
Lemma ready_round o T vs s j :
  ready (map JEmit vs ++ [JComplete]) T 0 s ->
  touts (trun_sys o s j (map LRun (seq 0 (S (length vs))))) = map (fun v => TOut T (Next v)) vs ++ [TOut T Done].
Proof.
  intros R. rewrite seq_S, map_app. cbn [Nat.add map].
  destruct (ready_items o (map JEmit vs ++ [JComplete]) T [JComplete] vs [] s j [LRun (length vs)] eq_refl R) as (s' & R' & E').
  cbn [length] in E', R'. rewrite E'. f_equal.
  assert (Hn : nth_error (map JEmit vs ++ [JComplete]) (length vs) = Some JComplete).
  { rewrite <- (map_length JEmit vs). apply nth_error_mid. }
  cbn [Nat.add] in R'.
  destruct (ready_run_complete o _ T (length vs) s' R' Hn) as (s2 & E2).
  cbn [trun_sys]. rewrite E2. reflexivity.
Qed.


Lemma fed_ready_body JL s : fed None JL s -> ready JL 0 0 s.
Proof.
  intros (F1 & F2 & F3 & _ & F5 & F6). unfold ready. repeat split; auto.
  intros i Hi. destruct (nth_error (tasks s) i) as [tk|] eqn:Et; [|apply nth_error_None in Et; lia].
  exists tk. split; [reflexivity|]. rewrite (F6 i tk Et). unfold ripe. cbn. split; [reflexivity|]. split; [eexists; reflexivity|exact I].
Qed.

Lemma fed_ready_zero JL s : fed (Some 0) JL s -> ready JL 0 0 (upd_now s (now s + 0)).
Proof.
  intros (F1 & F2 & F3 & _ & F5 & F6). unfold ready. cbn [upd_now now jobs alive tasks]. rewrite F1. repeat split; auto.
  intros i Hi. destruct (nth_error (tasks s) i) as [tk|] eqn:Et; [|apply nth_error_None in Et; lia].
  exists tk. split; [reflexivity|]. rewrite (F6 i tk Et). unfold ripe. cbn. split; [reflexivity|]. split; [eexists; reflexivity|reflexivity].
Qed.

Theorem observe_on_fifo_complete : forall vs,
  touts (run_timed TObserveOn (map (fun v => LSrc (Next v)) vs ++ LSrc Done :: map LRun (seq 0 (S (length vs)))))
  = map (fun v => TOut 0 (Next v)) vs ++ [TOut 0 Done].
Proof.
  intros vs. unfold run_timed.
  destruct (fed_init TObserveOn I) as (F0 & Hon0 & Hdone0).
  destruct (fed_items TObserveOn I vs [] _ 0%nat (LSrc Done :: map LRun (seq 0 (S (length vs)))) F0 Hon0 Hdone0)
    as (s1 & F1 & Hon1 & Hdone1 & E1).
  unfold src_labels in E1. rewrite E1. cbn [app] in F1.
  destruct (fed_done TObserveOn _ s1 I F1 Hon1 Hdone1) as (s2 & E2 & F2).
  cbn [trun_sys]. rewrite E2, touts_step_nil.
  apply (ready_round TObserveOn 0 vs s2). apply fed_ready_body. exact F2.
Qed.

(* delay 0 behaves in the same way *)
Theorem delay_zero_fifo_complete : forall vs,
  touts (run_timed (TDelay 0) (map (fun v => LSrc (Next v)) vs ++ LSrc Done :: LAdv 0 :: map LRun (seq 0 (S (length vs)))))
  = map (fun v => TOut 0 (Next v)) vs ++ [TOut 0 Done].
Proof.
  intros vs. unfold run_timed.
  destruct (fed_init (TDelay 0) I) as (F0 & Hon0 & Hdone0).
  destruct (fed_items (TDelay 0) I vs [] _ 0%nat (LSrc Done :: LAdv 0 :: map LRun (seq 0 (S (length vs)))) F0 Hon0 Hdone0)
    as (s1 & F1 & Hon1 & Hdone1 & E1).
  unfold src_labels in E1. rewrite E1. cbn [app] in F1.
  destruct (fed_done (TDelay 0) _ s1 I F1 Hon1 Hdone1) as (s2 & E2 & F2).
  cbn [trun_sys]. rewrite E2, touts_step_nil. cbn [tstep]. rewrite touts_step_nil.
  apply (ready_round (TDelay 0) 0 vs). apply fed_ready_zero. exact F2.
Qed.

(* delay d with d > 0: the timer of a task is created by its FIRST poll (the async block
   `{ new_timer(d).await; task.await }` is lazy), so a task that is not polled before the clock
   advances starts its delay late.  The arming round: every task polled once at time T. *)
Definition arming (T d : N) (JL : list job) (k : nat) (s : tsys) : Prop :=
  now s = T /\ jobs s = JL /\ alive s = true /\ length (tasks s) = length JL /\
  forall i tk, nth_error (tasks s) i = Some tk ->
    t_keep tk = true /\ (exists b, t_body tk = BOnce b) /\ t_stage tk = (if Nat.ltb i k then StWait (T + d) else StDelay d).

Lemma arming_run o T d JL k s : 0 < d -> arming T d JL k s -> (k < length JL)%nat ->
  exists s', tstep o s (LRun k) = (s', []) /\ arming T d JL (S k) s'.
Proof.
  intros Hd (A1 & A2 & A3 & A4 & A5) Hk.
  destruct (nth_error (tasks s) k) as [tk|] eqn:Et; [|apply nth_error_None in Et; lia].
  destruct (nth_error JL k) as [j|] eqn:Ej; [|apply nth_error_None in Ej; lia].
  destruct (A5 k tk Et) as (K1 & (b & K2) & K3). rewrite Nat.ltb_irrefl in K3.
  cbn [tstep]. rewrite Et, A2, Ej, A1. unfold poll. rewrite K3, K1. cbn [negb].
  assert (H : T <? T + d = true) by (apply N.ltb_lt; lia). rewrite H.
  eexists. split; [reflexivity|].
  unfold arming. cbn [upd_tasks now jobs alive tasks]. rewrite set_nth_length.
  split; [exact A1|]. split; [exact A2|]. split; [exact A3|]. split; [exact A4|].
  intros i tk' Hi. destruct (Nat.eq_dec k i) as [<-|Hne].
  - rewrite (nth_error_set_nth_eq _ _ _ _ Et) in Hi. inversion Hi; subst tk'. cbn [with_stage t_keep t_body t_stage].
    split; [exact K1|]. split; [exists b; exact K2|].
    destruct (Nat.ltb_spec k (S k)); [reflexivity|lia].
  - rewrite nth_error_set_nth_neq in Hi by exact Hne. destruct (A5 i tk' Hi) as (L1 & L2 & L3).
    split; [exact L1|]. split; [exact L2|]. rewrite L3.
    destruct (Nat.ltb_spec i k), (Nat.ltb_spec i (S k)); try reflexivity; lia.
Qed.

Lemma arming_round o T d JL : 0 < d -> forall m k s j rest,
  arming T d JL k s -> (k + m <= length JL)%nat ->
  exists s', arming T d JL (k + m) s' /\
    touts (trun_sys o s j (map LRun (seq k m) ++ rest)) = touts (trun_sys o s' (j + m) rest).
Proof.
  intros Hd. induction m as [|m IH]; intros k s j rest A Hk.
  - exists s. rewrite !Nat.add_0_r. auto.
  - cbn [seq map app trun_sys].
    destruct (arming_run o T d JL k s Hd A ltac:(lia)) as (s1 & E1 & A1). rewrite E1, touts_step_nil.
    destruct (IH (S k) s1 (S j) rest A1 ltac:(lia)) as (s' & A' & E'). exists s'.
    split; [replace (k + S m)%nat with (S k + m)%nat by lia; exact A'|].
    rewrite E'. replace (S j + m)%nat with (j + S m)%nat by lia. reflexivity.
Qed.

Lemma fed_arming d JL s : fed (Some d) JL s -> arming 0 d JL 0 s.
Proof.
  intros (F1 & F2 & F3 & _ & F5 & F6). unfold arming. repeat split; auto; rewrite (F6 i tk H); cbn; eauto.
Qed.

Lemma arming_adv T d JL s dt : arming T d JL 0 s -> arming (T + dt) d JL 0 (upd_now s (now s + dt)).
Proof.
  intros (A1 & A2 & A3 & A4 & A5). unfold arming. cbn [upd_now now jobs alive tasks].
  split; [rewrite A1; reflexivity|]. split; [exact A2|]. split; [exact A3|]. split; [exact A4|].
  intros i tk Hi. destruct (A5 i tk Hi) as (L1 & L2 & L3). cbn [Nat.ltb Nat.leb] in *. auto.
Qed.

Lemma arming_ready T d JL s : arming T d JL (length JL) s -> ready JL (T + d) 0 (upd_now s (now s + d)).
Proof.
  intros (A1 & A2 & A3 & A4 & A5). unfold ready. cbn [upd_now now jobs alive tasks].
  split; [rewrite A1; reflexivity|]. split; [exact A2|]. split; [exact A3|].
  intros i Hi. destruct (nth_error (tasks s) i) as [tk|] eqn:Et; [|apply nth_error_None in Et; lia].
  exists tk. split; [reflexivity|]. destruct (A5 i tk Et) as (L1 & L2 & L3).
  unfold ripe. split; [exact L1|]. split; [exact L2|]. rewrite L3.
  destruct (Nat.ltb_spec i (length JL)); [lia|lia].
Qed.

Definition fifo_jobs (vs : list val) : list job := map JEmit vs ++ [JComplete].

Lemma fifo_jobs_length vs : length (fifo_jobs vs) = S (length vs).
Proof. unfold fifo_jobs. rewrite app_length, map_length. cbn. lia. Qed.

(* the state after the input phase of a completed source *)
Lemma fed_source o vs rest : relay_like o ->
  exists s, fed (relay_delay o) (fifo_jobs vs) s /\
    touts (run_timed o (map (fun v => LSrc (Next v)) vs ++ LSrc Done :: rest)) = touts (trun_sys o s (S (length vs)) rest).
Proof.
  intros Ho. unfold run_timed.
  destruct (fed_init o Ho) as (F0 & Hon0 & Hdone0).
  destruct (fed_items o Ho vs [] _ 0%nat (LSrc Done :: rest) F0 Hon0 Hdone0) as (s1 & F1 & Hon1 & Hdone1 & E1).
  unfold src_labels in E1. rewrite E1. cbn [app] in F1.
  destruct (fed_done o _ s1 Ho F1 Hon1 Hdone1) as (s2 & E2 & F2).
  cbn [trun_sys]. rewrite E2, touts_step_nil. exists s2. split; [exact F2|reflexivity].
Qed.

(* FIFO completeness of delay d, d > 0: every task polled once when it is spawned (here: after the
   input phase, the clock still at 0), the delay elapses, the tasks are polled again in spawn order *)
Theorem delay_fifo_complete : forall d vs, 0 < d ->
  touts (run_timed (TDelay d)
           (map (fun v => LSrc (Next v)) vs ++ LSrc Done ::
            map LRun (seq 0 (S (length vs))) ++ LAdv d :: map LRun (seq 0 (S (length vs)))))
  = map (fun v => TOut d (Next v)) vs ++ [TOut d Done].
Proof.
  intros d vs Hd.
  destruct (fed_source (TDelay d) vs (map LRun (seq 0 (S (length vs))) ++ LAdv d :: map LRun (seq 0 (S (length vs)))) I)
    as (s & F & E).
  rewrite E. cbn [relay_delay] in F.
  destruct (arming_round (TDelay d) 0 d (fifo_jobs vs) Hd (S (length vs)) 0%nat s (S (length vs))
              (LAdv d :: map LRun (seq 0 (S (length vs)))) (fed_arming d _ s F)) as (s' & A' & E').
  { rewrite fifo_jobs_length. lia. }
  rewrite E'. cbn [trun_sys tstep]. rewrite touts_step_nil.
  cbn [Nat.add] in A'. rewrite <- fifo_jobs_length in A'.
  pose proof (arming_ready 0 d _ s' A') as R. rewrite N.add_0_l in R.
  apply (ready_round (TDelay d) d vs _ _ R).
Qed.

(* the statement with the tasks first polled only after the delay is FALSE for d > 0: those polls only
   start the timers, nothing is delivered *)
Theorem delay_fifo_unarmed_silent : forall d vs, 0 < d ->
  touts (run_timed (TDelay d)
           (map (fun v => LSrc (Next v)) vs ++ LSrc Done :: LAdv d :: map LRun (seq 0 (S (length vs))))) = [].
Proof.
  intros d vs Hd.
  destruct (fed_source (TDelay d) vs (LAdv d :: map LRun (seq 0 (S (length vs)))) I) as (s & F & E).
  rewrite E. cbn [relay_delay] in F. cbn [trun_sys tstep]. rewrite touts_step_nil.
  pose proof (arming_adv 0 d _ s d (fed_arming d _ s F)) as A.
  destruct (arming_round (TDelay d) (0 + d) d (fifo_jobs vs) Hd (S (length vs)) 0%nat _ (S (S (length vs))) [] A) as (s' & A' & E').
  { rewrite fifo_jobs_length. lia. }
  rewrite app_nil_r in E'. rewrite E'. reflexivity.
Qed.

Example delay_fifo_as_stated_counterexample :
  touts (run_timed (TDelay 5)
           (map (fun v => LSrc (Next v)) [VZ 1; VZ 2] ++ LSrc Done :: LAdv 5 :: map LRun (seq 0 (S (length [VZ 1; VZ 2])))))
  = [] /\
  map (fun v => TOut 5 (Next v)) [VZ 1; VZ 2] ++ [TOut 5 Done] <> [].
Proof. split; [vm_compute; reflexivity|discriminate]. Qed.

(* an error is forwarded at once and ends everything, whatever happens afterwards *)
Lemma no_tout_touts out : no_tout out -> touts out = [].
Proof.
  induction out as [|x r IH]; intros H; [reflexivity|].
  pose proof (H x (or_introl eq_refl)) as Hx. destruct x; try contradiction; cbn [touts filter];
    apply IH; intros y Hy; apply H; right; exact Hy.
Qed.

Theorem delay_error_prefix : forall d vs e rest,
  touts (run_timed (TDelay d) (map (fun v => LSrc (Next v)) vs ++ LSrc (Err e) :: rest)) = [TOut 0 (Err e)].
Proof.
  intros d vs e rest. unfold run_timed.
  destruct (fed_init (TDelay d) I) as (F0 & Hon0 & Hdone0).
  destruct (fed_items (TDelay d) I vs [] _ 0%nat (LSrc (Err e) :: rest) F0 Hon0 Hdone0) as (s1 & F1 & Hon1 & Hdone1 & E1).
  unfold src_labels in E1. rewrite E1. cbn [app relay_delay] in F1.
  destruct F1 as (G1 & G2 & G3 & G4 & G5 & G6).
  cbn [trun_sys tstep is_term]. rewrite Hdone1, Hon1. cbn [on_src]. unfold slot_term. cbn [upd_src alive now]. rewrite G3, G1.
  rewrite touts_step_one. f_equal. apply no_tout_touts. apply silent_run; [exact I|].
  split; [reflexivity|]. intros i tk j Hi Hj. right. right. split; [reflexivity|].
  cbn [upd_alive upd_src jobs] in Hj. rewrite G2 in Hj. apply nth_error_In in Hj. apply in_map_iff in Hj.
  destruct Hj as (v & <- & _). reflexivity.
Qed.

(* ---------- order: what is delivered, and in which order, for ANY label sequence ---------- *)

(* the deliveries made by task polls: (task index, notification), in the order of the trace *)
Fixpoint deliveries (ls : list tlab) (cur : option tlab) (out : list tout) : list (nat * ev) :=
  match out with
  | [] => []
  | TMark j :: r => deliveries ls (nth_error ls j) r
  | TOut _ e :: r =>
      match cur with
      | Some (LRun t) => (t, e) :: deliveries ls cur r
      | _ => deliveries ls cur r
      end
  | _ :: r => deliveries ls cur r
  end.

(* the input notifications that the operator accepts: those before the input terminates and
   before unsubscribe() *)
Fixpoint accepted_src (ls : list tlab) (done unsub : bool) : list ev :=
  match ls with
  | [] => []
  | LSrc e :: r =>
      if done then accepted_src r done unsub
      else (if unsub then [] else [e]) ++ accepted_src r (is_term e) unsub
  | LUnsub :: r => accepted_src r done true
  | _ :: r => accepted_src r done unsub
  end.

(* those that get a task: all of them for observe_on, all but an error for delay *)
Definition relayed (de : bool) (ls : list tlab) : list ev := filter (keepb de) (accepted_src ls false false).

Inductive subseq {A : Type} : list A -> list A -> Prop :=
| subseq_nil : forall l, subseq [] l
| subseq_take : forall x a l, subseq a l -> subseq (x :: a) (x :: l)
| subseq_skip : forall x a l, subseq a l -> subseq a (x :: l).

(* strictly increasing task indices, all at least lo *)
Fixpoint inc_from (lo : nat) (D : list (nat * ev)) : Prop :=
  match D with
  | [] => True
  | (t, _) :: r => (lo <= t)%nat /\ inc_from (S t) r
  end.

Definition increasing (D : list (nat * ev)) : Prop := inc_from 0 D.

Definition shift (D : list (nat * ev)) : list (nat * ev) := map (fun p => (pred (fst p), snd p)) D.

Lemma shift_snd D : map snd (shift D) = map snd D.
Proof. unfold shift. rewrite map_map. reflexivity. Qed.

Lemma inc_shift : forall D lo, inc_from (S lo) D -> inc_from lo (shift D).
Proof.
  induction D as [|[t e] r IH]; intros lo H; [exact I|]. cbn [shift map fst snd inc_from] in *.
  destruct H as [H1 H2]. split; [lia|]. apply IH. replace (S (pred t)) with t by lia. exact H2.
Qed.

Lemma inc_weaken : forall D lo lo', (lo <= lo')%nat -> inc_from lo' D -> inc_from lo D.
Proof. intros [|[t e] r] lo lo' H; cbn [inc_from]; [auto|]. intros [H1 H2]. split; [lia|exact H2]. Qed.

Lemma inc_lookup_shift : forall D lo (L : list ev) x,
  inc_from (S lo) D -> (forall t e, In (t, e) D -> nth_error (x :: L) t = Some e) ->
  forall t e, In (t, e) (shift D) -> nth_error L t = Some e.
Proof.
  induction D as [|[t0 e0] r IH]; intros lo L x Hinc Hl t e Hin; [destruct Hin|].
  cbn [shift map fst snd In] in Hin. cbn [inc_from] in Hinc. destruct Hinc as [H1 H2]. destruct Hin as [Hin|Hin].
  - inversion Hin; subst t e. pose proof (Hl t0 e0 (or_introl eq_refl)) as H. destruct t0 as [|t0]; [lia|]. exact H.
  - apply (IH t0 L x H2); [|exact Hin]. intros t' e' H'. apply Hl. right. exact H'.
Qed.

(* indexed lookups with increasing indices read off a sub-sequence *)
Lemma increasing_subseq : forall (L : list ev) D,
  increasing D -> (forall t e, In (t, e) D -> nth_error L t = Some e) -> subseq (map snd D) L.
Proof.
  unfold increasing. induction L as [|x L IH]; intros D Hinc Hl.
  - destruct D as [|[t e] r]; [constructor|]. pose proof (Hl t e (or_introl eq_refl)) as H. destruct t; discriminate.
  - destruct D as [|[t e] r]; [constructor|]. cbn [inc_from] in Hinc. destruct Hinc as [_ H2].
    destruct t as [|t].
    + pose proof (Hl 0%nat e (or_introl eq_refl)) as H. cbn in H. inversion H; subst x.
      cbn [map snd]. apply subseq_take. rewrite <- shift_snd. apply IH.
      * apply inc_shift. exact H2.
      * apply (inc_lookup_shift r 0 L e H2). intros t' e' H'. apply Hl. right. exact H'.
    + apply subseq_skip.
      assert (Hinc' : inc_from 1 ((S t, e) :: r)) by (cbn [inc_from]; split; [lia|exact H2]).
      rewrite <- shift_snd. apply IH.
      * apply inc_shift. exact Hinc'.
      * apply (inc_lookup_shift _ 0 L x Hinc'). exact Hl.
Qed.

(* -- the walk only extends the input log -- *)
Lemma relay_step_src d de ls w x w1 :
  relay_step d de ls w x = Some w1 ->
  (exists ext, w_src w1 = w_src w ++ ext) /\
  (match x with TMark _ => True | _ => w_src w1 = w_src w /\ w_src_done w1 = w_src_done w /\ w_unsub w1 = w_unsub w /\
                                        w_subscribed w1 = w_subscribed w /\ w_cur w1 = w_cur w end).
Proof.
  intros H. destruct x as [at_time e|b|t sq a|t|j]; cbn [relay_step] in H;
    try (inversion H; subst w1; split; [exists []; rewrite app_nil_r; reflexivity|repeat split]; fail).
  - assert (Hd : exists idx, w1 = w_deliver w idx e).
    { destruct (negb (w_finished w) && negb (w_unsub w) && (at_time =? w_now w)); [|discriminate].
      destruct (w_cur w) as [[e0|t| | | | | | | | |]|]; try discriminate.
      - destruct e0 as [v|x|]; try discriminate. destruct (de && ev_eqb e (Err x)); [|discriminate].
        inversion H. eauto.
      - destruct (nth_error (task_events de w) t) as [[e' arrived]|]; [|discriminate].
        destruct (ev_eqb e e' && (arrived + d <=? at_time) && negb (memn' t (w_delivered w))); [|discriminate].
        inversion H. eauto. }
    destruct Hd as [idx ->]. split; [exists []; rewrite app_nil_r; reflexivity|repeat split].
  - inversion H; subst w1. split; [|exact I].
    destruct (nth_error ls j) as [l|]; [|exists []; rewrite app_nil_r; reflexivity].
    destruct l; try (exists []; rewrite app_nil_r; reflexivity).
    cbn [w_label]. destruct (w_src_done w); cbn [w_src]; [exists []; rewrite app_nil_r; reflexivity|].
    destruct (w_subscribed w && negb (w_unsub w)); [eexists; reflexivity|exists []; rewrite app_nil_r; reflexivity].
Qed.

Lemma relay_walk_src d de ls : forall out w w', walk (relay_step d de ls) w out = Some w' -> exists ext, w_src w' = w_src w ++ ext.
Proof.
  induction out as [|x r IH]; intros w w' H; cbn [walk] in H.
  - inversion H. exists []. rewrite app_nil_r. reflexivity.
  - destruct (relay_step d de ls w x) as [w1|] eqn:E; [|discriminate].
    destruct (relay_step_src d de ls w x w1 E) as [(e1 & H1) _]. destruct (IH w1 w' H) as (e2 & H2).
    exists (e1 ++ e2). rewrite H2, H1, app_assoc. reflexivity.
Qed.

Lemma task_events_mono de w w' ext t x :
  w_src w' = w_src w ++ ext -> nth_error (task_events de w) t = Some x -> nth_error (task_events de w') t = Some x.
Proof.
  intros H Hn. unfold task_events in *. rewrite H, filter_app, nth_error_app1; [exact Hn|].
  apply nth_error_Some. congruence.
Qed.

(* every delivery made by a poll of task t is the t-th relayed notification of the final log *)
Lemma relay_deliveries d de ls : forall out w w',
  walk (relay_step d de ls) w out = Some w' ->
  forall t e, In (t, e) (deliveries ls (w_cur w) out) -> exists arrived, nth_error (task_events de w') t = Some (e, arrived).
Proof.
  induction out as [|x r IH]; intros w w' H t e Hin; [destruct Hin|].
  cbn [walk] in H. destruct (relay_step d de ls w x) as [w1|] eqn:E; [|discriminate].
  destruct (relay_walk_src d de ls r w1 w' H) as (ext & Hext).
  destruct x as [at_time e0|b|t0 sq a|t0|j]; cbn [deliveries] in Hin.
  - cbn [relay_step] in E.
    destruct (negb (w_finished w) && negb (w_unsub w) && (at_time =? w_now w)); [|discriminate].
    destruct (w_cur w) as [[e1|t1| | | | | | | | |]|] eqn:Ec; try discriminate.
    + destruct e1 as [v|x|]; try discriminate. destruct (de && ev_eqb e0 (Err x)); [|discriminate].
      inversion E; subst w1. apply (IH _ w' H t e). cbn [w_deliver w_cur]. rewrite Ec. exact Hin.
    + destruct (nth_error (task_events de w) t1) as [[e' arrived]|] eqn:En; [|discriminate].
      destruct (ev_eqb e0 e') eqn:Ee; [|discriminate].
      cbn [andb] in E. destruct ((arrived + d <=? at_time) && negb (memn' t1 (w_delivered w))); [|discriminate].
      inversion E; subst w1. apply ev_eqb_eq in Ee. subst e'.
      destruct Hin as [Hin|Hin].
      * inversion Hin; subst t1 e0. exists arrived. apply (task_events_mono de (w_deliver w t e) w' ext); [exact Hext|exact En].
      * apply (IH _ w' H t e). cbn [w_deliver w_cur]. rewrite Ec. exact Hin.
  - inversion E; subst w1. apply (IH w w' H t e Hin).
  - inversion E; subst w1. apply (IH w w' H t e Hin).
  - inversion E; subst w1. apply (IH w w' H t e Hin).
  - inversion E; subst w1. apply (IH _ w' H t e).
    replace (w_cur (w_label w (nth_error ls j))) with (nth_error ls j); [exact Hin|].
    destruct (nth_error ls j) as [l|]; [|reflexivity]. destruct l; try reflexivity.
    cbn [w_label]. destruct (w_src_done w); reflexivity.
Qed.

(* -- the input log of the walk over a run is the accepted input of the label sequence -- *)
Definition no_mark (out : list tout) : Prop := forall x, In x out -> match x with TMark _ => False | _ => True end.

Lemma no_mark_nil : no_mark [].
Proof. intros x []. Qed.

Lemma no_mark_one x : match x with TMark _ => False | _ => True end -> no_mark [x].
Proof. intros H y [<-|[]]. exact H. Qed.

Lemma inert_no_mark out : inert out -> no_mark out.
Proof. intros H x Hx. pose proof (H x Hx) as H'. destruct x; auto. Qed.

Lemma slot_next_no_mark s v : no_mark (snd (slot_next s v)).
Proof. unfold slot_next. cbn [snd]. destruct (alive s); [apply no_mark_one; exact I|apply no_mark_nil]. Qed.

Lemma slot_term_no_mark s e : no_mark (snd (slot_term s e)).
Proof. unfold slot_term. destruct (alive s); cbn [snd]; [apply no_mark_one; exact I|apply no_mark_nil]. Qed.

Lemma buffer_emit_no_mark s : no_mark (snd (buffer_emit s)).
Proof.
  unfold buffer_emit. destruct (alive s); [|apply no_mark_nil].
  destruct (data s); cbn [snd]; [apply no_mark_nil|apply no_mark_one; exact I].
Qed.

Lemma on_job_no_mark o s t j seq : no_mark (snd (fst (on_job o s t j seq))).
Proof.
  destruct j; cbn [on_job].
  - pose proof (slot_next_no_mark s v) as H. destruct (slot_next s v). exact H.
  - pose proof (slot_term_no_mark s (Err e)) as H. destruct (slot_term s (Err e)). exact H.
  - pose proof (slot_term_no_mark s Done) as H. destruct (slot_term s Done). exact H.
  - destruct (trailing s) as [v|]; [|apply no_mark_nil].
    pose proof (slot_next_no_mark (upd_trailing s None) v) as H. destruct (slot_next (upd_trailing s None) v). exact H.
  - destruct (alive s && negb (down_fin s)); [|apply no_mark_nil].
    pose proof (buffer_emit_no_mark s) as H. destruct (buffer_emit s). exact H.
  - destruct (down_fin s); cbn [fst snd]; [apply no_mark_nil|apply no_mark_one; exact I].
  - cbn [fst snd]. intros x [<-|[<-|[]]]; exact I.
  - apply no_mark_nil.
  - cbn [fst snd]. apply no_mark_one. exact I.
  - cbn [fst snd]. apply no_mark_one. exact I.
Qed.

Lemma tstep_no_mark o s l : relay_like o -> no_mark (snd (tstep o s l)).
Proof.
  intros Ho. destruct l; cbn [tstep]; try apply no_mark_nil.
  - destruct (src_done s); [apply no_mark_nil|]. destruct (src_on s); [|apply no_mark_nil].
    destruct o; try contradiction; cbn [on_src].
    + destruct e as [v|x|]; cbn [schedule snd]; try apply no_mark_nil. apply slot_term_no_mark.
    + cbn [schedule snd]. apply no_mark_nil.
  - destruct (nth_error (tasks s) t) as [tk|]; [|apply no_mark_nil].
    destruct (nth_error (jobs s) t) as [j|]; [|apply no_mark_nil].
    destruct (poll (now s) tk) as [tk1 res]. destruct res as [|jn seq rep]; [apply no_mark_nil|].
    pose proof (on_job_no_mark o (upd_tasks s (set_nth (tasks s) t tk1)) t j seq) as H.
    destruct (on_job o (upd_tasks s (set_nth (tasks s) t tk1)) t j seq) as [[s2 out] c]. cbn [fst snd] in H.
    destruct rep; [|exact H]. destruct (nth_error (tasks s2) t); exact H.
  - apply inert_no_mark. destruct o; try contradiction; cbn [on_unsub upd_src multi];
      (destruct (multi s); [apply unsub_handles_inert|apply inert_nil]).
  - apply no_mark_one. exact I.
  - destruct o; try contradiction; apply no_mark_nil.
  - destruct o; try contradiction; apply no_mark_nil.
  - destruct o; try contradiction; apply no_mark_nil.
  - destruct o; try contradiction; apply no_mark_nil.
  - destruct o; try contradiction; apply no_mark_nil.
Qed.

Lemma relay_walk_keeps d de ls : forall out w w', no_mark out -> walk (relay_step d de ls) w out = Some w' ->
  w_src w' = w_src w /\ w_src_done w' = w_src_done w /\ w_unsub w' = w_unsub w /\ w_subscribed w' = w_subscribed w.
Proof.
  induction out as [|x r IH]; intros w w' Hn H; cbn [walk] in H.
  - inversion H. auto.
  - destruct (relay_step d de ls w x) as [w1|] eqn:E; [|discriminate].
    destruct (relay_step_src d de ls w x w1 E) as [_ K].
    pose proof (Hn x (or_introl eq_refl)) as Hx.
    destruct (IH w1 w' (fun y Hy => Hn y (or_intror Hy)) H) as (A1 & A2 & A3 & A4).
    destruct x; try contradiction; destruct K as (K1 & K2 & K3 & K4 & _); repeat split; congruence.
Qed.

Lemma accepted_label w l r :
  w_subscribed w = true ->
  map fst (w_src (w_label w (Some l))) ++
    accepted_src r (w_src_done (w_label w (Some l))) (w_unsub (w_label w (Some l))) =
  map fst (w_src w) ++ accepted_src (l :: r) (w_src_done w) (w_unsub w).
Proof.
  intros Hs. destruct l; try reflexivity.
  cbn [w_label accepted_src]. destruct (w_src_done w); [reflexivity|]. cbn [w_src w_src_done w_unsub].
  rewrite Hs. destruct (w_unsub w); cbn [negb andb app]; [reflexivity|].
  rewrite map_app, <- app_assoc. reflexivity.
Qed.

Lemma run_src_log o d de ls : relay_like o -> forall r done s w w',
  ls = done ++ r -> w_subscribed w = true ->
  walk (relay_step d de ls) w (trun_sys o s (length done) r) = Some w' ->
  map fst (w_src w') = map fst (w_src w) ++ accepted_src r (w_src_done w) (w_unsub w).
Proof.
  intros Ho. induction r as [|l r IH]; intros done s w w' E Hs H.
  - cbn in H. inversion H. cbn [accepted_src]. rewrite app_nil_r. reflexivity.
  - cbn [trun_sys] in H. pose proof (tstep_no_mark o s l Ho) as Hn.
    destruct (tstep o s l) as [s1 out]. cbn [snd] in Hn.
    cbn [walk relay_step] in H. rewrite E, nth_error_mid, <- E in H.
    rewrite walk_app in H.
    destruct (walk (relay_step d de ls) (w_label w (Some l)) out) as [w2|] eqn:E2; [|discriminate].
    destruct (relay_walk_keeps d de ls out _ w2 Hn E2) as (K1 & K2 & K3 & K4).
    assert (Hs1 : w_subscribed (w_label w (Some l)) = true).
    { destruct l; try exact Hs. cbn [w_label]. destruct (w_src_done w); exact Hs. }
    replace (S (length done)) with (length (done ++ [l])) in H by (rewrite app_length; cbn; lia).
    rewrite (IH (done ++ [l]) s1 w2 w' ltac:(rewrite <- app_assoc; exact E) ltac:(congruence) H).
    rewrite K1, K2, K3. apply accepted_label. exact Hs.
Qed.

Lemma map_fst_filter {A B} (f : A -> bool) (l : list (A * B)) :
  map fst (filter (fun p => f (fst p)) l) = filter f (map fst l).
Proof.
  induction l as [|[a b] l IH]; [reflexivity|]. cbn [filter map fst]. destruct (f a); cbn [map fst]; rewrite IH; reflexivity.
Qed.

Lemma relay_meets_spec o d de : relay_op o d de -> forall ls, relay_ok d de ls (run_timed o ls) = true.
Proof.
  intros Ho ls. unfold relay_ok, run_timed.
  apply (run_sim (relay_step d de) o (RR d de) (relay_step_sim o d de Ho) ls [] _ _ ls eq_refl).
  apply rr_init, Ho.
Qed.

Lemma relay_op_like o d de : relay_op o d de -> relay_like o.
Proof. destruct o; cbn; auto. Qed.

(* Order, for every label sequence: a delivery made by a poll of task t is the t-th relayed
   notification of the accepted input; hence, whenever the polls that deliver come in increasing
   task order (a FIFO executor), what is delivered is a sub-sequence of the input, in input order. *)
Theorem relay_order o d de ls : relay_op o d de ->
  (forall t e, In (t, e) (deliveries ls None (run_timed o ls)) -> nth_error (relayed de ls) t = Some e) /\
  (increasing (deliveries ls None (run_timed o ls)) ->
   subseq (map snd (deliveries ls None (run_timed o ls))) (relayed de ls)).
Proof.
  intros Ho. pose proof (relay_meets_spec o d de Ho ls) as M. unfold relay_ok in M.
  destruct (walk (relay_step d de ls) (w0 true) (run_timed o ls)) as [w'|] eqn:W; [|discriminate].
  assert (Hlog : map fst (task_events de w') = relayed de ls).
  { unfold relayed. unfold run_timed in W.
    pose proof (run_src_log o d de ls (relay_op_like o d de Ho) ls [] (tinit o) (w0 true) w' eq_refl eq_refl W) as L.
    cbn [w0 w_src w_src_done w_unsub map app] in L. rewrite <- L.
    unfold task_events. apply (map_fst_filter (keepb de)). }
  assert (Hall : forall t e, In (t, e) (deliveries ls None (run_timed o ls)) -> nth_error (relayed de ls) t = Some e).
  { intros t e Hin. destruct (relay_deliveries d de ls _ (w0 true) w' W t e Hin) as (a & Ha).
    rewrite <- Hlog. apply (map_nth_error fst _ _ Ha). }
  split; [exact Hall|]. intros Hinc. apply increasing_subseq; assumption.
Qed.

Theorem delay_order : forall d ls,
  (forall t e, In (t, e) (deliveries ls None (run_timed (TDelay d) ls)) -> nth_error (relayed true ls) t = Some e) /\
  (increasing (deliveries ls None (run_timed (TDelay d) ls)) ->
   subseq (map snd (deliveries ls None (run_timed (TDelay d) ls))) (relayed true ls)).
Proof. intros d ls. apply (relay_order (TDelay d) d true ls). split; reflexivity. Qed.

Theorem observe_on_order : forall ls,
  (forall t e, In (t, e) (deliveries ls None (run_timed TObserveOn ls)) -> nth_error (relayed false ls) t = Some e) /\
  (increasing (deliveries ls None (run_timed TObserveOn ls)) ->
   subseq (map snd (deliveries ls None (run_timed TObserveOn ls))) (relayed false ls)).
Proof. intros ls. apply (relay_order TObserveOn 0 false ls). split; reflexivity. Qed.

(* observe_on relays everything that was accepted *)
Lemma relayed_all ls : relayed false ls = accepted_src ls false false.
Proof. unfold relayed. induction (accepted_src ls false false) as [|e l IH]; [reflexivity|]. cbn. rewrite IH. reflexivity. Qed.

(* the increasing-order premise is needed: an executor that polls out of spawn order reorders the items *)
Example delay_reorders_under_unordered_polls :
  let ls := [LSrc (Next (VZ 1)); LRun 0; LSrc (Next (VZ 2)); LRun 1; LSrc (Next (VZ 3)); LRun 2; LAdv 5; LRun 0; LRun 2; LRun 1] in
  deliveries ls None (run_timed (TDelay 5) ls) = [(0%nat, Next (VZ 1)); (2%nat, Next (VZ 3)); (1%nat, Next (VZ 2))] /\
  relayed true ls = [Next (VZ 1); Next (VZ 2); Next (VZ 3)].
Proof. split; vm_compute; reflexivity. Qed.

(* ---------- summary ---------- *)
Check delay_meets_spec : forall d ls, relay_ok d true ls (run_timed (TDelay d) ls) = true.
Check observe_on_meets_spec : forall ls, relay_ok 0 false ls (run_timed TObserveOn ls) = true.
Check delay_subscription_meets_spec : forall d ls, passthru_ok d ls (run_timed (TDelaySubscription d) ls) = true.
Check subscribe_on_meets_spec : forall ls, passthru_ok 0 ls (run_timed TSubscribeOn ls) = true.
Check delay_fifo_complete : forall d vs, 0 < d ->
  touts (run_timed (TDelay d)
           (map (fun v => LSrc (Next v)) vs ++ LSrc Done ::
            map LRun (seq 0 (S (length vs))) ++ LAdv d :: map LRun (seq 0 (S (length vs)))))
  = map (fun v => TOut d (Next v)) vs ++ [TOut d Done].
Check delay_zero_fifo_complete : forall vs,
  touts (run_timed (TDelay 0) (map (fun v => LSrc (Next v)) vs ++ LSrc Done :: LAdv 0 :: map LRun (seq 0 (S (length vs)))))
  = map (fun v => TOut 0 (Next v)) vs ++ [TOut 0 Done].
Check delay_fifo_unarmed_silent : forall d vs, 0 < d ->
  touts (run_timed (TDelay d)
           (map (fun v => LSrc (Next v)) vs ++ LSrc Done :: LAdv d :: map LRun (seq 0 (S (length vs))))) = [].
Check observe_on_fifo_complete : forall vs,
  touts (run_timed TObserveOn (map (fun v => LSrc (Next v)) vs ++ LSrc Done :: map LRun (seq 0 (S (length vs)))))
  = map (fun v => TOut 0 (Next v)) vs ++ [TOut 0 Done].
Check delay_error_prefix : forall d vs e rest,
  touts (run_timed (TDelay d) (map (fun v => LSrc (Next v)) vs ++ LSrc (Err e) :: rest)) = [TOut 0 (Err e)].

Print Assumptions delay_meets_spec.
Print Assumptions observe_on_meets_spec.
Print Assumptions delay_subscription_meets_spec.
Print Assumptions subscribe_on_meets_spec.
Print Assumptions delay_fifo_complete.
Print Assumptions delay_zero_fifo_complete.
Print Assumptions delay_fifo_unarmed_silent.
Print Assumptions delay_fifo_as_stated_counterexample.
Print Assumptions observe_on_fifo_complete.
Print Assumptions delay_error_prefix.
Print Assumptions relay_order.
Print Assumptions delay_order.
Print Assumptions observe_on_order.
