(* C16: the back channel reaches every producer, and producers that consult it stop. *)
From RxModel Require Import Fin.
Local Open Scope nat_scope.

Definition has_term (l : list ev) : bool := existsb is_term l.

Lemma has_term_app a b : has_term (a ++ b) = has_term a || has_term b.
Proof. apply existsb_app. Qed.

(* ---------- every observer forwards its downstream's answer ---------- *)
Definition forwards (k : fin_kind) : bool :=
  match k with KFwd | KSlotOrFwd | KCellSlotOrFwd | KBoxFwd => true | _ => false end.

Lemma interp_forward k g : forwards k = true -> interp_kind k g true = true.
Proof. destruct k; cbn; try discriminate; intros _; try reflexivity; apply Bool.orb_true_r. Qed.

Lemma path_forward ks g : forallb forwards ks = true -> interp_path ks g true = true.
Proof.
  induction ks as [|k r IH]; cbn [forallb interp_path fold_right]; [reflexivity|]. intros H. apply andb_prop in H. destruct H as [Hk Hr].
  fold (interp_path r g true). rewrite (IH Hr). apply interp_forward, Hk.
Qed.

Lemma path_mono ks g d : forallb forwards ks = true -> interp_path ks g false = true -> interp_path ks g d = true.
Proof.
  intros Hf H. destruct d; [apply path_forward, Hf|exact H].
Qed.

Lemma kinds1_forward o : forallb forwards (kinds1 o) = true.
Proof. destruct o; reflexivity. Qed.

Lemma kinds2_forward o sd : forallb forwards (kinds2 o sd) = true.
Proof. destruct o, sd; reflexivity. Qed.

Theorem fin1_forward o st : fin1 o st true = true.
Proof. apply path_forward, kinds1_forward. Qed.

Theorem fin2_forward o s sd : fin2 o s sd true = true.
Proof. apply path_forward, kinds2_forward. Qed.

Theorem chain_fin_forward : forall ch, chain_fin ch true = true.
Proof. induction ch as [|nd r IH]; [reflexivity|]. cbn. rewrite IH. apply fin1_forward. Qed.

Lemma chain_fin_mono ch p : chain_fin ch false = true -> chain_fin ch p = true.
Proof. destruct p; [intros _; apply chain_fin_forward|auto]. Qed.

(* ---------- an operator that ends the stream early says so afterwards ---------- *)
Lemma cut1 o st e st' out :
  is_term e = false -> step1 o st e = (st', out) -> has_term out = true -> fin1 o st' false = true.
Proof.
  intros He Hs Ht. destruct e as [v|x|]; try discriminate. clear He.
  destruct o; destruct st; cbn in Hs;
    repeat match type of Hs with
           | context [if ?c then _ else _] => destruct c
           | context [match ?x with _ => _ end] => destruct x
           end;
    inversion Hs; subst; cbn in Ht; try discriminate; try reflexivity.
  unfold emit_buf in Ht. destruct (q ++ [v]); discriminate.
Qed.

(* ---------- once gone, gone for good ---------- *)
Definition is_cutter (o : op1) : bool := match o with OTake _ | OTakeWhile _ _ | OContains _ => true | _ => false end.

Definition cut_node (nd : node) : bool := is_cutter (n_op nd) && gone1 (n_st nd).

Lemma fin1_false o st : fin1 o st false = is_cutter o && gone1 st.
Proof. destruct o; cbn; rewrite ?Bool.orb_false_r; reflexivity. Qed.

Lemma chain_fin_cut : forall ch, chain_fin ch false = existsb cut_node ch.
Proof.
  induction ch as [|nd r IH]; [reflexivity|]. cbn [chain_fin existsb]. unfold node_fin.
  destruct (chain_fin r false) eqn:E.
  - rewrite fin1_forward, <- IH. apply eq_sym, Bool.orb_true_r.
  - rewrite fin1_false, <- IH, Bool.orb_false_r. reflexivity.
Qed.

Lemma gone_step o st e : is_cutter o = true -> gone1 st = true -> gone1 (fst (step1 o st e)) = true.
Proof.
  intros Hc Hg. destruct o; try discriminate; destruct st; cbn in *; try discriminate; try assumption;
    repeat match goal with
           | |- context [if ?c then _ else _] => destruct c; cbn
           | |- context [match ?x with _ => _ end] => destruct x; cbn
           end; try assumption; try reflexivity; try discriminate.
Qed.

Definition no_term (l : list ev) : bool := negb (has_term l).

Lemma feed_op : forall evs nd, n_op (fst (feed nd evs)) = n_op nd.
Proof.
  induction evs as [|e r IH]; intros nd; [reflexivity|]. cbn [feed]. destruct (n_live nd); [|reflexivity].
  destruct (step1 (n_op nd) (n_st nd) e) as [st' out].
  specialize (IH {| n_op := n_op nd; n_st := st'; n_live := negb (is_term e) |}).
  destruct (feed _ r) as [nd'' out']. exact IH.
Qed.

Lemma feed_gone : forall evs nd, cut_node nd = true -> cut_node (fst (feed nd evs)) = true.
Proof.
  induction evs as [|e r IH]; intros nd H; [exact H|]. cbn [feed]. destruct (n_live nd); [|exact H].
  pose proof (gone_step (n_op nd) (n_st nd) e) as G.
  destruct (step1 (n_op nd) (n_st nd) e) as [st' out]. cbn [fst] in G.
  unfold cut_node in H. apply andb_prop in H. destruct H as [Hc Hg].
  specialize (IH {| n_op := n_op nd; n_st := st'; n_live := negb (is_term e) |}).
  destruct (feed _ r) as [nd'' out']. apply IH. unfold cut_node. cbn. rewrite Hc, (G Hc Hg). reflexivity.
Qed.

Lemma feed_cut : forall evs nd,
  has_term evs = false -> has_term (snd (feed nd evs)) = true -> cut_node (fst (feed nd evs)) = true.
Proof.
  induction evs as [|e r IH]; intros nd Hn Ht; [discriminate|]. cbn [feed] in *. cbn [has_term existsb] in Hn.
  apply Bool.orb_false_iff in Hn. destruct Hn as [He Hr].
  destruct (n_live nd); [|discriminate].
  pose proof (cut1 (n_op nd) (n_st nd) e) as C.
  destruct (step1 (n_op nd) (n_st nd) e) as [st' out].
  set (nd' := {| n_op := n_op nd; n_st := st'; n_live := negb (is_term e) |}) in *.
  pose proof (feed_gone r nd') as G. specialize (IH nd' Hr).
  destruct (feed nd' r) as [nd'' out']. cbn [fst snd] in *.
  rewrite has_term_app in Ht. destruct (has_term out) eqn:Eo.
  - apply G. unfold cut_node. rewrite <- fin1_false. exact (C st' out He eq_refl Eo).
  - apply IH. exact Ht.
Qed.

Lemma push_stable : forall ch evs, existsb cut_node ch = true -> existsb cut_node (fst (push ch evs)) = true.
Proof.
  induction ch as [|nd rest IH]; intros evs H; [discriminate|]. cbn [push].
  pose proof (feed_gone evs nd) as G. destruct (feed nd evs) as [nd' out]. specialize (IH out).
  destruct (push rest out) as [rest' out']. cbn [fst existsb] in *.
  apply Bool.orb_true_iff in H. destruct H as [H|H]; [rewrite (G H); reflexivity|rewrite (IH H); apply Bool.orb_true_r].
Qed.

Lemma push_cut : forall ch evs,
  has_term evs = false -> has_term (snd (push ch evs)) = true -> existsb cut_node (fst (push ch evs)) = true.
Proof.
  induction ch as [|nd rest IH]; intros evs Hn Ht; [cbn [push snd] in Ht; congruence|]. cbn [push] in *.
  pose proof (feed_cut evs nd Hn) as C. destruct (feed nd evs) as [nd' out]. specialize (IH out).
  destruct (push rest out) as [rest' out']. cbn [fst snd existsb] in *.
  destruct (has_term out) eqn:Eo.
  - rewrite (C eq_refl). reflexivity.
  - rewrite (IH eq_refl Ht). apply Bool.orb_true_r.
Qed.

(* the statement for chains: whatever operators sit between, an early end anywhere in the chain
   is visible at its source-side end, and stays visible *)
Theorem chain_cut_reaches_source ch evs :
  has_term evs = false -> has_term (snd (push ch evs)) = true -> chain_fin (fst (push ch evs)) false = true.
Proof. intros Hn Ht. rewrite chain_fin_cut. apply push_cut; assumption. Qed.

Theorem chain_fin_stable ch evs : chain_fin ch false = true -> chain_fin (fst (push ch evs)) false = true.
Proof. rewrite !chain_fin_cut. apply push_stable. Qed.

(* ---------- two-input operators ---------- *)
Lemma slot_term_alive s e s' out : slot_term s e = (s', out) -> (out <> [] -> alive s' = false) /\ (alive s = false -> alive s' = false).
Proof. unfold slot_term. destruct (alive s) eqn:Ea; intros H; inversion H; subst; cbn; split; auto; congruence. Qed.

Lemma step2_term_closes o s sd e s' mid :
  step2 o s sd e = (s', mid) -> has_term mid = true -> alive s' = false.
Proof.
  intros Hs Ht.
  destruct o; cbn in Hs; unfold complete_second, slot_next, emit_data in Hs;
    repeat match type of Hs with
           | context [if ?c then _ else _] => destruct c eqn:?
           | context [match ?x with _ => _ end] => destruct x eqn:?
           end;
    try (inversion Hs; subst; cbn in *; try discriminate; try reflexivity; try assumption; fail);
    try (apply slot_term_alive in Hs; destruct Hs as [H1 _]; apply H1; intro; subst; discriminate).
Qed.

Lemma step2_alive_stays o s sd e : alive s = false -> alive (fst (step2 o s sd e)) = false.
Proof.
  intros Ha.
  destruct o; cbn; unfold complete_second, slot_next, slot_term, emit_data; rewrite ?Ha;
    repeat match goal with
           | |- context [if ?c then _ else _] => destruct c eqn:?
           | |- context [match ?x with _ => _ end] => destruct x eqn:?
           end; cbn; try assumption; try reflexivity; try congruence.
Qed.

Lemma fin2_spec o s sd d : fin2 o s sd d = negb (alive s) || d.
Proof. unfold fin2. destruct o, sd; cbn; reflexivity. Qed.

(* ---------- sinks ---------- *)
Lemma sink_fin_spec k :
  sink_fin k = match sk_two k with
               | None => chain_fin (sk_ch k) false
               | Some (o, s, sd) => negb (alive s) || chain_fin (sk_ch k) false
               end.
Proof. unfold sink_fin. destruct (sk_two k) as [[[o s] sd]|]; [apply fin2_spec|reflexivity]. Qed.

(* an early end of the stream, wherever it happens behind the producer's observer, is visible to
   the producer at its next look *)
Theorem sink_cut k sd e :
  (sk_two k = None -> is_term e = false) ->
  has_term (snd (sink_put k sd e)) = true -> sink_fin (fst (sink_put k sd e)) = true.
Proof.
  intros He Ht. unfold sink_put in *. destruct (sk_two k) as [[[o s] me]|] eqn:E2.
  - pose proof (step2_term_closes o s sd e) as C. destruct (step2 o s sd e) as [s' mid].
    pose proof (chain_cut_reaches_source (sk_ch k) mid) as P. destruct (push (sk_ch k) mid) as [ch' out].
    cbn [fst snd] in *. rewrite sink_fin_spec. cbn [sk_two sk_ch].
    destruct (has_term mid) eqn:Em.
    + rewrite (C s' mid eq_refl Em). reflexivity.
    + rewrite (P eq_refl Ht). apply Bool.orb_true_r.
  - pose proof (chain_cut_reaches_source (sk_ch k) [e]) as P. destruct (push (sk_ch k) [e]) as [ch' out].
    cbn [fst snd] in *. rewrite sink_fin_spec. cbn [sk_two sk_ch]. apply P; [|exact Ht].
    cbn. rewrite (He eq_refl). reflexivity.
Qed.

(* ... and stays visible whatever arrives afterwards, from either input *)
Theorem sink_fin_stable k sd e : sink_fin k = true -> sink_fin (fst (sink_put k sd e)) = true.
Proof.
  rewrite sink_fin_spec. unfold sink_put. destruct (sk_two k) as [[[o s] me]|] eqn:E2.
  - pose proof (step2_alive_stays o s sd e) as A. destruct (step2 o s sd e) as [s' mid].
    pose proof (chain_fin_stable (sk_ch k) mid) as P. destruct (push (sk_ch k) mid) as [ch' out].
    cbn [fst snd] in *. rewrite sink_fin_spec. cbn [sk_two sk_ch]. intros H.
    apply Bool.orb_true_iff in H. destruct H as [H|H].
    + apply Bool.negb_true_iff in H. rewrite (A H). reflexivity.
    + rewrite (P H). apply Bool.orb_true_r.
  - pose proof (chain_fin_stable (sk_ch k) [e]) as P. destruct (push (sk_ch k) [e]) as [ch' out].
    cbn [fst snd]. rewrite sink_fin_spec. cbn [sk_two sk_ch]. exact P.
Qed.

Lemma prod_put_fin k e : sink_fin (fst (prod_put k e)) = sink_fin (fst (sink_put k (sink_side k) e)) \/ fst (prod_put k e) = k.
Proof.
  unfold prod_put. destruct (sk_live k); [|right; reflexivity]. left.
  destruct (sink_put k (sink_side k) e) as [k' out]. cbn [fst]. rewrite !sink_fin_spec. reflexivity.
Qed.

Lemma prod_put_cut k v : has_term (snd (prod_put k (Next v))) = true -> sink_fin (fst (prod_put k (Next v))) = true.
Proof.
  unfold prod_put. destruct (sk_live k); [|discriminate].
  pose proof (sink_cut k (sink_side k) (Next v) (fun _ => eq_refl)) as C.
  destruct (sink_put k (sink_side k) (Next v)) as [k' out]. cbn [fst snd] in *. intros H.
  specialize (C H). rewrite sink_fin_spec in *. exact C.
Qed.

Lemma prod_put_stable k e : sink_fin k = true -> sink_fin (fst (prod_put k e)) = true.
Proof.
  intros H. destruct (prod_put_fin k e) as [E|E]; [rewrite E; apply sink_fin_stable, H|rewrite E; exact H].
Qed.

(* ---------- from_iter ---------- *)
Theorem iter_no_pull_when_finished k items : sink_fin k = true -> iter_loop k items = (k, 0, []).
Proof. intros H. destruct items; cbn; [reflexivity|rewrite H; reflexivity]. Qed.

(* the item that ended the stream is the last one pulled, however long the iterator is *)
Theorem iter_stops_at_cut k v rest :
  sink_fin k = false -> has_term (snd (prod_put k (Next v))) = true ->
  iter_loop k (v :: rest) = (fst (prod_put k (Next v)), 1, snd (prod_put k (Next v))).
Proof.
  intros Hf Ht. cbn [iter_loop]. rewrite Hf. pose proof (prod_put_cut k v Ht) as C.
  destruct (prod_put k (Next v)) as [k1 out]. cbn [fst snd] in *.
  rewrite (iter_no_pull_when_finished k1 rest C). rewrite app_nil_r. reflexivity.
Qed.

Definition pulls_of (r : sink * nat * list ev) : nat := snd (fst r).

Theorem iter_pulls_bounded : forall items k,
  pulls_of (iter_loop k items) <= length items /\
  (pulls_of (iter_loop k items) < length items -> sink_fin (fst (fst (iter_loop k items))) = true).
Proof.
  induction items as [|v r IH]; intros k; [cbn; split; [lia|lia]|].
  cbn [iter_loop]. destruct (sink_fin k) eqn:Ef; [cbn; split; [lia|auto]|].
  destruct (prod_put k (Next v)) as [k1 out]. specialize (IH k1).
  destruct (iter_loop k1 r) as [[k2 p] out2]. unfold pulls_of in *. cbn [fst snd length] in *.
  destruct IH as [I1 I2]. split; [lia|]. intros H. apply I2. lia.
Qed.

(* ---------- interval ---------- *)
Theorem interval_retires_when_finished s :
  iv_retired s = false -> sink_fin (iv_sink s) = true ->
  iv_retired (fst (iv_tick s)) = true /\ snd (iv_tick s) = [].
Proof. intros Hr Hf. unfold iv_tick. rewrite Hr, Hf. split; reflexivity. Qed.

Lemma retired_stays s : iv_retired s = true -> iv_tick s = (s, []).
Proof. intros H. unfold iv_tick. rewrite H. reflexivity. Qed.

Definition ticks (sts : list rstim) : nat := length (filter (fun x => match x with RTick => true | _ => false end) sts).

Lemma iv_run_finished : forall sts s sd ol,
  sink_fin (iv_sink s) = true ->
  (iv_retired s = true \/ 0 < ticks sts -> iv_retired (fst (iv_run s sd ol sts)) = true) /\
  sink_fin (iv_sink (fst (iv_run s sd ol sts))) = true.
Proof.
  induction sts as [|st r IH]; intros s sd ol Hf.
  - cbn. split; [intros [H|H]; [exact H|inversion H]|exact Hf].
  - destruct st as [e|]; cbn [iv_run].
    + destruct ol; [|exact (IH s sd false Hf)].
      pose proof (sink_fin_stable (iv_sink s) sd e Hf) as St. destruct (sink_put (iv_sink s) sd e) as [k1 o1]. cbn [fst] in St.
      specialize (IH {| iv_sink := k1; iv_seq := iv_seq s; iv_retired := iv_retired s |} sd (negb (is_term e)) St).
      destruct (iv_run _ sd _ r) as [s2 o2]. cbn [fst] in *. exact IH.
    + assert (T : iv_retired (fst (iv_tick s)) = true /\ sink_fin (iv_sink (fst (iv_tick s))) = true).
      { unfold iv_tick. destruct (iv_retired s) eqn:Er; [split; assumption|]. rewrite Hf. cbn. split; [reflexivity|exact Hf]. }
      destruct (iv_tick s) as [s1 o1]. cbn [fst] in T. destruct T as [T1 T2].
      specialize (IH s1 sd ol T2). destruct (iv_run s1 sd ol r) as [s2 o2]. cbn [fst] in *.
      destruct IH as [I1 I2]. split; [intros _; apply I1; left; exact T1|exact I2].
Qed.

(* within one period: after the tick whose item ended the stream, the very next tick retires the
   task — whatever the other input does in between — and it stays retired *)
Theorem interval_retires_within_one_period s sd ol sts :
  iv_retired s = false -> has_term (snd (iv_tick s)) = true -> 0 < ticks sts ->
  iv_retired (fst (iv_run (fst (iv_tick s)) sd ol sts)) = true.
Proof.
  intros Hr Ht Hn. unfold iv_tick in *. rewrite Hr in *. destruct (sink_fin (iv_sink s)) eqn:Ef; [discriminate|].
  pose proof (prod_put_cut (iv_sink s) (VZ (Z.of_nat (iv_seq s)))) as C.
  destruct (prod_put (iv_sink s) (Next (VZ (Z.of_nat (iv_seq s))))) as [k1 out]. cbn [fst snd] in *.
  apply (iv_run_finished sts {| iv_sink := k1; iv_seq := S (iv_seq s); iv_retired := false |} sd ol (C Ht)). right. exact Hn.
Qed.

(* ---------- from_stream ---------- *)
Theorem stream_stops_when_finished k ready ended :
  sink_fin k = true ->
  let '(_, pulls, _, finished) := stream_poll k ready ended in pulls = 0 /\ finished = true.
Proof.
  intros H. unfold stream_poll. rewrite (iter_no_pull_when_finished k ready H). rewrite H. cbn [orb].
  destruct (prod_put k Done) as [k2 out2]. split; reflexivity.
Qed.

Theorem stream_poll_bounded k ready ended :
  let '(k1, pulls, _, finished) := stream_poll k ready ended in
  pulls <= length ready /\ (pulls < length ready -> finished = true).
Proof.
  unfold stream_poll. pose proof (iter_pulls_bounded ready k) as B. unfold pulls_of in B.
  destruct (iter_loop k ready) as [[k1 pulls] out]. cbn [fst snd] in B. destruct B as [B1 B2].
  destruct (sink_fin k1) eqn:Ef; cbn [orb].
  - destruct (prod_put k1 Done) as [k2 out2]. split; [exact B1|reflexivity].
  - destruct (Nat.eqb_spec pulls (length ready)) as [E|E]; cbn [andb].
    + destruct ended; [destruct (prod_put k1 Done) as [k2 out2]|]; (split; [exact B1|lia]).
    + split; [exact B1|]. intros H. specialize (B2 H). congruence.
Qed.
