(* The default methods of ObservableExt, as translated from /repo/src, build the compositions the model assumes. *)
From RxModel Require Import BodyAbsExt.
From RxGen Require Import Bodies.
Open Scope string_scope.
Open Scope list_scope.

Lemma derived_ok : derived_agrees bodies.
Proof. intros u. destruct u; cbn [derived_call]; try exact I; vm_compute; reflexivity. Qed.

Lemma flatten_family_ok : flatten_family_agrees bodies.
Proof. intros a threads. destruct a, threads; vm_compute; reflexivity. Qed.
