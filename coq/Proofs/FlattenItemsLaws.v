(* Flattening delivers every item of every inner observable exactly once, in the inner
   observable's own order, and (concat) one inner observable at a time in the outer order. *)
From RxModel Require Import Flatten.
From RxSpec Require Import FlattenSpec FlattenItems.
From RxProofs Require Import ValEq FlattenLaws.

Local Open Scope nat_scope.
Local Arguments Nat.ltb : simpl never.
Local Arguments Nat.leb : simpl never.
Local Arguments Nat.eqb : simpl never.

(* ---------- the walk as a fold ---------- *)

Fixpoint items_run (sts : list fstim) (w : istate) (o : list fout) : option istate :=
  match o with
  | [] => Some w
  | x :: r => match items_step sts w x with Some w' => items_run sts w' r | None => None end
  end.

Lemma items_run_app sts a : forall w b,
  items_run sts w (a ++ b) = match items_run sts w a with Some w' => items_run sts w' b | None => None end.
Proof.
  induction a as [|x a IH]; intros w b; [reflexivity|]. cbn [app items_run].
  destruct (items_step sts w x) as [w'|]; [apply IH|reflexivity].
Qed.

Lemma items_walk_app sts a : forall w b,
  items_walk sts w (a ++ b) = match items_run sts w a with Some w' => items_walk sts w' b | None => false end.
Proof.
  induction a as [|x a IH]; intros w b; [reflexivity|]. cbn [app items_run items_walk].
  destruct (items_step sts w x) as [w'|]; [apply IH|reflexivity].
Qed.

(* ---------- lists ---------- *)

Lemma filter_absorb {A} (f g : A -> bool) l :
  (forall x, In x l -> f x = true -> g x = true) -> filter f (filter g l) = filter f l.
Proof.
  induction l as [|x l IH]; intros H; [reflexivity|]. cbn [filter].
  assert (IH' : filter f (filter g l) = filter f l) by (apply IH; intros y Hy; apply H; right; exact Hy).
  destruct (g x) eqn:Eg; cbn [filter].
  - rewrite IH'. reflexivity.
  - destruct (f x) eqn:Ef; [|exact IH']. rewrite (H x (or_introl eq_refl) Ef) in Eg. discriminate.
Qed.

Lemma filter_comm {A} (f g : A -> bool) l : filter f (filter g l) = filter g (filter f l).
Proof.
  induction l as [|x l IH]; [reflexivity|]. cbn [filter].
  destruct (g x) eqn:Eg, (f x) eqn:Ef; cbn [filter]; rewrite ?Eg, ?Ef, IH; reflexivity.
Qed.

Lemma filter_andb {A} (f g : A -> bool) l : filter (fun x => f x && g x) l = filter f (filter g l).
Proof.
  induction l as [|x l IH]; [reflexivity|]. cbn [filter].
  destruct (g x) eqn:Eg, (f x) eqn:Ef; cbn [filter andb]; rewrite ?Ef, IH; reflexivity.
Qed.

Lemma nth_error_app_keep {A} (l r : list A) k x : nth_error l k = Some x -> nth_error (l ++ r) k = Some x.
Proof.
  intros H. rewrite nth_error_app1; [exact H|]. apply nth_error_Some. rewrite H. discriminate.
Qed.

Lemma nth_error_app_last {A} (l : list A) x : nth_error (l ++ [x]) (length l) = Some x.
Proof. rewrite nth_error_app2 by lia. rewrite Nat.sub_diag. reflexivity. Qed.

(* ---------- the relation between the walking state and the operator's state ---------- *)

(* subscriptions of subjects that have not terminated *)
Definition nd (hd : list nat) (p : nat * nat) : bool := negb (memn (fst p) hd).

(* the waiting inner observables are exactly those that arrived and were not subscribed *)
Fixpoint qconsec (lo hi : nat) (q : list (nat * iobs)) : Prop :=
  match q with
  | [] => lo = hi
  | (k, _) :: r => k = lo /\ qconsec (S lo) hi r
  end.

Record Rel (w : istate) (s : fstate) : Prop := {
  r_alive : f_alive s = true;
  r_fin : i_finished w = false;
  r_unsub : i_unsub w = false;
  r_hd : i_hot_done w = f_hot_done s;
  r_next : length (i_arrived w) = f_next s;
  r_queue : forall k i, In (k, i) (f_queue s) -> nth_error (i_arrived w) k = Some i;
  r_fact : forall id k, In (id, k) (f_active s) -> nth_error (i_arrived w) k = Some (IHot id);
  r_wact : forall id k, In (id, k) (i_active w) -> nth_error (i_arrived w) k = Some (IHot id);
  r_act : filter (nd (i_hot_done w)) (i_active w) = filter (nd (i_hot_done w)) (f_active s)
}.

Definition QC (w : istate) (s : fstate) : Prop := qconsec (i_nsub w) (f_next s) (f_queue s).

(* between two pieces of a segment *)
Definition After (w : istate) (s : fstate) : Prop :=
  i_expect w = [] /\ (if f_alive s then Rel w s /\ QC w s else i_finished w = true).

(* what a piece of a segment leaves alone in the walking state *)
Definition Frame (w w' : istate) : Prop :=
  i_mark w' = i_mark w /\ i_arrived w' = i_arrived w /\ i_outer_live w' = i_outer_live w /\
  i_unsub w' = i_unsub w /\ i_hot_done w' = i_hot_done w.

Lemma frame_refl w : Frame w w.
Proof. repeat split. Qed.

Lemma frame_trans a b c : Frame a b -> Frame b c -> Frame a c.
Proof. intros (A1 & A2 & A3 & A4 & A5) (B1 & B2 & B3 & B4 & B5). repeat split; congruence. Qed.

Definition Piece (sts : list fstim) (w : istate) (o : list fout) (s' : fstate) : Prop :=
  exists w', items_run sts w o = Some w' /\ Frame w w' /\ After w' s'.

Lemma piece_seq sts w o1 s1 o2 s2 :
  Piece sts w o1 s1 ->
  (forall w1, Frame w w1 -> After w1 s1 -> Piece sts w1 o2 s2) ->
  Piece sts w (o1 ++ o2) s2.
Proof.
  intros (w1 & E1 & F1 & A1) H. destruct (H w1 F1 A1) as (w2 & E2 & F2 & A2).
  exists w2. rewrite items_run_app, E1. split; [exact E2|]. split; [eapply frame_trans; eassumption|exact A2].
Qed.

Lemma piece_cons sts w o w1 out s' :
  items_step sts w o = Some w1 -> Frame w w1 -> Piece sts w1 out s' -> Piece sts w (o :: out) s'.
Proof.
  intros E F (w2 & E2 & F2 & A2). exists w2. cbn [items_run]. rewrite E.
  split; [exact E2|]. split; [eapply frame_trans; eassumption|exact A2].
Qed.

Lemma piece_nil sts w s : After w s -> Piece sts w [] s.
Proof. intros A. exists w. split; [reflexivity|]. split; [apply frame_refl|exact A]. Qed.

Lemma Rel_model_ext w s s' :
  f_alive s' = f_alive s -> f_hot_done s' = f_hot_done s -> f_next s' = f_next s ->
  f_queue s' = f_queue s -> f_active s' = f_active s -> Rel w s -> Rel w s'.
Proof.
  intros E1 E2 E3 E4 E5 [R1 R2 R3 R4 R5 R6 R7 R8 R9].
  constructor; rewrite ?E1, ?E2, ?E3, ?E4, ?E5; auto.
Qed.

Lemma Rel_walker_ext w w' s :
  i_finished w' = i_finished w -> i_unsub w' = i_unsub w -> i_hot_done w' = i_hot_done w ->
  i_arrived w' = i_arrived w -> i_active w' = i_active w -> Rel w s -> Rel w' s.
Proof.
  intros E1 E2 E3 E4 E5 [R1 R2 R3 R4 R5 R6 R7 R8 R9].
  constructor; rewrite ?E1, ?E2, ?E3, ?E4, ?E5; auto.
Qed.

Lemma Rel_expect w s x : Rel w s -> Rel (set_expect w x) s.
Proof. apply Rel_walker_ext; reflexivity. Qed.

(* ---------- an inner observable completes ---------- *)

(* the completion of the k-th inner observable is owed (synchronous: the script said Done)
   or possible (hot: its subject has terminated) *)
Definition DoneExp (w : istate) (k : nat) : Prop :=
  (i_expect w = [XDone k] /\ exists sc, nth_error (i_arrived w) k = Some (ICold sc)) \/
  (i_expect w = [] /\ exists id, nth_error (i_arrived w) k = Some (IHot id) /\ memn id (i_hot_done w) = true).

Lemma done_obs sts w s k :
  Rel w s -> DoneExp w k ->
  exists w1, items_step sts w (FInnerDone k) = Some w1 /\ Frame w w1 /\ i_expect w1 = [] /\
             i_nsub w1 = i_nsub w /\ Rel w1 s.
Proof.
  intros R D.
  assert (Hact : filter (nd (i_hot_done w)) (filter (fun p => negb (Nat.eqb (snd p) k)) (i_active w))
                 = filter (nd (i_hot_done w)) (i_active w)).
  { apply filter_absorb. intros [id' k'] Hin Hnd. cbn [snd].
    destruct (Nat.eqb_spec k' k) as [->|Hne]; [|reflexivity]. exfalso.
    pose proof (r_wact _ _ R _ _ Hin) as Hn.
    destruct D as [[_ [sc Hs]]|[_ [id [Hs Hm]]]]; rewrite Hs in Hn; [discriminate|].
    injection Hn as <-. unfold nd in Hnd. cbn [fst] in Hnd. rewrite Hm in Hnd. discriminate. }
  assert (HR : forall w1, i_finished w1 = i_finished w -> i_unsub w1 = i_unsub w -> i_hot_done w1 = i_hot_done w ->
                          i_arrived w1 = i_arrived w ->
                          i_active w1 = filter (fun p => negb (Nat.eqb (snd p) k)) (i_active w) -> Rel w1 s).
  { intros w1 E1 E2 E3 E4 E5. destruct R as [R1 R2 R3 R4 R5 R6 R7 R8 R9].
    constructor; rewrite ?E1, ?E2, ?E3, ?E4, ?E5; auto.
    - intros id0 k0 Hin. apply filter_In in Hin. apply R8, Hin.
    - rewrite Hact. exact R9. }
  destruct D as [[He [sc Hs]]|[He [id [Hs Hm]]]].
  - exists (observe (set_expect w []) (FInnerDone k)). unfold items_step. rewrite He. cbn [exp_match].
    rewrite Nat.eqb_refl. split; [reflexivity|]. split; [repeat split|]. split; [reflexivity|]. split; [reflexivity|].
    apply HR; reflexivity.
  - exists (observe w (FInnerDone k)). unfold items_step. rewrite He, Hs.
    split; [reflexivity|]. split; [repeat split|]. split; [exact He|]. split; [reflexivity|].
    apply HR; reflexivity.
Qed.

Definition StarterOk (sts : list fstim) (fuel : nat) (starter : fstate -> nat -> iobs -> fstate * list fout) : Prop :=
  forall w s k i,
    Rel w s -> i_expect w = [] -> k = i_nsub w -> nth_error (i_arrived w) k = Some i ->
    qconsec (S k) (f_next s) (f_queue s) -> length (f_queue s) < fuel ->
    Piece sts w (snd (starter s k i)) (fst (starter s k i)).

Definition OnDoneOk (sts : list fstim) (fuel : nat) (k : nat) (on_done : fstate -> fstate * list fout) : Prop :=
  forall w s, Rel w s -> QC w s -> DoneExp w k -> length (f_queue s) <= fuel ->
              Piece sts w (snd (on_done s)) (fst (on_done s)).

Lemma term_step sts w e : i_expect w = [] -> items_step sts w (FTerm e) = Some (set_finished w).
Proof. intros He. unfold items_step. rewrite He. reflexivity. Qed.

Lemma after_dead w s : i_expect w = [] -> f_alive s = false -> i_finished w = true -> After w s.
Proof. intros He Ha Hf. split; [exact He|]. rewrite Ha. exact Hf. Qed.

Lemma after_live w s : i_expect w = [] -> Rel w s -> QC w s -> After w s.
Proof. intros He R Q. split; [exact He|]. rewrite (r_alive _ _ R). split; assumption. Qed.

Lemma done_with_piece sts fuel starter :
  StarterOk sts fuel starter -> forall k, OnDoneOk sts fuel k (fun s => done_with starter s k).
Proof.
  intros HS k w s R Q D Hf. unfold done_with. rewrite (r_alive _ _ R).
  destruct (done_obs sts w s k R D) as (w1 & E1 & F1 & He1 & Hn1 & R1).
  destruct (f_queue s) as [|[k' i'] q] eqn:Eq.
  - (* the slot is released *)
    unfold release_slot. cbn [f_subscribed upd_subscribed f_outside_completed].
    set (s' := upd_subscribed s (pred (f_subscribed s))).
    assert (R1' : Rel w1 s') by (revert R1; apply Rel_model_ext; reflexivity).
    assert (Q1 : QC w1 s') by (unfold QC in *; rewrite Hn1; cbn [s' upd_subscribed f_next f_queue]; exact Q).
    destruct (Nat.eqb (pred (f_subscribed s)) 0 && f_outside_completed s); cbn [fst snd].
    + apply (piece_cons sts w _ w1); [exact E1|exact F1|].
      apply (piece_cons sts w1 _ (set_finished w1)); [apply term_step, He1|repeat split|].
      apply piece_nil. apply after_dead; [exact He1|reflexivity|reflexivity].
    + apply (piece_cons sts w _ w1); [exact E1|exact F1|]. apply piece_nil. apply after_live; assumption.
  - (* the slot is handed to the oldest waiting inner observable *)
    unfold QC in Q. rewrite Eq in Q. cbn [qconsec] in Q. destruct Q as [Hk' Q].
    assert (R1' : Rel w1 (upd_queue s q)).
    { destruct R1 as [A1 A2 A3 A4 A5 A6 A7 A8 A9]. constructor; auto.
      cbn [upd_queue f_queue]. intros k0 i0 Hin. apply A6. rewrite Eq. right. exact Hin. }
    assert (Hn : nth_error (i_arrived w1) k' = Some i').
    { apply (r_queue _ _ R1). rewrite Eq. left. reflexivity. }
    assert (Hl : length (f_queue (upd_queue s q)) < fuel) by (cbn [upd_queue f_queue]; cbn [length] in Hf; lia).
    assert (Hq : qconsec (S k') (f_next (upd_queue s q)) (f_queue (upd_queue s q))).
    { cbn [upd_queue f_queue f_next]. rewrite Hk'. exact Q. }
    assert (Hk1 : k' = i_nsub w1) by congruence.
    pose proof (HS w1 (upd_queue s q) k' i' R1' He1 Hk1 Hn Hq Hl) as P.
    destruct (starter (upd_queue s q) k' i') as [s1 o1]. cbn [fst snd] in *.
    apply (piece_cons sts w _ w1); [exact E1|exact F1|exact P].
Qed.

(* ---------- a synchronous inner observable pushes its script ---------- *)

Lemma cold_expect_next k v r : cold_expect k (Next v :: r) = XItem k v :: cold_expect k r.
Proof. reflexivity. Qed.

Lemma item_step sts w k v xs :
  i_expect w = XItem k v :: xs -> items_step sts w (FItem k v) = Some (set_expect w xs).
Proof.
  intros He. unfold items_step. rewrite He. cbn [exp_match]. rewrite Nat.eqb_refl, val_eqb_refl. reflexivity.
Qed.

Lemma cold_go_piece sts fuel k on_done :
  OnDoneOk sts fuel k on_done ->
  forall sc w s,
    Rel w s -> QC w s -> i_expect w = cold_expect k sc ->
    (exists sc0, nth_error (i_arrived w) k = Some (ICold sc0)) -> length (f_queue s) <= fuel ->
    Piece sts w (snd (cold_go on_done k s sc)) (fst (cold_go on_done k s sc)).
Proof.
  intros HD sc. induction sc as [|e r IH]; intros w s R Q He Hc Hf.
  - cbn [cold_go fst snd]. apply piece_nil. apply after_live; assumption.
  - destruct e as [v|x|]; cbn [cold_go].
    + unfold inner_next. rewrite (r_alive _ _ R). rewrite cold_expect_next in He.
      assert (P : Piece sts (set_expect w (cold_expect k r)) (snd (cold_go on_done k s r)) (fst (cold_go on_done k s r))).
      { apply IH; auto. apply Rel_expect, R. }
      destruct (cold_go on_done k s r) as [s2 o2]. cbn [fst snd app] in *.
      apply (piece_cons sts w _ (set_expect w (cold_expect k r))); [apply item_step, He|repeat split|exact P].
    + unfold inner_error. rewrite (r_alive _ _ R). cbn [fst snd].
      assert (E : items_step sts w (FTerm (Err x)) = Some (set_finished (set_expect w []))).
      { unfold items_step. rewrite He. cbn. rewrite Z.eqb_refl. reflexivity. }
      apply (piece_cons sts w _ _ _ _ E); [repeat split|]. apply piece_nil. apply after_dead; reflexivity.
    + apply HD; auto. left. split; [exact He|exact Hc].
Qed.

(* ---------- subscribing ---------- *)

Lemma sub_step_hot sts w k id :
  i_expect w = [] -> i_finished w = false -> i_unsub w = false -> k = i_nsub w ->
  nth_error (i_arrived w) k = Some (IHot id) ->
  items_step sts w (FSubscribed k) = Some (set_nsub (set_active w (i_active w ++ [(id, k)])) (S k)).
Proof.
  intros He Hf Hu Hk Hn. unfold items_step. rewrite He, Hf, Hu, Hn, <- Hk, Nat.eqb_refl. reflexivity.
Qed.

Lemma sub_step_cold sts w k sc :
  i_expect w = [] -> i_finished w = false -> i_unsub w = false -> k = i_nsub w ->
  nth_error (i_arrived w) k = Some (ICold sc) ->
  items_step sts w (FSubscribed k) = Some (set_nsub (set_expect w (cold_expect k sc)) (S k)).
Proof.
  intros He Hf Hu Hk Hn. unfold items_step. rewrite He, Hf, Hu, Hn, <- Hk, Nat.eqb_refl. reflexivity.
Qed.

Theorem start_piece sts : forall fuel, StarterOk sts fuel (start fuel).
Proof.
  induction fuel as [|fuel' IH]; intros w s k i R He Hk Hn Hq Hf; [lia|].
  destruct i as [script|id]; cbn [start].
  - (* synchronous *)
    set (w1 := set_nsub (set_expect w (cold_expect k script)) (S k)).
    assert (E : items_step sts w (FSubscribed k) = Some w1)
      by (apply sub_step_cold; auto; [apply (r_fin _ _ R)|apply (r_unsub _ _ R)]).
    assert (R1 : Rel w1 s) by (revert R; apply Rel_walker_ext; reflexivity).
    assert (P : Piece sts w1 (snd (cold_go (fun s0 => done_with (start fuel') s0 k) k s script))
                              (fst (cold_go (fun s0 => done_with (start fuel') s0 k) k s script))).
    { apply (cold_go_piece sts fuel' k).
      - apply done_with_piece, IH.
      - exact R1.
      - exact Hq.
      - reflexivity.
      - exists script. exact Hn.
      - lia. }
    destruct (cold_go (fun s0 => done_with (start fuel') s0 k) k s script) as [s' out]. cbn [fst snd] in *.
    apply (piece_cons sts w _ w1 out s' E); [repeat split|exact P].
  - (* hot *)
    cbn [fst snd].
    set (w1 := set_nsub (set_active w (i_active w ++ [(id, k)])) (S k)).
    assert (E : items_step sts w (FSubscribed k) = Some w1)
      by (apply sub_step_hot; auto; [apply (r_fin _ _ R)|apply (r_unsub _ _ R)]).
    apply (piece_cons sts w _ w1 [] _ E); [repeat split|]. apply piece_nil. apply after_live.
    + exact He.
    + destruct R as [R1 R2 R3 R4 R5 R6 R7 R8 R9]. constructor; auto.
      * cbn. intros id0 k0 Hin. apply in_app_or in Hin. destruct Hin as [Hin|[Hin|[]]]; [auto|]. congruence.
      * cbn. intros id0 k0 Hin. apply in_app_or in Hin. destruct Hin as [Hin|[Hin|[]]]; [auto|]. congruence.
      * cbn. rewrite !filter_app. cbn in R9. rewrite R9. reflexivity.
    + exact Hq.
Qed.

(* ---------- notifications of a hot inner observable ---------- *)

Lemma hot_event_dead s ts e : f_alive s = false -> hot_event s ts e = (s, []).
Proof.
  intros Ha. induction ts as [|k r IH]; [reflexivity|]. cbn [hot_event].
  destruct e as [v|x|]; [unfold inner_next|unfold inner_error|rewrite (dead_inner_done s k Ha)];
    rewrite ?Ha, IH; reflexivity.
Qed.

Lemma hot_next_out v : forall ts s,
  hot_event s ts (Next v) = (s, if f_alive s then map (fun k => FItem k v) ts else []).
Proof.
  induction ts as [|k r IH]; intros s; [cbn; destruct (f_alive s); reflexivity|].
  cbn [hot_event]. unfold inner_next. rewrite IH. destruct (f_alive s); reflexivity.
Qed.

Lemma run_items sts v : forall ts w,
  i_expect w = map (fun k => XItem k v) ts ->
  items_run sts w (map (fun k => FItem k v) ts) = Some (set_expect w []).
Proof.
  induction ts as [|k r IH]; intros w He.
  - cbn. f_equal. destruct w. cbn in *. subst. reflexivity.
  - cbn [map items_run]. cbn [map] in He. rewrite (item_step sts w k v _ He).
    rewrite (IH (set_expect w (map (fun k0 => XItem k0 v) r)) eq_refl). reflexivity.
Qed.

Definition HotDoneTargets (w : istate) (ts : list nat) : Prop :=
  forall k, In k ts -> exists id, nth_error (i_arrived w) k = Some (IHot id) /\ memn id (i_hot_done w) = true.

Lemma hot_targets_frame w w' ts : Frame w w' -> HotDoneTargets w ts -> HotDoneTargets w' ts.
Proof.
  intros (_ & F2 & _ & _ & F5) H k Hk. destruct (H k Hk) as (id & H1 & H2). exists id. rewrite F2, F5. auto.
Qed.

Lemma hot_done_piece sts : forall ts w s,
  After w s -> HotDoneTargets w ts ->
  Piece sts w (snd (hot_event s ts Done)) (fst (hot_event s ts Done)).
Proof.
  induction ts as [|k r IH]; intros w s A HT.
  - cbn. apply piece_nil, A.
  - destruct (f_alive s) eqn:Ha.
    + cbn [hot_event]. destruct A as [He HA]. rewrite Ha in HA. destruct HA as [R Q].
      assert (P1 : Piece sts w (snd (inner_done s k)) (fst (inner_done s k))).
      { unfold inner_done.
        apply (done_with_piece sts (S (length (f_queue s))) _ (start_piece sts _) k w s R Q); [|lia].
        right. split; [exact He|]. apply HT. left. reflexivity. }
      destruct (inner_done s k) as [s1 o1]. cbn [fst snd] in P1.
      assert (P2 : forall w1, Frame w w1 -> After w1 s1 ->
                              Piece sts w1 (snd (hot_event s1 r Done)) (fst (hot_event s1 r Done))).
      { intros w1 F1 A1. apply IH; [exact A1|]. apply (hot_targets_frame w w1 r F1).
        intros k0 Hk0. apply HT. right. exact Hk0. }
      destruct (hot_event s1 r Done) as [s2 o2]. cbn [fst snd] in *.
      eapply piece_seq; eassumption.
    + rewrite (hot_event_dead s (k :: r) Done Ha). cbn [fst snd]. apply piece_nil, A.
Qed.

Lemma hot_err_piece sts x ts w s :
  After w s -> Piece sts w (snd (hot_event s ts (Err x))) (fst (hot_event s ts (Err x))).
Proof.
  intros A. destruct (f_alive s) eqn:Ha.
  - destruct ts as [|k r]; [cbn; apply piece_nil, A|].
    cbn [hot_event]. unfold inner_error. rewrite Ha.
    rewrite (hot_event_dead (upd_alive s false) r (Err x) eq_refl). cbn [fst snd app].
    destruct A as [He _].
    apply (piece_cons sts w _ _ _ _ (term_step sts w (Err x) He)); [repeat split|].
    apply piece_nil. apply after_dead; [exact He|reflexivity|reflexivity].
  - rewrite (hot_event_dead s ts (Err x) Ha). cbn [fst snd]. apply piece_nil, A.
Qed.

(* ---------- the marker of a stimulus ---------- *)

Ltac split_ifs :=
  repeat match goal with |- context [if ?b then _ else _] => destruct b eqn:? end.

Lemma apply_mark_mark w st : i_mark (apply_mark w st) = i_mark w.
Proof. unfold apply_mark. destruct st as [[i|x|]|id [v|x|]|]; split_ifs; reflexivity. Qed.

Lemma apply_mark_unsub w st : st <> FUnsub -> i_unsub w = false -> i_unsub (apply_mark w st) = false.
Proof.
  intros Hst Hu. unfold apply_mark. rewrite Hu.
  destruct st as [[i|x|]|id [v|x|]|]; try congruence; split_ifs; cbn; exact Hu.
Qed.

Lemma apply_mark_live_outer w e :
  i_unsub w = false -> i_outer_live w = true ->
  i_outer_live (apply_mark w (FOuter e)) = match e with ONext _ => true | _ => false end.
Proof.
  intros Hu Hl. unfold apply_mark. rewrite Hu, Hl. destruct e as [i|x|]; split_ifs; cbn; auto.
Qed.

Lemma apply_mark_live_inner w id e : i_outer_live (apply_mark w (FInner id e)) = i_outer_live w.
Proof. unfold apply_mark. destruct e as [v|x|]; split_ifs; reflexivity. Qed.

Lemma apply_mark_outer_dead w e : i_unsub w = false -> i_outer_live w = false -> apply_mark w (FOuter e) = w.
Proof. intros Hu Hl. unfold apply_mark. rewrite Hu, Hl. reflexivity. Qed.

Lemma apply_mark_finished w st :
  i_finished w = true -> i_expect w = [] ->
  i_expect (apply_mark w st) = [] /\ i_finished (apply_mark w st) = true.
Proof.
  intros Hf He. unfold apply_mark. rewrite Hf.
  destruct st as [[i|x|]|id [v|x|]|]; split_ifs; cbn; auto.
Qed.

Lemma fstep_dead n s st :
  f_alive s = false -> snd (fstep n s st) = [] /\ f_alive (fst (fstep n s st)) = false.
Proof.
  intros Ha. destruct st as [[i|x|]|id e|]; cbn [fstep]; rewrite ?Ha; cbn [fst snd]; auto.
  destruct (memn id (f_hot_done s)); cbn [fst snd]; auto.
  destruct (is_term e); rewrite hot_event_dead by exact Ha; cbn [fst snd]; auto.
Qed.

Lemma qconsec_snoc q : forall lo hi i, qconsec lo hi q -> qconsec lo (S hi) (q ++ [(hi, i)]).
Proof.
  induction q as [|[k i0] q IH]; intros lo hi i H; cbn [qconsec app] in *.
  - subst. split; reflexivity.
  - destruct H as [Hk H]. split; [exact Hk|]. apply IH, H.
Qed.

Lemma memn_cons i j l : memn i (j :: l) = Nat.eqb i j || memn i l.
Proof. reflexivity. Qed.

Lemma nd_cons id hd l :
  filter (nd (id :: hd)) l = filter (fun p => negb (Nat.eqb (fst p) id)) (filter (nd hd) l).
Proof.
  rewrite <- filter_andb. apply filter_ext. intros p. unfold nd. rewrite memn_cons, Bool.negb_orb. reflexivity.
Qed.

Lemma filter_idem {A} (f : A -> bool) l : filter f (filter f l) = filter f l.
Proof. apply filter_absorb. auto. Qed.

(* the subscriptions of a live subject, as seen by the walk and as held by the operator *)
Lemma targets_agree w s id :
  Rel w s -> memn id (i_hot_done w) = false ->
  filter (fun p => Nat.eqb (fst p) id) (i_active w) = filter (fun p => Nat.eqb (fst p) id) (f_active s).
Proof.
  intros R Hm.
  assert (H : forall l, filter (fun p : nat * nat => Nat.eqb (fst p) id) (filter (nd (i_hot_done w)) l)
                        = filter (fun p => Nat.eqb (fst p) id) l).
  { intros l. apply filter_absorb. intros p _ Hp. apply Nat.eqb_eq in Hp. unfold nd. rewrite Hp, Hm. reflexivity. }
  rewrite <- (H (i_active w)), <- (H (f_active s)), (r_act _ _ R). reflexivity.
Qed.

(* ---------- one stimulus ---------- *)

Lemma fstep_piece n sts w s st :
  (f_alive s = true -> Inv n s) -> After w s -> i_unsub w = false ->
  (forall e, st = FOuter e -> i_outer_live w = true) -> st <> FUnsub ->
  Piece sts (apply_mark w st) (snd (fstep n s st)) (fst (fstep n s st)).
Proof.
  intros HI A Hu Hlive Hst. destruct A as [He HA]. destruct (f_alive s) eqn:Ha.
  2: { destruct (fstep_dead n s st Ha) as [E1 E2]. rewrite E1.
       destruct (apply_mark_finished w st HA He) as [X1 X2].
       apply piece_nil. apply after_dead; assumption. }
  destruct HA as [R Q]. pose proof (r_fin _ _ R) as Hfin.
  destruct st as [[i|x|]|id e|]; [| | | |congruence].
  - (* the outer stream emits an inner observable *)
    assert (Hl : i_outer_live w = true) by (eapply Hlive; reflexivity).
    assert (Em : apply_mark w (FOuter (ONext i)) = set_arrived w (i_arrived w ++ [i]))
      by (unfold apply_mark; rewrite Hu, Hl, Hfin; reflexivity).
    rewrite Em. set (w0 := set_arrived w (i_arrived w ++ [i])).
    assert (R0 : Rel w0 (upd_next s)).
    { destruct R as [R1 R2 R3 R4 R5 R6 R7 R8 R9]. constructor; auto; cbn.
      - rewrite app_length, R5. cbn. lia.
      - intros k0 i0 Hin. apply nth_error_app_keep. auto.
      - intros id0 k0 Hin. apply nth_error_app_keep. auto.
      - intros id0 k0 Hin. apply nth_error_app_keep. auto. }
    cbn [fstep]. rewrite Ha. cbn [upd_next f_subscribed f_queue].
    destruct (below_limit n (f_subscribed s)) eqn:Eb.
    + assert (Eq : f_queue s = []).
      { destruct (f_queue s) as [|p q] eqn:Eq; [reflexivity|]. exfalso.
        pose proof (inv_full _ _ (HI eq_refl)) as I2. rewrite Eq in I2.
        assert (Hne : p :: q <> []) by discriminate. specialize (I2 Hne). congruence. }
      unfold QC in Q. rewrite Eq in Q. cbn [qconsec] in Q.
      set (s1 := upd_subscribed (upd_next s) (S (f_subscribed s))).
      assert (R1 : Rel w0 s1) by (revert R0; apply Rel_model_ext; reflexivity).
      assert (P : Piece sts w0 (snd (start (S (length (f_queue s))) s1 (f_next s) i))
                               (fst (start (S (length (f_queue s))) s1 (f_next s) i))).
      { apply (start_piece sts (S (length (f_queue s))) w0 s1 (f_next s) i R1).
        - exact He.
        - cbn. congruence.
        - cbn. rewrite <- (r_next _ _ R). apply nth_error_app_last.
        - cbn. rewrite Eq. reflexivity.
        - cbn. lia. }
      exact P.
    + cbn [fst snd]. apply piece_nil. apply after_live; [exact He| |].
      * destruct R0 as [R1 R2 R3 R4 R5 R6 R7 R8 R9]. constructor; auto.
        cbn. intros k0 i0 Hin. apply in_app_or in Hin. destruct Hin as [Hin|[Hin|[]]]; [apply R6, Hin|].
        injection Hin as <- <-. rewrite <- (r_next _ _ R). apply nth_error_app_last.
      * unfold QC. cbn. apply qconsec_snoc, Q.
  - (* the outer stream fails *)
    assert (Hl : i_outer_live w = true) by (eapply Hlive; reflexivity).
    assert (Em : apply_mark w (FOuter (OErr x)) = set_outer_dead w)
      by (unfold apply_mark; rewrite Hu, Hl; reflexivity).
    rewrite Em. cbn [fstep]. rewrite Ha. cbn [fst snd].
    assert (He0 : i_expect (set_outer_dead w) = []) by exact He.
    apply (piece_cons sts _ _ _ _ _ (term_step sts _ (Err x) He0)); [repeat split|].
    apply piece_nil. apply after_dead; [exact He|reflexivity|reflexivity].
  - (* the outer stream completes *)
    assert (Hl : i_outer_live w = true) by (eapply Hlive; reflexivity).
    assert (Em : apply_mark w (FOuter ODone) = set_outer_dead w)
      by (unfold apply_mark; rewrite Hu, Hl; reflexivity).
    rewrite Em. cbn [fstep]. rewrite Ha. cbn [upd_outside f_subscribed f_queue].
    assert (He0 : i_expect (set_outer_dead w) = []) by exact He.
    assert (R0 : Rel (set_outer_dead w) (upd_outside s)).
    { apply (Rel_model_ext _ s); try reflexivity. revert R. apply Rel_walker_ext; reflexivity. }
    destruct (Nat.eqb (f_subscribed s) 0 && match f_queue s with [] => true | _ => false end); cbn [fst snd].
    + apply (piece_cons sts _ _ _ _ _ (term_step sts _ Done He0)); [repeat split|].
      apply piece_nil. apply after_dead; [exact He|reflexivity|reflexivity].
    + apply piece_nil. apply after_live; [exact He0|exact R0|exact Q].
  - (* a hot inner observable *)
    cbn [fstep]. rewrite <- (r_hd _ _ R).
    destruct (memn id (i_hot_done w)) eqn:Em.
    { assert (E0 : apply_mark w (FInner id e) = w) by (unfold apply_mark; rewrite Hu, Em; reflexivity).
      rewrite E0. cbn [fst snd]. apply piece_nil. apply after_live; assumption. }
    destruct e as [v|x|]; cbn [is_term].
    + (* an item: one per subscription, in subscription order *)
      assert (E0 : apply_mark w (FInner id (Next v)) =
                   set_expect w (map (fun p => XItem (snd p) v) (filter (fun p => Nat.eqb (fst p) id) (i_active w))))
        by (unfold apply_mark; rewrite Hu, Em, Hfin; reflexivity).
      rewrite E0, hot_next_out, Ha. cbn [fst snd].
      rewrite (targets_agree w s id R Em), <- (map_map snd (fun k => XItem k v)).
      set (ts := map snd (filter (fun p : nat * nat => Nat.eqb (fst p) id) (f_active s))).
      exists (set_expect w []). split; [exact (run_items sts v ts (set_expect w (map (fun k => XItem k v) ts)) eq_refl)|]. split; [repeat split|].
      apply after_live; [reflexivity|apply Rel_expect, R|exact Q].
    + (* failure of the subject *)
      assert (E0 : apply_mark w (FInner id (Err x)) = set_hot_done w (id :: i_hot_done w))
        by (unfold apply_mark; rewrite Hu, Em; reflexivity).
      rewrite E0. apply hot_err_piece. apply after_live; [exact He| |exact Q].
      destruct R as [R1 R2 R3 R4 R5 R6 R7 R8 R9]. constructor; auto; cbn.
      * intros id0 k0 Hin. apply filter_In in Hin. apply R7, Hin.
      * rewrite !nd_cons, R9. rewrite (filter_comm (nd (i_hot_done w)) (fun p => negb (Nat.eqb (fst p) id))), filter_idem. reflexivity.
    + (* completion of the subject *)
      assert (E0 : apply_mark w (FInner id Done) = set_hot_done w (id :: i_hot_done w))
        by (unfold apply_mark; rewrite Hu, Em; reflexivity).
      rewrite E0. apply hot_done_piece.
      * apply after_live; [exact He| |exact Q].
        destruct R as [R1 R2 R3 R4 R5 R6 R7 R8 R9]. constructor; auto; cbn.
        -- intros id0 k0 Hin. apply filter_In in Hin. apply R7, Hin.
        -- rewrite !nd_cons, R9. rewrite (filter_comm (nd (i_hot_done w)) (fun p => negb (Nat.eqb (fst p) id))), filter_idem. reflexivity.
      * intros k Hk. apply in_map_iff in Hk. destruct Hk as ([id0 k0] & Hk & Hin). cbn [snd] in Hk. subst k0.
        apply filter_In in Hin. destruct Hin as [Hin Hid]. cbn [fst] in Hid. apply Nat.eqb_eq in Hid. subst id0.
        exists id. split; [apply (r_fact _ _ R), Hin|]. cbn [i_hot_done set_hot_done]. rewrite memn_cons, Nat.eqb_refl. reflexivity.
Qed.

(* ---------- whole runs ---------- *)

Lemma nth_error_mid {A} (pre : list A) x r : nth_error (pre ++ x :: r) (length pre) = Some x.
Proof. rewrite nth_error_app2 by lia. rewrite Nat.sub_diag. reflexivity. Qed.

Lemma snoc_length {A} (pre : list A) x : length (pre ++ [x]) = S (length pre).
Proof. rewrite app_length. cbn. lia. Qed.

Lemma mark_step sts w j st :
  i_expect w = [] -> i_mark w = j -> nth_error sts j = Some st ->
  items_step sts w (FMark j) = Some (apply_mark (set_mark w (S j)) st).
Proof. intros He Hm Hn. subst j. unfold items_step. rewrite He, Nat.eqb_refl, Hn. reflexivity. Qed.

(* after unsubscribe() only markers follow, and every stimulus still gets its marker *)
Lemma unsub_walk sts : forall r pre w,
  sts = pre ++ r -> i_unsub w = true -> i_expect w = [] -> i_mark w = length pre ->
  items_walk sts w (map FMark (seq (length pre) (length r))) = true.
Proof.
  induction r as [|st r IH]; intros pre w Hs Hu He Hm.
  - cbn. unfold items_end_ok. rewrite He, Hm, Hs, app_nil_r. apply Nat.eqb_refl.
  - cbn [length seq map items_walk].
    assert (Hn : nth_error sts (length pre) = Some st) by (rewrite Hs; apply nth_error_mid).
    rewrite (mark_step sts w (length pre) st He Hm Hn).
    assert (E : apply_mark (set_mark w (S (length pre))) st = set_mark w (S (length pre)))
      by (unfold apply_mark; cbn [i_unsub set_mark]; rewrite Hu; reflexivity).
    rewrite E. rewrite <- (snoc_length pre st). apply IH.
    + rewrite <- app_assoc. exact Hs.
    + exact Hu.
    + exact He.
    + cbn; first [reflexivity | symmetry; apply snoc_length].
Qed.

Lemma after_set_mark w s j : After w s -> After (set_mark w j) s.
Proof.
  intros [He HA]. split; [exact He|]. destruct (f_alive s); [|exact HA].
  destruct HA as [R Q]. split; [revert R; apply Rel_walker_ext; reflexivity|exact Q].
Qed.

Theorem frun_walk n (V : valid_limit n) sts : forall r pre s b live w,
  sts = pre ++ r -> reach n s b -> After w s -> i_unsub w = false -> i_outer_live w = live ->
  i_mark w = length pre ->
  items_walk sts w (frun n s live (length pre) r) = true.
Proof.
  induction r as [|st r IH]; intros pre s b live w Hs Rch A Hu Hl Hm.
  - cbn. unfold items_end_ok. rewrite (proj1 A), Hm, Hs, app_nil_r. apply Nat.eqb_refl.
  - assert (Hn : nth_error sts (length pre) = Some st) by (rewrite Hs; apply nth_error_mid).
    pose proof (mark_step sts w (length pre) st (proj1 A) Hm Hn) as Hmark.
    set (wm := set_mark w (S (length pre))) in *.
    assert (Am : After wm s) by (apply after_set_mark, A).
    assert (Hum : i_unsub wm = false) by exact Hu.
    assert (Hlm : i_outer_live wm = live) by exact Hl.
    assert (Hs' : sts = (pre ++ [st]) ++ r) by (rewrite <- app_assoc; exact Hs).
    assert (HI : f_alive s = true -> Inv n s).
    { intros Ha. destruct (reach_good n V s b Rch) as [G _]. apply (G Ha). }
    (* a stimulus that reaches the operator *)
    assert (Step : forall live', st <> FUnsub -> (forall e, st = FOuter e -> live = true) ->
                     i_outer_live (apply_mark wm st) = live' ->
                     items_walk sts w (FMark (length pre) :: snd (fstep n s st) ++
                                         frun n (fst (fstep n s st)) live' (S (length pre)) r) = true).
    { intros live' Hst Hout Hl'. cbn [items_walk]. rewrite Hmark.
      assert (Hout' : forall e, st = FOuter e -> i_outer_live wm = true)
        by (intros e Ee; rewrite Hlm; eapply Hout; exact Ee).
      destruct (fstep_piece n sts wm s st HI Am Hum Hout' Hst) as (w' & E & F & A').
      rewrite items_walk_app, E. destruct F as (F1 & F2 & F3 & F4 & F5).
      rewrite <- (snoc_length pre st).
      apply (IH (pre ++ [st]) (fst (fstep n s st)) (balance b (snd (fstep n s st))) live' w').
      - exact Hs'.
      - apply reach_step, Rch.
      - exact A'.
      - rewrite F4. apply apply_mark_unsub; assumption.
      - rewrite F3. exact Hl'.
      - rewrite F1, apply_mark_mark, snoc_length. reflexivity. }
    cbn [frun]. destruct st as [e|id e|].
    + destruct live.
      * specialize (Step (match e with ONext _ => true | _ => false end)).
        destruct (fstep n s (FOuter e)) as [s' out]. cbn [fst snd] in Step. apply Step.
        -- discriminate.
        -- reflexivity.
        -- apply apply_mark_live_outer; assumption.
      * cbn [items_walk]. rewrite Hmark. rewrite (apply_mark_outer_dead wm e Hum Hlm).
        rewrite <- (snoc_length pre (FOuter e)).
        apply (IH (pre ++ [FOuter e]) s b false wm); auto. cbn; first [reflexivity | symmetry; apply snoc_length].
    + specialize (Step live).
      destruct (fstep n s (FInner id e)) as [s' out]. cbn [fst snd] in Step. apply Step.
      * discriminate.
      * discriminate.
      * rewrite apply_mark_live_inner. exact Hlm.
    + cbn [items_walk]. rewrite Hmark.
      assert (E : apply_mark wm FUnsub = set_unsub wm) by (unfold apply_mark; rewrite Hum; reflexivity).
      rewrite E. rewrite <- (snoc_length pre FUnsub). apply unsub_walk.
      * exact Hs'.
      * reflexivity.
      * exact (proj1 A).
      * cbn; first [reflexivity | symmetry; apply snoc_length].
Qed.

Lemma after0 : After istate0 fstate0.
Proof.
  split; [reflexivity|]. cbn. split; [|reflexivity].
  constructor; cbn; auto; intros ? ? [].
Qed.

(* Every item of every inner observable is delivered exactly once, in the inner observable's
   own order, tagged with the inner observable it came from, and nothing else is delivered. *)
Theorem flatten_items_exact :
  forall n sts, valid_limit n -> items_exact_ok n sts (run_flatten n sts) = true.
Proof.
  intros n sts V. unfold items_exact_ok, run_flatten.
  apply (frun_walk n V sts sts [] fstate0 0 true istate0); auto.
  - apply reach0.
  - apply after0.
Qed.

(* ---------- the order of subscriptions, read off the accepted trace ---------- *)

Lemma apply_mark_nsub w st : i_nsub (apply_mark w st) = i_nsub w.
Proof. unfold apply_mark. destruct st as [[i|x|]|id [v|x|]|]; split_ifs; reflexivity. Qed.

Lemma observe_nsub w o : i_nsub (observe w o) = i_nsub w.
Proof. destruct o; reflexivity. Qed.

Lemma step_nsub sts w o w' :
  items_step sts w o = Some w' ->
  match o with
  | FSubscribed k => k = i_nsub w /\ i_nsub w' = S k
  | _ => i_nsub w' = i_nsub w
  end.
Proof.
  unfold items_step. destruct (i_expect w) as [|x xs].
  - destruct o as [k v|e|k|k|  |j]; intros H; try discriminate.
    + injection H as <-. reflexivity.
    + destruct (i_finished w || i_unsub w); [discriminate|].
      destruct (Nat.eqb_spec k (i_nsub w)) as [Ek|Ek]; cbn [negb] in H; [|discriminate].
      destruct (nth_error (i_arrived w) k) as [[sc|id]|]; [| |discriminate]; injection H as <-; split; auto.
    + destruct (nth_error (i_arrived w) k) as [[sc|id]|]; try discriminate. injection H as <-. reflexivity.
    + destruct (Nat.eqb j (i_mark w)); [|discriminate].
      destruct (nth_error sts j) as [st|]; [|discriminate]. injection H as <-. rewrite apply_mark_nsub. reflexivity.
  - destruct (exp_match x o) eqn:Em; intros H; [|discriminate]. injection H as <-.
    destruct o as [k v|e|k|k|  |j]; try (rewrite observe_nsub; reflexivity).
    destruct x; discriminate.
Qed.

Lemma walk_subs_consecutive sts : forall out w,
  items_walk sts w out = true -> subs_consecutive (i_nsub w) out = true.
Proof.
  induction out as [|o r IH]; intros w H; [reflexivity|]. cbn [items_walk] in H.
  destruct (items_step sts w o) as [w'|] eqn:E; [|discriminate].
  pose proof (step_nsub sts w o w' E) as Hn. specialize (IH w' H).
  destruct o as [k v|e|k|k|  |j]; cbn [subs_consecutive]; try (rewrite <- Hn; exact IH).
  destruct Hn as [Hk Hn]. rewrite Hn in IH. rewrite <- Hk, Nat.eqb_refl. exact IH.
Qed.

Lemma consecutive_increasing : forall out next lo,
  lo <= next -> subs_consecutive next out = true -> subs_increasing lo out = true.
Proof.
  induction out as [|o r IH]; intros next lo Hle H; [reflexivity|].
  destruct o as [k v|e|k|k|  |j]; cbn [subs_consecutive subs_increasing] in *; try (eapply IH; eassumption).
  apply andb_prop in H. destruct H as [Hk H]. apply Nat.eqb_eq in Hk. subst k.
  apply andb_true_intro. split; [apply Nat.leb_le; exact Hle|]. apply (IH (S next)); [lia|exact H].
Qed.

(* The inner observables are subscribed exactly in the order in which the outer stream
   emitted them, each one once: FSubscribed 0, FSubscribed 1, ... (every limit). *)
Theorem flatten_subs_consecutive :
  forall n sts, valid_limit n -> subs_consecutive 0 (run_flatten n sts) = true.
Proof.
  intros n sts V. apply (walk_subs_consecutive sts (run_flatten n sts) istate0).
  apply (flatten_items_exact n sts V).
Qed.

Theorem flatten_subs_increasing :
  forall n sts, valid_limit n -> subs_increasing 0 (run_flatten n sts) = true.
Proof.
  intros n sts V. apply (consecutive_increasing _ 0 0); [lia|]. apply flatten_subs_consecutive, V.
Qed.

(* ---------- concat: one inner observable at a time ---------- *)

Definition CInv (cur : option nat) (s : fstate) : Prop :=
  match cur with
  | None => f_subscribed s = 0 /\ f_active s = []
  | Some k => f_subscribed s = 1 /\ (f_active s = [] \/ exists id, f_active s = [(id, k)])
  end.

Definition CGood (cur : option nat) (s : fstate) : Prop := f_alive s = true -> CInv cur s.

Definition CPiece (cur : option nat) (o : list fout) (s' : fstate) : Prop :=
  exists cur', (forall rest, concat_walk cur (o ++ rest) = concat_walk cur' rest) /\ CGood cur' s'.

(* a slot was just taken and no hot inner observable holds it *)
Definition CReady (s : fstate) : Prop := f_alive s = true /\ f_subscribed s = 1 /\ f_active s = [].

Definition CStarterOk (fuel : nat) (starter : fstate -> nat -> iobs -> fstate * list fout) : Prop :=
  forall cur s k i, CReady s -> length (f_queue s) < fuel -> CPiece cur (snd (starter s k i)) (fst (starter s k i)).

Definition COnDoneOk (fuel k : nat) (on_done : fstate -> fstate * list fout) : Prop :=
  forall s, CReady s -> length (f_queue s) <= fuel -> CPiece (Some k) (snd (on_done s)) (fst (on_done s)).

Lemma cpiece_cons cur o cur1 out s' :
  (forall rest, concat_walk cur (o :: rest) = concat_walk cur1 rest) -> CPiece cur1 out s' -> CPiece cur (o :: out) s'.
Proof. intros H (c2 & H2 & G). exists c2. split; [|exact G]. intros rest. cbn [app]. rewrite H. apply H2. Qed.

Lemma cpiece_nil cur s : CGood cur s -> CPiece cur [] s.
Proof. intros G. exists cur. split; [reflexivity|exact G]. Qed.

Lemma cgood_dead cur s : f_alive s = false -> CGood cur s.
Proof. intros H H'. congruence. Qed.

Lemma cwalk_done k rest : concat_walk (Some k) (FInnerDone k :: rest) = concat_walk None rest.
Proof. cbn [concat_walk]. rewrite Nat.eqb_refl. reflexivity. Qed.

Lemma cwalk_item k v rest : concat_walk (Some k) (FItem k v :: rest) = concat_walk (Some k) rest.
Proof. cbn [concat_walk]. rewrite Nat.eqb_refl. reflexivity. Qed.

Lemma cdone_with fuel starter :
  CStarterOk fuel starter -> forall k, COnDoneOk fuel k (fun s => done_with starter s k).
Proof.
  intros HS k s (Ha & Hs & Hact) Hf. unfold done_with. rewrite Ha.
  destruct (f_queue s) as [|[k' i'] q] eqn:Eq.
  - unfold release_slot. cbn [f_subscribed upd_subscribed f_outside_completed]. rewrite Hs.
    change (Nat.eqb (pred 1) 0) with true. cbn [andb].
    destruct (f_outside_completed s); cbn [fst snd].
    + apply (cpiece_cons _ _ None); [intros rest; apply cwalk_done|].
      apply (cpiece_cons _ _ None); [reflexivity|]. apply cpiece_nil, cgood_dead. reflexivity.
    + apply (cpiece_cons _ _ None); [intros rest; apply cwalk_done|]. apply cpiece_nil.
      intros _. cbn. split; [reflexivity|exact Hact].
  - assert (Rdy : CReady (upd_queue s q)) by (repeat split; assumption).
    assert (Hl : length (f_queue (upd_queue s q)) < fuel) by (cbn [upd_queue f_queue]; cbn [length] in Hf; lia).
    pose proof (HS None (upd_queue s q) k' i' Rdy Hl) as P.
    destruct (starter (upd_queue s q) k' i') as [s1 o1]. cbn [fst snd] in *.
    apply (cpiece_cons _ _ None); [intros rest; apply cwalk_done|exact P].
Qed.

Lemma ccold_go fuel k on_done :
  COnDoneOk fuel k on_done ->
  forall sc s, CReady s -> length (f_queue s) <= fuel ->
               CPiece (Some k) (snd (cold_go on_done k s sc)) (fst (cold_go on_done k s sc)).
Proof.
  intros HD sc. induction sc as [|e r IH]; intros s Rdy Hf.
  - cbn [cold_go fst snd]. apply cpiece_nil. intros _. destruct Rdy as (_ & Hs & Hact). cbn. auto.
  - destruct e as [v|x|]; cbn [cold_go].
    + unfold inner_next. rewrite (proj1 Rdy). specialize (IH s Rdy Hf).
      destruct (cold_go on_done k s r) as [s2 o2]. cbn [fst snd app] in *.
      apply (cpiece_cons _ _ (Some k)); [intros rest; apply cwalk_item|exact IH].
    + unfold inner_error. rewrite (proj1 Rdy). cbn [fst snd].
      apply (cpiece_cons _ _ (Some k)); [reflexivity|]. apply cpiece_nil, cgood_dead. reflexivity.
    + apply HD; assumption.
Qed.

Lemma cstart : forall fuel, CStarterOk fuel (start fuel).
Proof.
  induction fuel as [|fuel' IH]; intros cur s k i Rdy Hf; [lia|].
  destruct i as [script|id]; cbn [start].
  - assert (P : CPiece (Some k) (snd (cold_go (fun s0 => done_with (start fuel') s0 k) k s script))
                               (fst (cold_go (fun s0 => done_with (start fuel') s0 k) k s script))).
    { apply (ccold_go fuel' k); [apply cdone_with, IH|exact Rdy|lia]. }
    destruct (cold_go (fun s0 => done_with (start fuel') s0 k) k s script) as [s' out]. cbn [fst snd] in *.
    apply (cpiece_cons _ _ (Some k)); [reflexivity|exact P].
  - cbn [fst snd]. apply (cpiece_cons _ _ (Some k)); [reflexivity|]. apply cpiece_nil.
    intros _. destruct Rdy as (_ & Hs & Hact). cbn. rewrite Hact. split; [exact Hs|]. right. exists id. reflexivity.
Qed.

Lemma cfstep s st cur :
  CGood cur s -> CPiece cur (snd (fstep (Some 1) s st)) (fst (fstep (Some 1) s st)).
Proof.
  intros G. destruct (f_alive s) eqn:Ha.
  2: { destruct (fstep_dead (Some 1) s st Ha) as [E1 E2]. rewrite E1. apply cpiece_nil, cgood_dead, E2. }
  specialize (G Ha).
  destruct st as [[i|x|]|id e|]; cbn [fstep].
  - (* the outer stream emits an inner observable *)
    rewrite Ha. cbn [upd_next f_subscribed f_queue below_limit].
    destruct cur as [c|]; cbn [CInv] in G; destruct G as [Hs Hact]; rewrite Hs.
    + change (Nat.ltb 1 1) with false. cbn [fst snd]. apply cpiece_nil. intros _. cbn. auto.
    + change (Nat.ltb 0 1) with true.
      apply (cstart (S (length (f_queue s))) None (upd_subscribed (upd_next s) 1) (f_next s) i).
      * repeat split; assumption.
      * cbn. lia.
  - rewrite Ha. cbn [fst snd]. apply (cpiece_cons _ _ cur); [reflexivity|]. apply cpiece_nil, cgood_dead. reflexivity.
  - rewrite Ha. cbn [upd_outside f_subscribed f_queue].
    destruct (Nat.eqb (f_subscribed s) 0 && match f_queue s with [] => true | _ => false end); cbn [fst snd].
    + apply (cpiece_cons _ _ cur); [reflexivity|]. apply cpiece_nil, cgood_dead. reflexivity.
    + apply cpiece_nil. intros _. destruct cur; exact G.
  - (* a hot inner observable *)
    destruct (memn id (f_hot_done s)); [cbn [fst snd]; apply cpiece_nil; intros _; exact G|].
    assert (Hcases : f_active s = [] \/ exists id0 k, cur = Some k /\ f_subscribed s = 1 /\ f_active s = [(id0, k)]).
    { destruct cur as [c|]; cbn [CInv] in G.
      - destruct G as [Hs [Hact|[id0 Hact]]]; [left; exact Hact|right; exists id0, c; auto].
      - left. apply G. }
    destruct Hcases as [Hact|(id0 & k & -> & Hs & Hact)].
    + (* nobody listens *)
      rewrite Hact. cbn [filter map].
      assert (E : forall s0, hot_event s0 [] e = (s0, [])) by reflexivity. rewrite E. cbn [fst snd].
      apply cpiece_nil. intros _.
      destruct (is_term e); destruct cur as [c|]; cbn [CInv] in *; cbn; rewrite ?Hact; cbn; intuition auto.
    + rewrite Hact. cbn [filter map fst snd].
      destruct (Nat.eqb id0 id) eqn:Eid; cbn [negb filter map fst snd].
      * (* the current inner observable *)
        destruct e as [v|x|]; cbn [is_term hot_event].
        -- unfold inner_next. rewrite Ha. cbn [fst snd app].
           apply (cpiece_cons _ _ (Some k)); [intros rest; apply cwalk_item|]. apply cpiece_nil. intros _. exact G.
        -- unfold inner_error. cbn [f_alive upd_hot_done upd_active]. rewrite Ha. cbn [fst snd app].
           apply (cpiece_cons _ _ (Some k)); [reflexivity|]. apply cpiece_nil, cgood_dead. reflexivity.
        -- set (s1 := upd_hot_done (upd_active s []) (id :: f_hot_done s)).
           assert (P : CPiece (Some k) (snd (inner_done s1 k)) (fst (inner_done s1 k))).
           { unfold inner_done. apply (cdone_with (S (length (f_queue s1))) _ (cstart _) k s1); [|lia].
             repeat split; assumption. }
           destruct (inner_done s1 k) as [s2 o2]. cbn [fst snd] in *. rewrite app_nil_r. exact P.
      * (* another subject *)
        assert (E : forall s0, hot_event s0 [] e = (s0, [])) by reflexivity. rewrite E. cbn [fst snd].
        apply cpiece_nil. intros _.
        destruct (is_term e); cbn; rewrite ?Hact; split; auto; right; exists id0; reflexivity.
  - cbn [fst snd]. apply cpiece_nil. intros _. exact G.
Qed.

Lemma concat_walk_marks cur l : concat_walk cur (map FMark l) = true.
Proof. induction l as [|j l IH]; [reflexivity|exact IH]. Qed.

Lemma cfrun : forall sts s live j cur,
  CGood cur s -> concat_walk cur (frun (Some 1) s live j sts) = true.
Proof.
  induction sts as [|st r IH]; intros s live j cur G; [reflexivity|].
  assert (Step : forall live',
            concat_walk cur (FMark j :: snd (fstep (Some 1) s st) ++ frun (Some 1) (fst (fstep (Some 1) s st)) live' (S j) r) = true).
  { intros live'. destruct (cfstep s st cur G) as (cur' & H & G'). cbn [concat_walk]. rewrite H. apply IH, G'. }
  cbn [frun]. destruct st as [e|id e|].
  - destruct live.
    + specialize (Step (match e with ONext _ => true | _ => false end)).
      destruct (fstep (Some 1) s (FOuter e)) as [s' out]. exact Step.
    + cbn [concat_walk]. apply IH, G.
  - specialize (Step live). destruct (fstep (Some 1) s (FInner id e)) as [s' out]. exact Step.
  - cbn [concat_walk]. apply concat_walk_marks.
Qed.

(* concat_all / concat_map: every item belongs to the inner observable subscribed last and
   not completed yet - no item of another inner observable between FSubscribed k and
   FInnerDone k, and no item outside such an interval. *)
Theorem flatten_concat_exclusive :
  forall sts, concat_exclusive_ok (run_flatten (Some 1) sts) = true.
Proof.
  intros sts. unfold concat_exclusive_ok, run_flatten. apply cfrun. intros _. cbn. auto.
Qed.

(* ---------- the predicates are not vacuous: accepted runs, rejected corruptions ---------- *)

Definition ex_sts1 : list fstim :=
  [FOuter (ONext (IHot 0)); FOuter (ONext (ICold [Next (VZ 7%Z); Next (VZ 8%Z); Done])); FInner 0 (Next (VZ 5%Z));
   FInner 0 Done; FOuter ODone].

(* the run of concat_all on ex_sts1 *)
Definition ex_out1 : list fout :=
  [FMark 0; FSubscribed 0; FMark 1; FMark 2; FItem 0 (VZ 5%Z); FMark 3; FInnerDone 0; FSubscribed 1;
   FItem 1 (VZ 7%Z); FItem 1 (VZ 8%Z); FInnerDone 1; FMark 4; FTerm Done].

Example ex_out1_is_run : run_flatten (Some 1) ex_sts1 = ex_out1.
Proof. vm_compute. reflexivity. Qed.

Example ex_accept1 : items_exact_ok (Some 1) ex_sts1 ex_out1 = true.
Proof. vm_compute. reflexivity. Qed.

(* a duplicated item *)
Example ex_reject_duplicate :
  items_exact_ok (Some 1) ex_sts1
    [FMark 0; FSubscribed 0; FMark 1; FMark 2; FItem 0 (VZ 5%Z); FItem 0 (VZ 5%Z); FMark 3; FInnerDone 0; FSubscribed 1;
     FItem 1 (VZ 7%Z); FItem 1 (VZ 8%Z); FInnerDone 1; FMark 4; FTerm Done] = false.
Proof. vm_compute. reflexivity. Qed.

(* a dropped item of a synchronous inner observable *)
Example ex_reject_dropped :
  items_exact_ok (Some 1) ex_sts1
    [FMark 0; FSubscribed 0; FMark 1; FMark 2; FItem 0 (VZ 5%Z); FMark 3; FInnerDone 0; FSubscribed 1;
     FItem 1 (VZ 8%Z); FInnerDone 1; FMark 4; FTerm Done] = false.
Proof. vm_compute. reflexivity. Qed.

(* a dropped item of a hot inner observable *)
Example ex_reject_dropped_hot :
  items_exact_ok (Some 1) ex_sts1
    [FMark 0; FSubscribed 0; FMark 1; FMark 2; FMark 3; FInnerDone 0; FSubscribed 1;
     FItem 1 (VZ 7%Z); FItem 1 (VZ 8%Z); FInnerDone 1; FMark 4; FTerm Done] = false.
Proof. vm_compute. reflexivity. Qed.

(* two items swapped *)
Example ex_reject_swapped :
  items_exact_ok (Some 1) ex_sts1
    [FMark 0; FSubscribed 0; FMark 1; FMark 2; FItem 0 (VZ 5%Z); FMark 3; FInnerDone 0; FSubscribed 1;
     FItem 1 (VZ 8%Z); FItem 1 (VZ 7%Z); FInnerDone 1; FMark 4; FTerm Done] = false.
Proof. vm_compute. reflexivity. Qed.

(* an item of an inner observable that is not subscribed (it is still waiting) *)
Example ex_reject_unsubscribed_inner :
  items_exact_ok (Some 1) ex_sts1
    [FMark 0; FSubscribed 0; FMark 1; FItem 1 (VZ 7%Z); FMark 2; FItem 0 (VZ 5%Z); FMark 3; FInnerDone 0; FSubscribed 1;
     FItem 1 (VZ 7%Z); FItem 1 (VZ 8%Z); FInnerDone 1; FMark 4; FTerm Done] = false.
Proof. vm_compute. reflexivity. Qed.

(* an item tagged with the wrong inner observable *)
Example ex_reject_wrong_tag :
  items_exact_ok (Some 1) ex_sts1
    [FMark 0; FSubscribed 0; FMark 1; FMark 2; FItem 1 (VZ 5%Z); FMark 3; FInnerDone 0; FSubscribed 1;
     FItem 1 (VZ 7%Z); FItem 1 (VZ 8%Z); FInnerDone 1; FMark 4; FTerm Done] = false.
Proof. vm_compute. reflexivity. Qed.

(* the completion of a synchronous inner observable that said Done is owed *)
Example ex_reject_missing_inner_done :
  items_exact_ok (Some 1) ex_sts1
    [FMark 0; FSubscribed 0; FMark 1; FMark 2; FItem 0 (VZ 5%Z); FMark 3; FInnerDone 0; FSubscribed 1;
     FItem 1 (VZ 7%Z); FItem 1 (VZ 8%Z); FMark 4; FTerm Done] = false.
Proof. vm_compute. reflexivity. Qed.

(* a truncated trace: every stimulus has its segment *)
Example ex_reject_truncated :
  items_exact_ok (Some 1) ex_sts1 [FMark 0; FSubscribed 0; FMark 1; FMark 2; FItem 0 (VZ 5%Z)] = false.
Proof. vm_compute. reflexivity. Qed.

(* an inner observable subscribed twice *)
Example ex_reject_resubscribed :
  items_exact_ok (Some 1) ex_sts1
    [FMark 0; FSubscribed 0; FMark 1; FMark 2; FItem 0 (VZ 5%Z); FMark 3; FInnerDone 0; FSubscribed 1;
     FItem 1 (VZ 7%Z); FItem 1 (VZ 8%Z); FInnerDone 1; FSubscribed 1;
     FItem 1 (VZ 7%Z); FItem 1 (VZ 8%Z); FInnerDone 1; FMark 4; FTerm Done] = false.
Proof. vm_compute. reflexivity. Qed.

(* merge_all(2): the same hot subject emitted twice, a failing synchronous inner observable,
   items after the terminal and after the subject's completion *)
Definition ex_sts2 : list fstim :=
  [FOuter (ONext (IHot 0)); FOuter (ONext (IHot 0)); FOuter (ONext (ICold [Next (VZ 1%Z); Err 3%Z; Next (VZ 2%Z)]));
   FInner 0 (Next (VZ 5%Z)); FInner 1 (Next (VZ 9%Z)); FInner 0 Done; FInner 0 (Next (VZ 6%Z)); FOuter (ONext (IHot 1))].

Definition ex_out2 : list fout :=
  [FMark 0; FSubscribed 0; FMark 1; FSubscribed 1; FMark 2; FMark 3; FItem 0 (VZ 5%Z); FItem 1 (VZ 5%Z); FMark 4;
   FMark 5; FInnerDone 0; FSubscribed 2; FItem 2 (VZ 1%Z); FTerm (Err 3%Z); FMark 6; FMark 7].

Example ex_out2_is_run : run_flatten (Some 2) ex_sts2 = ex_out2.
Proof. vm_compute. reflexivity. Qed.

Example ex_accept2 : items_exact_ok (Some 2) ex_sts2 ex_out2 = true.
Proof. vm_compute. reflexivity. Qed.

(* one item per subscription, in subscription order *)
Example ex_reject_subscription_order :
  items_exact_ok (Some 2) ex_sts2
    [FMark 0; FSubscribed 0; FMark 1; FSubscribed 1; FMark 2; FMark 3; FItem 1 (VZ 5%Z); FItem 0 (VZ 5%Z); FMark 4;
     FMark 5; FInnerDone 0; FSubscribed 2; FItem 2 (VZ 1%Z); FTerm (Err 3%Z); FMark 6; FMark 7] = false.
Proof. vm_compute. reflexivity. Qed.

(* nothing after the script's error *)
Example ex_reject_item_after_script_error :
  items_exact_ok (Some 2) ex_sts2
    [FMark 0; FSubscribed 0; FMark 1; FSubscribed 1; FMark 2; FMark 3; FItem 0 (VZ 5%Z); FItem 1 (VZ 5%Z); FMark 4;
     FMark 5; FInnerDone 0; FSubscribed 2; FItem 2 (VZ 1%Z); FTerm (Err 3%Z); FItem 2 (VZ 2%Z); FMark 6; FMark 7] = false.
Proof. vm_compute. reflexivity. Qed.

(* nothing after the downstream terminal *)
Example ex_reject_item_after_terminal :
  items_exact_ok (Some 2) ex_sts2
    [FMark 0; FSubscribed 0; FMark 1; FSubscribed 1; FMark 2; FMark 3; FItem 0 (VZ 5%Z); FItem 1 (VZ 5%Z); FMark 4;
     FMark 5; FInnerDone 0; FSubscribed 2; FItem 2 (VZ 1%Z); FTerm (Err 3%Z); FMark 6; FItem 1 (VZ 6%Z); FMark 7] = false.
Proof. vm_compute. reflexivity. Qed.

(* nothing after unsubscribe() *)
Definition ex_sts3 : list fstim := [FOuter (ONext (IHot 0)); FInner 0 (Next (VZ 1%Z)); FUnsub; FInner 0 (Next (VZ 2%Z))].

Example ex_accept3 :
  run_flatten None ex_sts3 = [FMark 0; FSubscribed 0; FMark 1; FItem 0 (VZ 1%Z); FMark 2; FMark 3] /\
  items_exact_ok None ex_sts3 (run_flatten None ex_sts3) = true.
Proof. vm_compute. split; reflexivity. Qed.

Example ex_reject_item_after_unsub :
  items_exact_ok None ex_sts3 [FMark 0; FSubscribed 0; FMark 1; FItem 0 (VZ 1%Z); FMark 2; FMark 3; FItem 0 (VZ 2%Z)] = false.
Proof. vm_compute. reflexivity. Qed.

(* concat: an item of another inner observable inside FSubscribed k .. FInnerDone k *)
Example ex_concat_accept : concat_exclusive_ok ex_out1 = true.
Proof. vm_compute. reflexivity. Qed.

Example ex_concat_reject :
  concat_exclusive_ok
    [FMark 0; FSubscribed 0; FMark 1; FMark 2; FItem 0 (VZ 5%Z); FItem 1 (VZ 7%Z); FMark 3; FInnerDone 0; FSubscribed 1;
     FItem 1 (VZ 8%Z); FInnerDone 1; FMark 4; FTerm Done] = false.
Proof. vm_compute. reflexivity. Qed.

(* merge_all(2) interleaves, so the concat predicate is specific to the limit 1 *)
Example ex_concat_reject_merge2 : concat_exclusive_ok ex_out2 = false.
Proof. vm_compute. reflexivity. Qed.

Example ex_subs_reject : subs_consecutive 0 [FMark 0; FSubscribed 1; FMark 1; FSubscribed 0] = false.
Proof. vm_compute. reflexivity. Qed.

Check flatten_items_exact : forall n sts, valid_limit n -> items_exact_ok n sts (run_flatten n sts) = true.
Check flatten_subs_consecutive : forall n sts, valid_limit n -> subs_consecutive 0 (run_flatten n sts) = true.
Check flatten_subs_increasing : forall n sts, valid_limit n -> subs_increasing 0 (run_flatten n sts) = true.
Check flatten_concat_exclusive : forall sts, concat_exclusive_ok (run_flatten (Some 1) sts) = true.

Print Assumptions flatten_items_exact.
Print Assumptions flatten_subs_consecutive.
Print Assumptions flatten_subs_increasing.
Print Assumptions flatten_concat_exclusive.
