(* The method bodies of the observers of the eight two-input operators, as translated from /repo/src on this run
   (Gen/Bodies.v: impl blocks inside the macros included) and given meaning by Model/RustSem.v, do exactly what the
   machines of Model/Ops2.v do: for every shared state, either input, every notification. *)
From RxModel Require Import BodyAbs2.
From RxGen Require Import Bodies.
From RxProofs Require Import BodyTie.
Open Scope string_scope.
Open Scope list_scope.

Lemma step2_merge : step2_agrees bodies OMerge.
Proof.
  intros s sd e. destruct s as [al xa xb ya yb done sk]. destruct al, done, e; cbn [abs2]; tie.
Qed.

Lemma step2_zip : step2_agrees bodies OZip.
Proof.
  intros s sd e. destruct s as [al xa xb ya yb done sk].
  destruct e as [v|x|]; cbn [abs2 src2 snd].
  - destruct sd, al, done, xa, xb; ev_lists; fold_arith; reflexivity.
  - destruct sd, al, done; tie.
  - destruct sd, al, done; tie.
Qed.

Lemma step2_combine f : step2_agrees bodies (OCombineLatest f).
Proof.
  intros s sd e. destruct s as [al xa xb ya yb done sk].
  destruct sd, e; cbn [abs2 src2 snd]; destruct al, done, ya, yb; tie.
Qed.

Lemma step2_wlf : step2_agrees bodies OWithLatestFrom.
Proof. intros s sd e. destruct s as [al xa xb ya yb done sk]. destruct sd, e; cbn [abs2 src2 snd]; destruct al, yb; tie. Qed.

Lemma step2_take_until : step2_agrees bodies OTakeUntil.
Proof. intros s sd e. destruct s as [al xa xb ya yb done sk]. destruct sd, e; cbn [abs2 src2 snd]; destruct al; tie. Qed.

Lemma step2_skip_until : step2_agrees bodies OSkipUntil.
Proof. intros s sd e. destruct s as [al xa xb ya yb done sk]. destruct sd, e; cbn [abs2 src2 snd]; destruct al, sk; tie. Qed.

Lemma step2_sample : step2_agrees bodies OSample.
Proof. intros s sd e. destruct s as [al xa xb ya yb done sk]. destruct sd, e; cbn [abs2 src2 snd]; destruct al, ya; tie. Qed.

Lemma step2_buffer : step2_agrees bodies OBuffer.
Proof.
  intros s sd e. destruct s as [al xa xb ya yb done sk].
  destruct sd, e; cbn [abs2 src2 snd]; destruct al, xa; ev_lists; fold_arith; reflexivity.
Qed.

Theorem step2_all o : step2_agrees bodies o.
Proof.
  destruct o; [apply step2_merge | apply step2_zip | apply step2_combine | apply step2_wlf | apply step2_take_until
              | apply step2_skip_until | apply step2_sample | apply step2_buffer].
Qed.

(* whole timelines: the shared content after any merged sequence of calls on the two observers, and everything sent on *)
Fixpoint src_run2 (o : op2) (s : st2) (live_a live_b : bool) (tl : timeline) : option (list ev) :=
  match tl with
  | [] => Some []
  | (sd, e) :: r =>
      let live := match sd with A => live_a | B => live_b end in
      if live then
        match abs2 o sd s with
        | Some self =>
            match src_call2 bodies o sd (fst (arg_of e)) self (snd (arg_of e)) with
            | Some (_, out) =>
                (* both observers hold the same cell: the other one sees what this call left there *)
                let s' := fst (step2 o s sd e) in
                let la' := match sd with A => negb (is_term e) | B => live_a end in
                let lb' := match sd with B => negb (is_term e) | A => live_b end in
                match src_run2 o s' la' lb' r with Some rest => Some (out ++ rest) | None => None end
            | None => None
            end
        | None => None
        end
      else src_run2 o s live_a live_b r
  end.

Theorem src_run2_agrees o :
  forall tl s la lb, src_run2 o s la lb tl = Some (run2 o s la lb tl).
Proof.
  induction tl as [|[sd e] r IH]; intros s la lb; [reflexivity|].
  cbn [src_run2 run2].
  destruct (match sd with A => la | B => lb end); [|apply IH].
  pose proof (step2_all o s sd e) as H.
  destruct (abs2 o sd s) as [self|] eqn:Ea.
  - destruct (abs2 o sd (fst (step2 o s sd e))) as [self'|] eqn:Eb; [|contradiction].
    rewrite H. destruct (step2 o s sd e) as [s' out]. cbn [fst snd]. rewrite IH. reflexivity.
  - destruct (abs2 o sd (fst (step2 o s sd e))); contradiction.
Qed.
