(* C19: a scheduled task runs at most once (or once per period with consecutive sequence
   numbers), never before its delay has elapsed, never after its handle was unsubscribed,
   and a handle reports closed only when the task can no longer act — for every sequence of
   polls, clock advances, cancellations and queries. *)
From RxModel Require Import Sched.
From RxSpec Require Import SchedSpec.
Open Scope N_scope.

Lemma ltb_ge a b : (a <? b) = false <-> b <= a.
Proof. rewrite N.ltb_ge. reflexivity. Qed.

(* a finished task does nothing any more *)
Lemma finished_quiet cont : forall ls now t, t_stage t = StFinished -> no_run (trun cont now t ls) = true.
Proof.
  induction ls as [|l r IH]; intros now t H; [reflexivity|].
  destruct l; cbn [trun].
  - unfold poll. rewrite H. apply IH, H.
  - cbn. apply IH. exact H.
  - cbn. apply IH, H.
Qed.

(* a cancelled task does nothing any more *)
Lemma cancelled_quiet cont : forall ls now t, t_keep t = false -> no_run (trun cont now t ls) = true.
Proof.
  induction ls as [|l r IH]; intros now t H; [reflexivity|].
  destruct l; cbn [trun].
  - unfold poll. destruct (t_stage t) eqn:Es; rewrite ?H; cbn [negb];
      try (apply finished_quiet; reflexivity). apply IH, H.
  - cbn. apply IH. reflexivity.
  - cbn. apply IH, H.
Qed.

(* the handle reports closed only for a finished task *)
Definition value_inv (t : task) : Prop := t_value t = true -> t_stage t = StFinished.

Lemma poll_value_inv now t : value_inv t -> value_inv (fst (poll now t)).
Proof.
  unfold value_inv, poll, poll_body. intros H.
  destruct (t_stage t) eqn:Es; cbn; auto;
    destruct (t_keep t); cbn; auto;
    repeat match goal with
           | |- context [if ?c then _ else _] => destruct c; cbn; auto
           | |- context [match t_body t with _ => _ end] => destruct (t_body t); cbn; auto
           end; rewrite ?Es; auto; intros; try congruence; try (specialize (H H0); congruence).
Qed.

Lemma after_tick_value_inv now t c : t_stage t <> StFinished -> value_inv t -> value_inv (after_tick now t c).
Proof.
  unfold value_inv, after_tick. intros Hs H. destruct (t_body t); [exact H|]. destruct c; cbn; auto.
Qed.

Lemma poll_run_not_finished now t j seq : snd (poll now t) = PRun j seq true -> t_stage (fst (poll now t)) <> StFinished.
Proof.
  unfold poll, poll_body. destruct (t_stage t) eqn:Es; cbn; try discriminate;
    destruct (t_keep t); cbn; try discriminate;
    repeat match goal with
           | |- context [if ?c then _ else _] => destruct c; cbn; try discriminate
           | |- context [match t_body t with _ => _ end] => destruct (t_body t); cbn; try discriminate
           end; rewrite ?Es; intros; try discriminate; congruence.
Qed.

Theorem quiet_after_cancel_or_closed cont : forall ls now t,
  value_inv t -> quiet_after_cancel (trun cont now t ls) = true.
Proof.
  induction ls as [|l r IH]; intros now t V; [reflexivity|].
  destruct l; cbn [trun].
  - pose proof (poll_value_inv (now + dt) t V) as V1.
    pose proof (poll_run_not_finished (now + dt) t) as NF.
    destruct (poll (now + dt) t) as [t1 res]. cbn [fst snd] in *.
    destruct res as [|j seq [|]]; cbn [quiet_after_cancel].
    + apply IH, V1.
    + apply IH. apply after_tick_value_inv; [eapply NF; reflexivity|exact V1].
    + apply IH, V1.
  - cbn. apply cancelled_quiet. reflexivity.
  - cbn [quiet_after_cancel]. unfold handle_closed. destruct (t_value t) eqn:Ev.
    + apply finished_quiet. apply V, Ev.
    + apply IH, V.
Qed.

(* ---------- one-shot tasks ---------- *)

Lemma once_poll_cases now t j :
  t_body t = BOnce j ->
  (snd (poll now t) = PNone /\ t_body (fst (poll now t)) = BOnce j) \/
  (snd (poll now t) = PRun j 0 false /\ t_stage (fst (poll now t)) = StFinished).
Proof.
  intros Hb. unfold poll, poll_body. rewrite Hb.
  destruct (t_stage t) eqn:Es; cbn; auto; destruct (t_keep t); cbn; auto;
    repeat match goal with |- context [if ?c then _ else _] => destruct c; cbn; auto end;
    rewrite ?Hb; cbn; auto.
Qed.

Theorem once_at_most_once cont j : forall ls now t,
  t_body t = BOnce j -> (ran_count (trun cont now t ls) <= 1)%nat.
Proof.
  induction ls as [|l r IH]; intros now t Hb; [cbn; lia|].
  destruct l; cbn [trun].
  - destruct (once_poll_cases (now + dt) t j Hb) as [[E1 E2]|[E1 E2]];
      destruct (poll (now + dt) t) as [t1 res]; cbn [fst snd] in *; subst res.
    + apply IH, E2.
    + unfold ran_count. cbn [filter length].
      pose proof (finished_quiet cont r (now + dt) t1 E2) as Q.
      assert (Hz : length (filter (fun x => match x with ORan _ _ => true | _ => false end) (trun cont (now + dt) t1 r)) = 0%nat).
      { clear -Q. induction (trun cont (now + dt) t1 r) as [|x l IHl]; [reflexivity|].
        cbn in *. apply andb_prop in Q. destruct Q as [Qx Ql]. destruct x; try discriminate; apply IHl, Ql. }
      rewrite Hz. lia.
  - cbn. apply (IH (now + dt) (cancel t)). exact Hb.
  - cbn. apply IH, Hb.
Qed.

(* `t0` is a lower bound for every future run of the task *)
Definition not_before (t0 now : N) (t : task) : Prop :=
  match t_stage t with
  | StDelay d => t0 <= now + d
  | StWait due => t0 <= due
  | StBody => t0 <= now
  | StFinished => True
  end.

Theorem never_early cont : forall ls now t t0,
  not_before t0 now t -> runs_from t0 (trun cont now t ls) = true.
Proof.
  induction ls as [|l r IH]; intros now t t0 H; [reflexivity|].
  assert (Hmono : forall dt, not_before t0 (now + dt) t).
  { intros dt. unfold not_before in *. destruct (t_stage t); lia. }
  destruct l; cbn [trun].
  - specialize (Hmono dt). set (n1 := now + dt) in *.
    assert (P : let '(t1, res) := poll n1 t in
                not_before t0 n1 t1 /\ (res <> PNone -> t0 <= n1) /\
                (forall j seq c, res = PRun j seq true -> not_before t0 n1 (after_tick n1 t1 c))).
    { unfold poll, poll_body, not_before in *.
      destruct (t_stage t) eqn:Es; cbn; destruct (t_keep t); cbn;
        repeat match goal with
               | |- context [if ?a <? ?b then _ else _] => destruct (N.ltb_spec a b); cbn
               | |- context [match t_body t with _ => _ end] => destruct (t_body t) eqn:?; cbn
               end; rewrite ?Es; repeat split; intros; try congruence; try lia;
        unfold after_tick; cbn; rewrite ?Heqb; try (destruct c; cbn; rewrite ?Es; lia). }
    destruct (poll n1 t) as [t1 res]. destruct P as (P1 & P2 & P3).
    destruct res as [|j seq [|]]; cbn [runs_from forallb].
    + apply IH, P1.
    + rewrite (proj2 (N.leb_le t0 n1)) by (apply P2; discriminate). apply (IH n1 _ t0), (P3 j seq _ eq_refl).
    + rewrite (proj2 (N.leb_le t0 n1)) by (apply P2; discriminate). apply IH, P1.
  - cbn [runs_from forallb]. apply (IH (now + dt) (cancel t)). unfold not_before, cancel in *. cbn. apply Hmono.
  - cbn [runs_from forallb]. apply IH, Hmono.
Qed.

(* the statement for a freshly scheduled task: no run before schedule time + delay *)
Corollary never_before_delay cont ls now b d :
  runs_from (now + d) (trun cont now (spawn b (Some d)) ls) = true.
Proof. apply never_early. unfold not_before, spawn. cbn. lia. Qed.

(* ---------- repeating tasks ---------- *)

Theorem repeat_ticks cont j p : forall ls now t due seq,
  t_body t = BRepeat j p due seq ->
  ticks_ok cont p seq due (trun cont now t ls) = true.
Proof.
  induction ls as [|l r IH]; intros now t due seq Hb; [reflexivity|].
  destruct l; cbn [trun].
  - set (n1 := now + dt).
    assert (P : let '(t1, res) := poll n1 t in
                (res = PNone /\ (t_body t1 = BRepeat j p due seq)) \/
                (res = PRun j seq true /\ due <= n1 /\ t_body t1 = BRepeat j p due seq /\ t_stage t1 <> StFinished)).
    { unfold poll, poll_body. rewrite Hb.
      destruct (t_stage t) eqn:Es; cbn; destruct (t_keep t); cbn;
        repeat (rewrite ?Hb; cbn;
                try match goal with
                    | |- context [if ?a <? ?b then _ else _] => destruct (N.ltb_spec a b)
                    end);
        rewrite ?Hb, ?Es;
        first [ left; split; [reflexivity|cbn; rewrite ?Hb; reflexivity]
              | right; repeat split; cbn; rewrite ?Hb, ?Es; auto; try lia; try congruence ]. }
    destruct (poll n1 t) as [t1 res]. destruct P as [[-> Hb1]|(-> & Hd & Hb1 & Hs)].
    + cbn [ticks_ok]. apply IH, Hb1.
    + cbn [ticks_ok]. rewrite Nat.eqb_refl, (proj2 (N.leb_le due n1)) by exact Hd. cbn [andb].
      unfold after_tick. rewrite Hb1. destruct (cont seq).
      * apply IH. reflexivity.
      * apply finished_quiet. reflexivity.
  - cbn [ticks_ok]. apply (IH (now + dt) (cancel t)). exact Hb.
  - cbn [ticks_ok]. apply IH, Hb.
Qed.

(* a freshly scheduled repeating task: first tick at least one period after scheduling *)
Corollary repeat_from_spawn cont ls now j p delay :
  ticks_ok cont p 0 (now + p) (trun cont now (spawn (repeat_new now j p) delay) ls) = true.
Proof. apply (repeat_ticks cont j p ls now _ (now + p) 0%nat). reflexivity. Qed.
