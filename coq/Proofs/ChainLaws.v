(* Event-by-event execution of a chain equals the stage-by-stage composition of its
   operators, and therefore the composition of their list specifications. *)
From RxModel Require Import Chain.
From RxSpec Require Import Ops1Spec.
From RxProofs Require Import Ops1Laws.

(* ---------- scripts ---------- *)

Lemma wf_mk items t : wf (mk items t) = true.
Proof. induction items as [|x xs IH]; [destruct t; reflexivity|exact IH]. Qed.

Lemma mk_items_term s : wf s = true -> mk (items_of s) (term_of s) = s.
Proof.
  induction s as [|e s IH]; intros H; [reflexivity|].
  destruct e; cbn [wf items_of term_of] in *.
  - rewrite mk_cons, IH by exact H. reflexivity.
  - destruct s; [reflexivity|discriminate].
  - destruct s; [reflexivity|discriminate].
Qed.

Lemma wf_slot s : wf (slot s) = true.
Proof. induction s as [|e s IH]; [reflexivity|]. destruct e; cbn; auto. Qed.

Lemma slot_wf s : wf s = true -> slot s = s.
Proof.
  induction s as [|e s IH]; intros H; [reflexivity|]. destruct e; cbn in *.
  - rewrite IH by exact H. reflexivity.
  - destruct s; [reflexivity|discriminate].
  - destruct s; [reflexivity|discriminate].
Qed.

Lemma wf_on_done t l : wf (on_done t l) = true.
Proof. destruct t; cbn; [reflexivity| |reflexivity]. apply (wf_mk l TDone). Qed.

Lemma wf_spec1 o items t : wf (spec1 o items t) = true.
Proof.
  destruct o; cbn [spec1]; unfold out; try apply wf_mk; try apply wf_on_done.
  - destruct n; [apply wf_mk|]. destruct (Nat.leb _ _); apply wf_mk.
  - destruct (take_while_l p inclusive items); apply wf_mk.
  - destruct items; [destruct t|]; apply wf_mk.
  - destruct (chunks_l n [] items). destruct t; apply wf_mk.
  - destruct (index_of target items); [apply wf_mk|apply wf_on_done].
Qed.

Lemma run_op_spec o s : wf s = true -> run_op o s = stage_spec o s.
Proof. intros H. unfold stage_spec. rewrite <- op_meets_spec, mk_items_term by exact H. reflexivity. Qed.

Lemma wf_run_op o s : wf s = true -> wf (run_op o s) = true.
Proof. intros H. rewrite run_op_spec by exact H. apply wf_spec1. Qed.

(* ---------- one node ---------- *)

Lemma feed_dead nd evs : n_live nd = false -> feed nd evs = (nd, []).
Proof. intros H. destruct evs; cbn; [reflexivity|]. rewrite H. reflexivity. Qed.

Lemma feed_out nd evs :
  snd (feed nd evs) = if n_live nd then run1 (n_op nd) (n_st nd) evs else [].
Proof.
  revert nd. induction evs as [|e r IH]; intros nd.
  - cbn. destruct (n_live nd); reflexivity.
  - cbn [feed run1]. destruct (n_live nd) eqn:L; [|reflexivity].
    destruct (step1 (n_op nd) (n_st nd) e) as [st' out].
    specialize (IH {| n_op := n_op nd; n_st := st'; n_live := negb (is_term e) |}).
    destruct (feed _ r) as [nd'' out'] in *. cbn [snd] in *. rewrite IH. cbn [n_live n_op n_st].
    destruct (is_term e); reflexivity.
Qed.

Lemma feed_app nd a b :
  feed nd (a ++ b) =
  let '(nd1, o1) := feed nd a in let '(nd2, o2) := feed nd1 b in (nd2, o1 ++ o2).
Proof.
  revert nd. induction a as [|e r IH]; intros nd.
  - cbn. destruct (feed nd b). reflexivity.
  - cbn [app feed]. destruct (n_live nd) eqn:L.
    + destruct (step1 (n_op nd) (n_st nd) e) as [st' out].
      rewrite IH. destruct (feed _ r) as [nd1 o1]. destruct (feed nd1 b) as [nd2 o2].
      rewrite app_assoc. reflexivity.
    + rewrite feed_dead by exact L. reflexivity.
Qed.

(* ---------- a chain ---------- *)

Lemma push_app ch a b :
  push ch (a ++ b) =
  let '(ch1, o1) := push ch a in let '(ch2, o2) := push ch1 b in (ch2, o1 ++ o2).
Proof.
  revert a b. induction ch as [|nd rest IH]; intros a b; [reflexivity|].
  cbn [push]. rewrite feed_app.
  destruct (feed nd a) as [nd1 oa]. destruct (feed nd1 b) as [nd2 ob] eqn:E.
  rewrite IH. destruct (push rest oa) as [r1 o1]. cbn [push]. rewrite E.
  destruct (push r1 ob) as [r2 o2]. reflexivity.
Qed.

Lemma drive_push ch s : drive ch s = snd (push ch s).
Proof.
  revert ch. induction s as [|e r IH]; intros ch.
  - cbn. clear. induction ch as [|nd rest IH]; [reflexivity|].
    cbn. destruct (push rest []) as [r o] in *. cbn in *. exact IH.
  - cbn [drive]. change (e :: r) with ([e] ++ r). rewrite push_app.
    destruct (push ch [e]) as [ch1 o1]. rewrite IH.
    destruct (push ch1 r). reflexivity.
Qed.

Theorem hot_eq_cold os s : run_hot os s = run_cold os s.
Proof.
  unfold run_hot, run_cold. destruct (subscribe_chain os) as [ch pre].
  rewrite drive_push. destruct (push ch s). reflexivity.
Qed.

(* stage-by-stage composition of the machines *)
Definition stages (os : list op1) (s : list ev) : list ev :=
  fold_left (fun acc o => run_op o acc) os s.

Theorem cold_eq_stages os s : run_cold os s = stages os s.
Proof.
  revert s. induction os as [|o rest IH]; intros s; [reflexivity|].
  change (stages (o :: rest) s) with (stages rest (run_op o s)).
  rewrite <- IH. unfold run_cold. cbn [subscribe_chain].
  destruct (subscribe_chain rest) as [rest' out_rest].
  destruct (push rest' (sub1 o)) as [rest'' out_o] eqn:E1.
  cbn [push]. pose proof (feed_out (node_init o) s) as F. cbn [node_init n_live n_op n_st] in F.
  destruct (feed (node_init o) s) as [nd' outs]. cbn [snd] in F. subst outs.
  destruct (push rest'' (run1 o (init1 o) s)) as [r3 out3] eqn:E2.
  unfold run_op. rewrite push_app, E1, E2.
  rewrite app_assoc. reflexivity.
Qed.

Lemma wf_stages os s : wf s = true -> wf (stages os s) = true.
Proof.
  revert s. induction os as [|o rest IH]; intros s H; [exact H|].
  cbn. apply IH. apply wf_run_op. exact H.
Qed.

Theorem stages_eq_spec os s : wf s = true -> stages os s = chain_spec os s.
Proof.
  revert s. induction os as [|o rest IH]; intros s H; [reflexivity|].
  unfold stages, chain_spec. cbn [fold_left]. rewrite run_op_spec by exact H.
  apply IH. rewrite <- run_op_spec by exact H. apply wf_run_op. exact H.
Qed.

(* The property-level statement: every chain, every well-formed script, cold or hot. *)
Theorem chain_meets_spec os s :
  wf s = true -> run_cold os s = chain_spec os s /\ run_hot os s = chain_spec os s.
Proof.
  intros H. rewrite hot_eq_cold, cold_eq_stages, stages_eq_spec by exact H. split; reflexivity.
Qed.

(* What reaches the chain from a hot input (any call sequence) is cut by the slot. *)
Theorem chain_meets_spec_any os s : run_hot os (slot s) = chain_spec os (slot s).
Proof. apply chain_meets_spec, wf_slot. Qed.

Theorem chain_output_wf os s : wf s = true -> wf (run_hot os s) = true.
Proof. intros H. rewrite hot_eq_cold, cold_eq_stages. apply wf_stages. exact H. Qed.
