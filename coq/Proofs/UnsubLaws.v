(* Untimed pipelines: unsubscribing empties the Subscriber slot(s) through which the inputs
   deliver, so the run is the run of the inputs' events up to that point.  What was delivered
   before is unaffected (runs are incremental) and nothing is delivered afterwards. *)
From RxModel Require Import Chain Ops2 Flatten.
From RxProofs Require Import ChainLaws.

(* chains: the output of a longer input extends the output of its prefix *)
Theorem run_hot_incremental os a b : exists rest, run_hot os (a ++ b) = run_hot os a ++ rest.
Proof.
  unfold run_hot. destruct (subscribe_chain os) as [ch pre].
  rewrite !drive_push, push_app. destruct (push ch a) as [ch1 o1]. destruct (push ch1 b) as [ch2 o2].
  cbn [snd]. exists o2. rewrite app_assoc. reflexivity.
Qed.

(* two-input combinators *)
Theorem run2_incremental o : forall a s la lb b,
  run2 o s la lb (a ++ b) =
  run2 o s la lb a ++ (let '(s', la', lb') := final2 o s la lb a in run2 o s' la' lb' b).
Proof.
  induction a as [|[sd e] r IH]; intros s la lb b; [reflexivity|].
  cbn [app run2 final2]. destruct (match sd with A => la | B => lb end).
  - destruct (step2 o s sd e) as [s' out]. rewrite IH, app_assoc. reflexivity.
  - apply IH.
Qed.

(* flattening: after unsubscribe only the markers remain *)
Theorem flatten_unsub_silent n s live j r :
  downstream (frun n s live j (FUnsub :: r)) = [] /\
  forall x, In x (frun n s live j (FUnsub :: r)) -> exists k, x = FMark k.
Proof.
  cbn [frun]. split.
  - cbn. induction (seq (S j) (length r)); cbn; auto.
  - intros x [<-|Hx]; [eauto|]. apply in_map_iff in Hx. destruct Hx as (k & <- & _). eauto.
Qed.
