(* C09 for buffer_with_time / buffer_with_count_and_time: under every label sequence the emitted
   buffers are never empty, never exceed the count limit, their concatenation is a prefix of the
   accepted input and the whole input once the output has completed. *)
From RxModel Require Import Timed.
From RxSpec Require Import TimedSpec.
From RxProofs Require Import ValEq TimedLaws.
Open Scope N_scope.

(* ---------- the predicate, in pieces ---------- *)

Definition items (src : list (ev * N)) : list val :=
  flat_map (fun p => match fst p with Next v => [v] | _ => [] end) src.

Definition flatb (bufs : list val) : list val :=
  flat_map (fun b => match b with VL l => l | _ => [] end) bufs.

Definition size_okb (limit : option nat) (b : val) : bool :=
  match b with
  | VL l => negb (Nat.eqb (length l) 0) &&
            match limit with Some n => Nat.leb (length l) (Nat.max n 1) | None => true end
  | _ => false
  end.

Definition has_done (src : list (ev * N)) : bool :=
  existsb (fun p => match fst p with Done => true | _ => false end) src.
Definition has_err (src : list (ev * N)) : bool :=
  existsb (fun p => match fst p with Err _ => true | _ => false end) src.

Definition tail_ok (fin : bool) (src : list (ev * N)) (bufs : list val) : bool :=
  is_prefix (flatb bufs) (items src) &&
  (negb (fin && has_done src && negb (has_err src)) || Nat.eqb (length (flatb bufs)) (length (items src))).

Lemma buffers_ok_unfold limit ls out :
  buffers_ok limit ls out =
  match walk (collect_step ls) (w0 true, []) out with
  | Some (w, bufs) => forallb (size_okb limit) bufs && tail_ok (w_finished w) (w_src w) bufs
  | None => false
  end.
Proof.
  unfold buffers_ok. destruct (walk (collect_step ls) (w0 true, []) out) as [[w bufs]|]; [|reflexivity].
  unfold tail_ok. rewrite Bool.andb_assoc. reflexivity.
Qed.

(* ---------- small list facts ---------- *)

Lemma is_prefix_app a b : is_prefix a (a ++ b) = true.
Proof.
  induction a as [|x a IH]; [reflexivity|]. cbn [app is_prefix]. rewrite val_eqb_refl, IH. reflexivity.
Qed.

Lemma is_prefix_refl a : is_prefix a a = true.
Proof. rewrite <- (app_nil_r a) at 2. apply is_prefix_app. Qed.

Lemma items_app a b : items (a ++ b) = items a ++ items b.
Proof. unfold items. apply flat_map_app. Qed.

Lemma flatb_app a b : flatb (a ++ b) = flatb a ++ flatb b.
Proof. unfold flatb. apply flat_map_app. Qed.

Lemma flatb_single l : flatb [VL l] = l.
Proof. unfold flatb. cbn [flat_map]. apply app_nil_r. Qed.

Lemma items_single_next v t : items [(Next v, t)] = [v].
Proof. reflexivity. Qed.

Lemma items_single_term e t : is_term e = true -> items [(e, t)] = [].
Proof. destruct e; cbn; [discriminate|reflexivity|reflexivity]. Qed.

Lemma has_err_app a b : has_err (a ++ b) = has_err a || has_err b.
Proof. unfold has_err. apply existsb_app. Qed.

(* the generalised simulation lemma: the final walking state is returned with the relation *)
Lemma run_sim_state {St} (step : list tlab -> St -> tout -> option St) (o : top) (R : tsys -> St -> Prop) :
  (forall ls_full done l r s w, ls_full = done ++ l :: r -> R s w ->
      exists w', walk (step ls_full) w (TMark (length done) :: snd (tstep o s l)) = Some w' /\ R (fst (tstep o s l)) w') ->
  forall r done s w ls_full,
    ls_full = done ++ r -> R s w ->
    exists w' s', walk (step ls_full) w (trun_sys o s (length done) r) = Some w' /\ R s' w'.
Proof.
  intros H r. induction r as [|l r IH]; intros done s w ls_full E HR.
  - exists w, s. split; [reflexivity|exact HR].
  - cbn [trun_sys]. destruct (H ls_full done l r s w E HR) as (w1 & Hw & HR').
    destruct (tstep o s l) as [s1 out]. cbn [fst snd] in *.
    change (TMark (length done) :: out ++ trun_sys o s1 (S (length done)) r)
      with ((TMark (length done) :: out) ++ trun_sys o s1 (S (length done)) r).
    rewrite walk_app, Hw.
    replace (S (length done)) with (length (done ++ [l])) by (rewrite app_length; cbn; lia).
    apply IH; [rewrite <- app_assoc; exact E|exact HR'].
Qed.

(* ---------- the relation between the system and the walking state ---------- *)

Definition data_bound (limit : option nat) (s : tsys) : Prop :=
  match limit with Some n => (length (data s) < Nat.max n 1)%nat | None => True end.

Record RB (limit : option nat) (s : tsys) (st : wstate * list val) : Prop := {
  rb_now : w_now (fst st) = now s;
  rb_sub : w_subscribed (fst st) = true;
  rb_sdone : w_src_done (fst st) = src_done s;
  rb_son : src_on s = negb (src_done s) && negb (w_unsub (fst st));
  rb_alive : alive s = negb (w_finished (fst st));
  rb_jobs : jobs s = [JFlush];
  rb_main : main_task s = Some 0%nat;
  rb_task : exists tk, tasks s = [tk] /\ (w_unsub (fst st) = true -> t_keep tk = false);
  rb_sizes : forallb (size_okb limit) (snd st) = true;
  rb_bound : data_bound limit s;
  (* while the slot is occupied nothing has been lost *)
  rb_live : alive s = true -> flatb (snd st) ++ data s = items (w_src (fst st));
  (* afterwards the input has terminated: the log and the output are frozen *)
  rb_dead : alive s = false -> src_done s = true /\ tail_ok (w_finished (fst st)) (w_src (fst st)) (snd st) = true
}.

Definition buf_op (limit : option nat) (o : top) : Prop :=
  match o, limit with
  | TBufferTime _, None => True
  | TBufferCountTime n _, Some m => n = m
  | _, _ => False
  end.

Lemma buf_op_not_raw limit o : buf_op limit o -> o <> TRaw.
Proof. intros H ->. destruct limit; exact H. Qed.

(* BufferObserver::emit *)
Lemma emit_sim limit ls s w acc :
  RB limit s (w, acc) -> w_unsub w = false ->
  exists acc', walk (collect_step ls) (w, acc) (snd (buffer_emit s)) = Some (w, acc') /\
               RB limit (fst (buffer_emit s)) (w, acc') /\
               (alive s = true -> data (fst (buffer_emit s)) = []).
Proof.
  intros H0 Hun. pose proof H0 as [Rn Rsub Rsd Rson Ra Rj Rm Rt Rsz Rb Rl Rd]. cbn [fst snd] in *.
  unfold buffer_emit. destruct (alive s) eqn:Ea.
  - destruct (data s) as [|v d] eqn:Ed.
    + exists acc. cbn [fst snd walk]. split; [reflexivity|]. split; [exact H0|intros _; exact Ed].
    + exists (acc ++ [VL (v :: d)]). cbn [fst snd walk collect_step].
      assert (Hf : w_finished w = false) by (destruct (w_finished w); [discriminate|reflexivity]).
      rewrite Hf, Hun, <- Rn, N.eqb_refl. cbn [negb andb]. split; [reflexivity|]. split; [|intros _; reflexivity].
      constructor; cbn [fst snd upd_data now src_done src_on alive jobs main_task tasks data]; auto.
      * rewrite Ea, Hf. reflexivity.
      * rewrite forallb_app, Rsz. cbn [forallb size_okb length Nat.eqb negb andb].
        unfold data_bound in Rb. destruct limit as [n|]; [|reflexivity].
        rewrite Bool.andb_true_r. apply Nat.leb_le. rewrite Ed in Rb. cbn [length] in Rb. lia.
      * unfold data_bound. destruct limit as [n|]; [|exact I]. cbn [data upd_data length]. lia.
      * intros _. rewrite flatb_app, flatb_single, app_nil_r. apply Rl. reflexivity.
      * intros Hc. rewrite Ea in Hc. discriminate.
  - exists acc. cbn [fst snd walk]. split; [reflexivity|]. split; [exact H0|intros Hc; discriminate].
Qed.

(* the terminal goes through the slot *)
Lemma term_sim limit ls s w acc e :
  RB limit s (w, acc) -> w_unsub w = false -> src_done s = true -> is_term e = true ->
  (data s = [] \/ has_err (w_src w) = true) ->
  exists w', walk (collect_step ls) (w, acc) (snd (slot_term s e)) = Some (w', acc) /\
             RB limit (fst (slot_term s e)) (w', acc).
Proof.
  intros H0 Hun Hsd He Hcl. pose proof H0 as [Rn Rsub Rsd Rson Ra Rj Rm Rt Rsz Rb Rl Rd]. cbn [fst snd] in *.
  unfold slot_term. destruct (alive s) eqn:Ea.
  - assert (Hf : w_finished w = false) by (destruct (w_finished w); [discriminate|reflexivity]).
    exists (w_deliver w 0 e). cbn [fst snd walk collect_step].
    rewrite Hf, Hun, <- Rn, N.eqb_refl. cbn [negb andb].
    split; [destruct e; [discriminate He|reflexivity|reflexivity]|].
    constructor; cbn [fst snd upd_alive w_deliver now src_done src_on alive jobs main_task tasks data
                      w_now w_subscribed w_src_done w_unsub w_finished w_src]; auto.
    + rewrite He, Bool.orb_true_r. reflexivity.
    + intros _. split; [exact Hsd|]. specialize (Rl eq_refl). unfold tail_ok. rewrite <- Rl, is_prefix_app.
      cbn [andb]. destruct Hcl as [Hd|Herr].
      * rewrite Hd, app_nil_r, Nat.eqb_refl. apply Bool.orb_true_r.
      * rewrite Herr. cbn [negb]. rewrite Bool.andb_false_r. reflexivity.
  - exists w. cbn [fst snd walk]. split; [reflexivity|exact H0].
Qed.

Arguments tail_ok : simpl never.
Arguments items : simpl never.
Arguments flatb : simpl never.
Arguments size_okb : simpl never.

(* ---------- one label ---------- *)

Lemma src_sim limit o ls s w acc e :
  buf_op limit o -> RB limit s (w, acc) ->
  exists st', walk (collect_step ls) (w_label w (Some (LSrc e)), acc) (snd (tstep o s (LSrc e))) = Some st' /\
              RB limit (fst (tstep o s (LSrc e))) st'.
Proof.
  intros Ho H0. cbn [tstep w_label]. destruct (src_done s) eqn:Esd; [|destruct (src_on s) eqn:Eon].
  - (* the input has terminated: nothing is delivered, nothing is logged *)
    pose proof H0 as [Rn Rsub Rsd Rson Ra Rj Rm Rt Rsz Rb Rl Rd]. cbn [fst snd] in *.
    rewrite Rsd, Esd. cbn [fst snd walk]. eexists. split; [reflexivity|].
    constructor; cbn; auto; congruence.
  - pose proof H0 as [Rn Rsub Rsd Rson Ra Rj Rm Rt Rsz Rb Rl Rd]. cbn [fst snd] in *.
    rewrite Rsd, Esd.
    assert (Ha : alive s = true).
    { destruct (alive s) eqn:Ea; [reflexivity|]. destruct (Rd eq_refl) as [Hc _]. congruence. }
    assert (Hun : w_unsub w = false).
    { rewrite Eon, Esd in Rson. destruct (w_unsub w); [discriminate Rson|reflexivity]. }
    assert (Hf : w_finished w = false).
    { rewrite Ha in Ra. destruct (w_finished w); [discriminate Ra|reflexivity]. }
    replace (w_subscribed w && negb (w_unsub w)) with true by (rewrite Rsub, Hun; reflexivity).
    destruct e as [v|x|]; cbn [is_term].
    + (* an item *)
      set (w1 := {| w_now := w_now w; w_cur := Some (LSrc (Next v)); w_src := w_src w ++ [(Next v, w_now w)];
                    w_src_done := false; w_unsub := w_unsub w; w_finished := w_finished w;
                    w_delivered := w_delivered w; w_subscribed := w_subscribed w |}).
      assert (Hit : flatb acc ++ data s ++ [v] = items (w_src w1)).
      { unfold w1. cbn [w_src]. rewrite items_app, items_single_next, app_assoc, (Rl Ha). reflexivity. }
      destruct o; try contradiction; destruct limit as [m|]; try contradiction; cbn [on_src].
      * (* buffer_with_time *)
        rewrite Ha. cbn [fst snd walk]. exists (w1, acc). split; [reflexivity|].
        constructor; unfold w1 in *; cbn; auto; try congruence.
      * (* buffer_with_count_and_time *)
        cbn in Ho. subst m. rewrite Ha. cbn [data upd_data].
        destruct (Nat.leb count (length (data s ++ [v]))) eqn:El.
        -- unfold buffer_emit. cbn [alive upd_data data]. rewrite Ha.
           destruct (data s ++ [v]) as [|x l] eqn:Ed; [destruct (app_cons_not_nil _ _ _ (eq_sym Ed))|].
           cbn [fst snd walk collect_step now upd_data].
           assert (Hf1 : w_finished w1 = false) by exact Hf.
           assert (Hun1 : w_unsub w1 = false) by exact Hun.
           assert (Hn1 : w_now w1 = now s) by exact Rn.
           rewrite Hf1, Hun1, Hn1, N.eqb_refl. cbn [negb andb].
           exists (w1, acc ++ [VL (x :: l)]). split; [reflexivity|].
           assert (Hlen : length (x :: l) = S (length (data s))).
           { rewrite <- Ed, app_length. cbn. lia. }
           constructor; unfold w1 in *; cbn; auto; try congruence.
           ++ rewrite forallb_app, Rsz. unfold size_okb. cbn [forallb]. rewrite Hlen. cbn [Nat.eqb negb andb].
              rewrite Bool.andb_true_r. apply Nat.leb_le. unfold data_bound in Rb. lia.
           ++ lia.
           ++ intros _. rewrite flatb_app, flatb_single, app_nil_r. exact Hit.
        -- cbn [fst snd walk]. exists (w1, acc). split; [reflexivity|].
           apply Nat.leb_gt in El.
           constructor; unfold w1 in *; cbn; auto; try congruence.
           lia.
    + (* an error: forwarded at once *)
      set (w1 := {| w_now := w_now w; w_cur := Some (LSrc (Err x)); w_src := w_src w ++ [(Err x, w_now w)];
                    w_src_done := true; w_unsub := w_unsub w; w_finished := w_finished w;
                    w_delivered := w_delivered w; w_subscribed := w_subscribed w |}).
      assert (H1 : RB limit (upd_src s false true) (w1, acc)).
      { constructor; unfold w1; cbn; auto; try congruence.
        intros _. rewrite items_app, (items_single_term (Err x)), app_nil_r by reflexivity. apply Rl, Ha. }
      assert (Hs : on_src o (upd_src s false true) (Err x) = slot_term (upd_src s false true) (Err x)).
      { destruct o; try contradiction; reflexivity. }
      rewrite Hs.
      destruct (term_sim limit ls (upd_src s false true) w1 acc (Err x) H1 Hun eq_refl eq_refl) as (w' & Hw & HR).
      { right. unfold w1. cbn [w_src]. rewrite has_err_app. cbn. apply Bool.orb_true_r. }
      exists (w', acc). split; assumption.
    + (* completion: the pending buffer first *)
      set (w1 := {| w_now := w_now w; w_cur := Some (LSrc Done); w_src := w_src w ++ [(Done, w_now w)];
                    w_src_done := true; w_unsub := w_unsub w; w_finished := w_finished w;
                    w_delivered := w_delivered w; w_subscribed := w_subscribed w |}).
      assert (H1 : RB limit (upd_src s false true) (w1, acc)).
      { constructor; unfold w1; cbn; auto; try congruence.
        intros _. rewrite items_app, (items_single_term Done), app_nil_r by reflexivity. apply Rl, Ha. }
      assert (Hs : on_src o (upd_src s false true) Done =
                   let '(s1, o1) := buffer_emit (upd_src s false true) in
                   let '(s2, o2) := slot_term s1 Done in (s2, o1 ++ o2)).
      { destruct o; try contradiction; reflexivity. }
      rewrite Hs.
      destruct (emit_sim limit ls (upd_src s false true) w1 acc H1 Hun) as (acc' & Hw1 & HR1 & Hd1).
      destruct (buffer_emit (upd_src s false true)) as [s2 o2]. cbn [fst snd] in *.
      assert (Hsd2 : src_done s2 = true).
      { destruct HR1 as [_ _ Q _ _ _ _ _ _ _ _ _]. cbn in Q. congruence. }
      destruct (term_sim limit ls s2 w1 acc' Done HR1 Hun Hsd2 eq_refl (or_introl (Hd1 Ha))) as (w' & Hw2 & HR2).
      destruct (slot_term s2 Done) as [s3 o3]. cbn [fst snd] in *.
      exists (w', acc'). split; [|exact HR2]. rewrite walk_app, Hw1. exact Hw2.
  - (* not connected any more (unsubscribed): dropped, and not logged *)
    pose proof H0 as [Rn Rsub Rsd Rson Ra Rj Rm Rt Rsz Rb Rl Rd]. cbn [fst snd] in *.
    rewrite Rsd, Esd.
    assert (Hun : w_unsub w = true).
    { rewrite Eon, Esd in Rson. destruct (w_unsub w); [reflexivity|discriminate Rson]. }
    replace (w_subscribed w && negb (w_unsub w)) with false by (rewrite Rsub, Hun; reflexivity).
    destruct (is_term e) eqn:Et; cbn [fst snd walk]; (eexists; split; [reflexivity|]);
      constructor; cbn; auto; try congruence.
    intros Hc. split; [reflexivity|apply (Rd Hc)].
Qed.

Lemma after_tick_keep now tk c : t_keep (after_tick now tk c) = t_keep tk.
Proof. unfold after_tick. destruct (t_body tk); [reflexivity|]. destruct c; reflexivity. Qed.

Lemma poll_run_keep now tk j seq rep : snd (poll now tk) = PRun j seq rep -> t_keep tk = true.
Proof.
  intros H. destruct (t_keep tk) eqn:Ek; [reflexivity|].
  destruct (poll_quiet now tk (or_intror Ek)) as [P _]. congruence.
Qed.

Lemma RB_set_task limit s w acc tk' :
  RB limit s (w, acc) -> (w_unsub w = true -> t_keep tk' = false) -> RB limit (upd_tasks s [tk']) (w, acc).
Proof.
  intros [Rn Rsub Rsd Rson Ra Rj Rm Rt Rsz Rb Rl Rd] Hk. cbn [fst snd] in *.
  constructor; cbn; auto. exists tk'. split; [reflexivity|exact Hk].
Qed.

Definition plain_label (l : tlab) : Prop :=
  match l with LSrc _ | LAdv _ | LUnsub => False | _ => True end.

Lemma RB_plain_label limit s w acc l :
  plain_label l -> RB limit s (w, acc) -> RB limit s (w_label w (Some l), acc).
Proof.
  intros Hl [Rn Rsub Rsd Rson Ra Rj Rm Rt Rsz Rb Rl Rd]. cbn [fst snd] in *.
  destruct l; try contradiction; constructor; cbn; auto.
Qed.

(* the executor polls a task: only the flush task exists *)
Lemma run_task_sim limit o ls s w acc t :
  buf_op limit o -> RB limit s (w, acc) ->
  exists st', walk (collect_step ls) (w, acc) (snd (tstep o s (LRun t))) = Some st' /\
              RB limit (fst (tstep o s (LRun t))) st'.
Proof.
  intros Ho H0. pose proof H0 as [Rn Rsub Rsd Rson Ra Rj Rm Rt Rsz Rb Rl Rd]. cbn [fst snd] in *.
  destruct Rt as (tk & Ht & Hk). cbn [tstep]. rewrite Ht, Rj, !nth_error_single.
  destruct t as [|t]; [|exists (w, acc); split; [reflexivity|exact H0]].
  destruct (poll (now s) tk) as [tk1 res] eqn:Ep. cbn [set_nth].
  assert (Hk1 : t_keep tk1 = t_keep tk).
  { pose proof (poll_keeps_flags (now s) tk) as P. rewrite Ep in P. exact P. }
  assert (H1 : RB limit (upd_tasks s [tk1]) (w, acc)).
  { apply RB_set_task; [exact H0|]. intros Hu. rewrite Hk1. apply Hk, Hu. }
  destruct res as [|jn seq rep].
  - exists (w, acc). split; [reflexivity|exact H1].
  - assert (Hkt : t_keep tk = true).
    { apply (poll_run_keep (now s) tk jn seq rep). rewrite Ep. reflexivity. }
    assert (Hun : w_unsub w = false).
    { destruct (w_unsub w) eqn:Eu; [rewrite (Hk eq_refl) in Hkt; discriminate Hkt|reflexivity]. }
    cbn [on_job].
    destruct (alive (upd_tasks s [tk1]) && negb (down_fin (upd_tasks s [tk1]))) eqn:Eg.
    + (* the flush *)
      destruct (emit_sim limit ls (upd_tasks s [tk1]) w acc H1 Hun) as (acc' & Hw & HR & _).
      destruct (buffer_emit (upd_tasks s [tk1])) as [s2 o2]. cbn [fst snd] in *.
      destruct rep.
      * pose proof HR as [_ _ _ _ _ _ _ Rt2 _ _ _ _]. cbn [fst snd] in Rt2.
        destruct Rt2 as (tk2 & Ht2 & Hk2). rewrite Ht2. cbn [nth_error set_nth fst snd].
        exists (w, acc'). split; [exact Hw|]. apply RB_set_task; [exact HR|].
        intros Hu. rewrite Hun in Hu. discriminate Hu.
      * exists (w, acc'). split; [exact Hw|exact HR].
    + (* the cell is empty or the downstream has finished: the task stops *)
      destruct rep.
      * cbn [tasks upd_tasks nth_error set_nth fst snd].
        exists (w, acc). split; [reflexivity|]. apply RB_set_task; [exact H1|].
        intros Hu. rewrite Hun in Hu. discriminate Hu.
      * cbn [fst snd]. exists (w, acc). split; [reflexivity|exact H1].
Qed.

Lemma unsub_sim limit o s w acc :
  buf_op limit o -> RB limit s (w, acc) ->
  snd (on_unsub o s) = [] /\ RB limit (fst (on_unsub o s)) (w_label w (Some LUnsub), acc).
Proof.
  intros Ho [Rn Rsub Rsd Rson Ra Rj Rm Rt Rsz Rb Rl Rd]. cbn [fst snd] in *.
  destruct Rt as (tk & Ht & Hk).
  assert (Hu : on_unsub o s = (upd_src (cancel_task s 0) false (src_done (cancel_task s 0)), [])).
  { destruct o; try contradiction; cbn [on_unsub]; rewrite Rm; unfold unsub_handle;
      rewrite Ht, Rj; cbn [nth_error subscribing andb]; reflexivity. }
  rewrite Hu. cbn [fst snd]. split; [reflexivity|].
  unfold cancel_task. rewrite Ht. cbn [nth_error set_nth].
  constructor; cbn; auto.
  - rewrite Bool.andb_false_r. reflexivity.
  - exists (cancel tk). split; reflexivity.
Qed.

Lemma buffer_step_sim limit o :
  buf_op limit o ->
  forall ls_full done l r s st, ls_full = done ++ l :: r -> RB limit s st ->
    exists st', walk (collect_step ls_full) st (TMark (length done) :: snd (tstep o s l)) = Some st' /\
                RB limit (fst (tstep o s l)) st'.
Proof.
  intros Ho ls_full done l r s [w acc] E H0. cbn [walk collect_step].
  assert (Hn : nth_error ls_full (length done) = Some l) by (rewrite E; apply nth_error_mid).
  rewrite Hn.
  assert (Hplain : plain_label l -> tstep o s l = (s, []) \/ l = LFinish \/ (exists t, l = LRun t) \/ l = LClosed).
  { intros Hl. destruct l; try contradiction; auto.
    - right. right. left. exists t. reflexivity.
    - left. destruct o; try contradiction; reflexivity.
    - left. destruct o; try contradiction; reflexivity.
    - left. destruct o; try contradiction; reflexivity.
    - left. destruct o; try contradiction; reflexivity.
    - left. destruct o; try contradiction; reflexivity. }
  destruct l.
  - apply src_sim; assumption.
  - apply run_task_sim; [exact Ho|]. apply RB_plain_label; [exact I|exact H0].
  - (* the clock *)
    destruct H0 as [Rn Rsub Rsd Rson Ra Rj Rm Rt Rsz Rb Rl Rd]. cbn [fst snd] in *.
    cbn [tstep fst snd walk]. eexists. split; [reflexivity|].
    constructor; cbn; auto. rewrite Rn. reflexivity.
  - (* unsubscribe *)
    cbn [tstep]. destruct (unsub_sim limit o s w acc Ho H0) as [Hout HR].
    rewrite Hout. cbn [walk]. eexists. split; [reflexivity|exact HR].
  - (* is_closed *)
    cbn [tstep fst snd walk collect_step]. eexists. split; [reflexivity|].
    apply RB_plain_label; [exact I|exact H0].
  - (* the downstream finishes *)
    pose proof (RB_plain_label limit s w acc LFinish I H0) as [Rn Rsub Rsd Rson Ra Rj Rm Rt Rsz Rb Rl Rd].
    cbn [fst snd] in *. cbn [tstep fst snd walk]. eexists. split; [reflexivity|].
    constructor; cbn [fst snd upd_fin now src_done src_on alive jobs main_task tasks data]; auto.
  - destruct (Hplain I) as [Hs|[Hs|[[t Hs]|Hs]]]; try discriminate Hs.
    rewrite Hs. cbn [fst snd walk]. eexists. split; [reflexivity|]. apply RB_plain_label; [exact I|exact H0].
  - destruct (Hplain I) as [Hs|[Hs|[[t Hs]|Hs]]]; try discriminate Hs.
    rewrite Hs. cbn [fst snd walk]. eexists. split; [reflexivity|]. apply RB_plain_label; [exact I|exact H0].
  - destruct (Hplain I) as [Hs|[Hs|[[t Hs]|Hs]]]; try discriminate Hs.
    rewrite Hs. cbn [fst snd walk]. eexists. split; [reflexivity|]. apply RB_plain_label; [exact I|exact H0].
  - destruct (Hplain I) as [Hs|[Hs|[[t0 Hs]|Hs]]]; try discriminate Hs.
    rewrite Hs. cbn [fst snd walk]. eexists. split; [reflexivity|]. apply RB_plain_label; [exact I|exact H0].
  - destruct (Hplain I) as [Hs|[Hs|[[t0 Hs]|Hs]]]; try discriminate Hs.
    rewrite Hs. cbn [fst snd walk]. eexists. split; [reflexivity|]. apply RB_plain_label; [exact I|exact H0].
Qed.

(* ---------- every run ---------- *)

Lemma RB_init limit o : buf_op limit o -> RB limit (tinit o) (w0 true, []).
Proof.
  intros Ho. destruct o; try contradiction; destruct limit as [m|]; try contradiction;
    constructor; cbn; auto; try (eexists; split; [reflexivity|discriminate]); try discriminate.
  lia.
Qed.

Lemma RB_final limit s w acc :
  RB limit s (w, acc) -> forallb (size_okb limit) acc && tail_ok (w_finished w) (w_src w) acc = true.
Proof.
  intros [Rn Rsub Rsd Rson Ra Rj Rm Rt Rsz Rb Rl Rd]. cbn [fst snd] in *.
  rewrite Rsz. cbn [andb]. destruct (alive s) eqn:Ea.
  - assert (Hf : w_finished w = false) by (destruct (w_finished w); [discriminate Ra|reflexivity]).
    rewrite Hf. unfold tail_ok. rewrite <- (Rl eq_refl), is_prefix_app. reflexivity.
  - apply (Rd eq_refl).
Qed.

Theorem buffers_meet_spec limit o ls :
  buf_op limit o -> buffers_ok limit ls (run_timed o ls) = true.
Proof.
  intros Ho. rewrite buffers_ok_unfold. unfold run_timed.
  destruct (run_sim_state collect_step o (RB limit) (buffer_step_sim limit o Ho) ls [] (tinit o) (w0 true, []) ls
              eq_refl (RB_init limit o Ho)) as ([w acc] & s' & Hw & HR).
  cbn [length] in Hw. rewrite Hw. apply (RB_final limit s' w acc HR).
Qed.

Theorem buffer_time_meets_spec : forall d ls, buffers_ok None ls (run_timed (TBufferTime d) ls) = true.
Proof. intros d ls. apply buffers_meet_spec. exact I. Qed.

Theorem buffer_count_time_meets_spec :
  forall n d ls, buffers_ok (Some n) ls (run_timed (TBufferCountTime n d) ls) = true.
Proof. intros n d ls. apply buffers_meet_spec. reflexivity. Qed.

Print Assumptions buffer_time_meets_spec.
Print Assumptions buffer_count_time_meets_spec.

(* ---------- a prompt executor: each flush delivers exactly what arrived during its window ---------- *)

Definition feed (vs : list val) : list tlab := map (fun v => LSrc (Next v)) vs.

(* the items of each window arrive, the window elapses, the executor polls the flush task at once *)
Fixpoint windows (d : N) (vss : list (list val)) : list tlab :=
  match vss with
  | [] => []
  | vs :: r => feed vs ++ LAdv d :: LRun 0 :: windows d r
  end.

Definition flush_out (t : N) (vs : list val) : list tout :=
  match vs with [] => [] | _ :: _ => [TOut t (Next (VL vs))] end.

Fixpoint expected_flushes (d t : N) (vss : list (list val)) : list tout :=
  match vss with
  | [] => []
  | vs :: r => flush_out (t + d) vs ++ expected_flushes d (t + d) r
  end.

(* with a count limit: the window stays below it (otherwise the count flushes first) *)
Definition fits (limit : option nat) (vs : list val) : Prop :=
  match limit with Some n => (length vs < n)%nat | None => True end.

Lemma touts_app a b : touts (a ++ b) = touts a ++ touts b.
Proof. unfold touts. apply filter_app. Qed.

Lemma upd_data_same s : upd_data s (data s) = s.
Proof. destruct s; reflexivity. Qed.

Lemma feed_items limit o :
  buf_op limit o -> forall vs s j,
  src_done s = false -> src_on s = true -> alive s = true ->
  match limit with Some n => (length (data s) + length vs < n)%nat | None => True end ->
  touts (trun_sys o s j (feed vs)) = [] /\ tfinal o s (feed vs) = upd_data s (data s ++ vs).
Proof.
  intros Ho vs. induction vs as [|v vs IH]; intros s j Hsd Hson Ha Hfit.
  - cbn [feed map trun_sys tfinal touts filter]. split; [reflexivity|]. rewrite app_nil_r. symmetry. apply upd_data_same.
  - assert (Hstep : tstep o s (LSrc (Next v)) = (upd_data s (data s ++ [v]), [])).
    { cbn [tstep]. rewrite Hsd, Hson. cbn [is_term].
      destruct o; try contradiction; destruct limit as [m|]; try contradiction; cbn [on_src]; rewrite Ha.
      - reflexivity.
      - cbn in Ho. subst m. cbn [data upd_data].
        destruct (Nat.leb_spec count (length (data s ++ [v]))) as [Hle|Hgt]; [|reflexivity].
        rewrite app_length in Hle. cbn [length] in Hle, Hfit. lia. }
    cbn [feed map trun_sys tfinal]. rewrite Hstep. cbn [fst snd app]. fold (feed vs).
    destruct (IH (upd_data s (data s ++ [v])) (S j)) as [I1 I2]; cbn [upd_data src_done src_on alive data]; auto.
    { destruct limit as [m|]; [|exact I]. rewrite app_length. cbn [length] in *. lia. }
    split; [exact I1|]. rewrite I2. unfold upd_data. cbn. rewrite <- app_assoc. reflexivity.
Qed.

Lemma windows_gen limit o d :
  buf_op limit o ->
  forall vss k s j tk,
    Forall (fits limit) vss ->
    tasks s = [tk] -> jobs s = [JFlush] -> down_fin s = false -> alive s = true ->
    src_on s = true -> src_done s = false -> data s = [] ->
    t_stage tk = StBody -> t_keep tk = true -> t_body tk = BRepeat 0 d (now s + d) k ->
    touts (trun_sys o s j (windows d vss)) = expected_flushes d (now s) vss.
Proof.
  intros Ho vss. induction vss as [|vs vss IH]; intros k s j tk Hfit Ht Hj Hdf Ha Hson Hsd Hd Hst Hk Hb; [reflexivity|].
  cbn [windows expected_flushes]. rewrite trun_sys_app, touts_app.
  inversion Hfit as [|x l Hfit1 Hfit2]; subst x l.
  destruct (feed_items limit o Ho vs s j Hsd Hson Ha) as [F1 F2].
  { rewrite Hd. destruct limit as [m|]; [exact Hfit1|exact I]. }
  rewrite F1, F2, Hd. cbn [app].
  cbn [trun_sys tstep fst snd app]. cbn [upd_now upd_data tasks jobs now]. rewrite Ht, Hj. cbn [nth_error].
  unfold poll. rewrite Hst, Hk. cbn [negb]. unfold poll_body. rewrite Hb.
  destruct (N.ltb_spec (now s + d) (now s + d)) as [Hlt|_]; [lia|].
  cbn [on_job alive down_fin upd_tasks upd_now upd_data]. rewrite Ha, Hdf. cbn [negb andb].
  unfold buffer_emit. cbn [alive data upd_tasks upd_now upd_data]. rewrite Ha.
  destruct vs as [|v vs].
  - cbn [fst snd tasks upd_tasks upd_now upd_data set_nth nth_error now app touts filter flush_out].
    match goal with |- filter _ (trun_sys o ?s' ?j' _) = _ =>
      change (touts (trun_sys o s' j' (windows d vss)) = expected_flushes d (now s') vss);
      apply (IH (S k) s' j' (after_tick (now s + d) tk true)) end;
      cbn; auto; unfold after_tick; rewrite Hb; cbn; auto.
  - cbn [fst snd tasks upd_tasks upd_now upd_data set_nth nth_error now app touts filter flush_out].
    f_equal.
    match goal with |- filter _ (trun_sys o ?s' ?j' _) = _ =>
      change (touts (trun_sys o s' j' (windows d vss)) = expected_flushes d (now s') vss);
      apply (IH (S k) s' j' (after_tick (now s + d) tk true)) end;
      cbn; auto; unfold after_tick; rewrite Hb; cbn; auto.
Qed.

Lemma windows_run limit o d vss :
  buf_op limit o -> (o = TBufferTime d \/ exists n, o = TBufferCountTime n d) ->
  Forall (fits limit) vss ->
  touts (run_timed o (windows d vss)) = expected_flushes d 0 vss.
Proof.
  intros Ho Hd Hfit. unfold run_timed.
  destruct Hd as [->|[n ->]].
  - change (expected_flushes d 0 vss) with (expected_flushes d (now (tinit (TBufferTime d))) vss).
    eapply (windows_gen limit _ d Ho vss 0%nat _ 0%nat _ Hfit); cbn; reflexivity.
  - change (expected_flushes d 0 vss) with (expected_flushes d (now (tinit (TBufferCountTime n d))) vss).
    eapply (windows_gen limit _ d Ho vss 0%nat _ 0%nat _ Hfit); cbn; reflexivity.
Qed.

(* any number of consecutive windows (no hypothesis on d: a zero window flushes at once as well) *)
Theorem buffer_time_windows d vss :
  touts (run_timed (TBufferTime d) (windows d vss)) = expected_flushes d 0 vss.
Proof.
  apply (windows_run None (TBufferTime d) d vss I (or_introl eq_refl)).
  apply Forall_forall. intros x _. exact I.
Qed.

Theorem buffer_count_time_windows n d vss :
  Forall (fun vs => (length vs < n)%nat) vss ->
  touts (run_timed (TBufferCountTime n d) (windows d vss)) = expected_flushes d 0 vss.
Proof.
  intros H. apply (windows_run (Some n) (TBufferCountTime n d) d vss eq_refl).
  - right. exists n. reflexivity.
  - exact H.
Qed.

(* the statements asked for: one window, two consecutive windows *)
Theorem buffer_time_prompt d vs :
  0 < d ->
  touts (run_timed (TBufferTime d) (map (fun v => LSrc (Next v)) vs ++ [LAdv d; LRun 0]))
  = match vs with [] => [] | _ :: _ => [TOut d (Next (VL vs))] end.
Proof.
  intros _. pose proof (buffer_time_windows d [vs]) as H.
  cbn [windows expected_flushes] in H. rewrite app_nil_r in H. exact H.
Qed.

Theorem buffer_time_prompt_two d vs1 vs2 :
  0 < d ->
  touts (run_timed (TBufferTime d)
           (map (fun v => LSrc (Next v)) vs1 ++ [LAdv d; LRun 0] ++
            map (fun v => LSrc (Next v)) vs2 ++ [LAdv d; LRun 0]))
  = match vs1 with [] => [] | _ :: _ => [TOut d (Next (VL vs1))] end ++
    match vs2 with [] => [] | _ :: _ => [TOut (d + d) (Next (VL vs2))] end.
Proof.
  intros _. pose proof (buffer_time_windows d [vs1; vs2]) as H.
  cbn [windows expected_flushes] in H. rewrite app_nil_r in H. exact H.
Qed.

Print Assumptions buffer_time_windows.
Print Assumptions buffer_count_time_windows.
Print Assumptions buffer_time_prompt.
Print Assumptions buffer_time_prompt_two.

(* why `fits` is needed with a count limit: a window that reaches the count is flushed by the count first *)
Example count_flushes_first :
  touts (run_timed (TBufferCountTime 2 5) (windows 5 [[VZ 1; VZ 2; VZ 3]]))
  = [TOut 0 (Next (VL [VZ 1; VZ 2])); TOut 5 (Next (VL [VZ 3]))].
Proof. vm_compute. reflexivity. Qed.

Example windows_example :
  touts (run_timed (TBufferTime 5) (windows 5 [[VZ 1; VZ 2]; []; [VZ 3]]))
  = [TOut 5 (Next (VL [VZ 1; VZ 2])); TOut 15 (Next (VL [VZ 3]))].
Proof. vm_compute. reflexivity. Qed.
