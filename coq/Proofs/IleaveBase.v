(* Ileave.v (lock-level model of SubjectThreads / BehaviorSubject): basic facts, the effect of
   one move (frame lemmas), and the properties that hold of EVERY configuration and every
   script without any hypothesis: deadlock freedom, absence of panics, values. *)
From RxSpec Require Export IleaveSpec.
Local Open Scope nat_scope.

(* ------------------------------------------------------------------ *)
(* lists                                                               *)
(* ------------------------------------------------------------------ *)

Lemma imem_In x l : imem x l = true <-> In x l.
Proof.
  induction l as [|y l IH]; cbn; [split; [discriminate|tauto]|].
  rewrite orb_true_iff, IH, Nat.eqb_eq. split; intros [H|H]; auto.
Qed.

Lemma imem_false x l : imem x l = false <-> ~ In x l.
Proof.
  rewrite <- imem_In. destruct (imem x l); split; intros H.
  - discriminate.
  - exfalso; apply H; reflexivity.
  - intros H1; discriminate.
  - reflexivity.
Qed.

Lemma forallb_false_ex {A} (f : A -> bool) l : forallb f l = false -> exists x, In x l /\ f x = false.
Proof.
  induction l as [|y l IH]; cbn; [discriminate|]. intros H.
  destruct (f y) eqn:E.
  - cbn in H. destruct (IH H) as (x & Hx & Hf). exists x; auto.
  - exists y; auto.
Qed.

Lemma NoDup_app_iff {A} (a b : list A) :
  NoDup (a ++ b) <-> NoDup a /\ NoDup b /\ (forall x, In x a -> In x b -> False).
Proof.
  induction a as [|x a IH]; cbn.
  - split; [intros H; repeat split; auto; constructor|tauto].
  - split.
    + intros H. inversion H as [|x' l' Hn Hd]; subst. apply IH in Hd. destruct Hd as (Ha & Hb & Hab).
      rewrite in_app_iff in Hn. repeat split; auto.
      * constructor; tauto.
      * intros y [Hy|Hy] Hy'; [subst; tauto|eauto].
    + intros (Ha & Hb & Hab). inversion Ha as [|x' l' Hn Hd]; subst. constructor.
      * rewrite in_app_iff. intros [H|H]; [tauto|]. eapply Hab; eauto.
      * apply IH. repeat split; auto. intros y Hy Hy'. eapply Hab; eauto.
Qed.

Lemma In_remove1 x k l : In x (remove1 k l) -> In x l.
Proof.
  induction l as [|y l IH]; cbn; [tauto|]. destruct (Nat.eqb k y); cbn; intros H; auto.
  destruct H; auto.
Qed.

Lemma NoDup_remove1 k l : NoDup l -> NoDup (remove1 k l).
Proof.
  induction l as [|y l IH]; cbn; intros H; [constructor|]. inversion H as [|y' l' Hn Hd]; subst.
  destruct (Nat.eqb k y); auto. constructor; auto. intros Hy. apply Hn. eapply In_remove1; eauto.
Qed.

Lemma In_remove1_nodup x k l : NoDup l -> In x (remove1 k l) -> In x l /\ x <> k.
Proof.
  induction l as [|y l IH]; cbn; intros Hd H; [tauto|]. inversion Hd as [|y' l' Hn Hd']; subst.
  destruct (Nat.eqb k y) eqn:E.
  - apply Nat.eqb_eq in E. subst y. split; auto. intros ->. tauto.
  - apply Nat.eqb_neq in E. destruct H as [H|H]; [subst; split; auto|].
    destruct (IH Hd' H); auto.
Qed.

(* ------------------------------------------------------------------ *)
(* thread lists                                                        *)
(* ------------------------------------------------------------------ *)

Lemma nth_set_th l i x j :
  nth_error (set_th l i x) j =
  if Nat.eqb i j then match nth_error l i with Some _ => Some x | None => None end else nth_error l j.
Proof.
  revert i j. induction l as [|y l IH]; intros [|i] [|j]; cbn; auto.
  destruct (Nat.eqb i j); reflexivity.
Qed.

Lemma nth_set_th_same l i x y : nth_error l i = Some y -> nth_error (set_th l i x) i = Some x.
Proof. intros H. rewrite nth_set_th, Nat.eqb_refl, H. reflexivity. Qed.

Lemma nth_set_th_other l i x j : i <> j -> nth_error (set_th l i x) j = nth_error l j.
Proof. intros H. rewrite nth_set_th. apply Nat.eqb_neq in H. rewrite H. reflexivity. Qed.

Lemma nth_set_th_inv l t th th1 i x :
  nth_error l t = Some th -> nth_error (set_th l t th1) i = Some x ->
  (i = t /\ x = th1) \/ (i <> t /\ nth_error l i = Some x).
Proof.
  intros Ht H. rewrite nth_set_th in H. destruct (Nat.eqb t i) eqn:E.
  - apply Nat.eqb_eq in E. subst i. rewrite Ht in H. left. split; congruence.
  - apply Nat.eqb_neq in E. right. split; auto.
Qed.

Lemma ipick_cases s ths t s1 ths1 o :
  ipick s ths t = (s1, ths1, o) ->
  (s1 = s /\ ths1 = ths /\ o = []) \/
  (exists th th1, ienabled s ths t = true /\ nth_error ths t = Some th /\
                  imove s t th = (s1, th1, o) /\ ths1 = set_th ths t th1).
Proof.
  unfold ipick. destruct (ienabled s ths t) eqn:E.
  - destruct (nth_error ths t) as [th|] eqn:Et.
    + destruct (imove s t th) as [[s' th'] o'] eqn:Em. intros H. inversion H; subst.
      right. exists th, th'. auto.
    + intros H; inversion H; auto.
  - intros H; inversion H; auto.
Qed.

(* ------------------------------------------------------------------ *)
(* walking a trace with an accumulator                                 *)
(* ------------------------------------------------------------------ *)

Section Walk.
  Context {A : Type} (f : A -> itr -> option A).
  Fixpoint walks (a : A) (tr : list itr) : option A :=
    match tr with
    | [] => Some a
    | x :: r => match f a x with Some a' => walks a' r | None => None end
    end.
  Lemma walks_app a o r :
    walks a (o ++ r) = match walks a o with Some a' => walks a' r | None => None end.
  Proof.
    revert a. induction o as [|x o IH]; intros a; cbn; [reflexivity|].
    destruct (f a x); auto.
  Qed.
End Walk.

Lemma irun_walks {A} (f : A -> itr -> option A) (I : A -> ish -> list ithread -> Prop) :
  (forall a s ths t th s1 th1 o,
      I a s ths -> ienabled s ths t = true -> nth_error ths t = Some th ->
      imove s t th = (s1, th1, o) ->
      exists a', walks f a o = Some a' /\ I a' s1 (set_th ths t th1)) ->
  forall sched a s ths s' ths' tr,
    I a s ths -> irun s ths sched = (s', ths', tr) ->
    exists a', walks f a tr = Some a' /\ I a' s' ths'.
Proof.
  intros Hstep sched. induction sched as [|t r IH]; intros a s ths s' ths' tr HI Hrun; cbn in Hrun.
  - inversion Hrun; subst. exists a. split; auto.
  - destruct (ipick s ths t) as [[s1 ths1] o1] eqn:Ep.
    destruct (irun s1 ths1 r) as [[s2 ths2] o2] eqn:Er. inversion Hrun; subst.
    rewrite walks_app.
    destruct (ipick_cases _ _ _ _ _ _ Ep) as [(-> & -> & ->)|(th & th1 & He & Hn & Hm & ->)].
    + cbn. eapply IH; eauto.
    + destruct (Hstep _ _ _ _ _ _ _ _ HI He Hn Hm) as (a' & Hw & HI'). rewrite Hw. eapply IH; eauto.
Qed.

(* a check of every event, as a walk *)
Definition fchk (c : itr -> bool) (a : unit) (x : itr) : option unit := if c x then Some a else None.

Lemma walks_fchk c o : Forall (fun x => c x = true) o -> walks (fchk c) tt o = Some tt.
Proof.
  induction 1 as [|x o Hx Ho IH]; cbn; [reflexivity|]. unfold fchk at 1. rewrite Hx. exact IH.
Qed.

Lemma walks_fchk_inv c o a : walks (fchk c) tt o = Some a -> forallb c o = true.
Proof.
  induction o as [|x o IH]; cbn; [reflexivity|]. unfold fchk at 1. destruct (c x); [|discriminate].
  cbn. exact IH.
Qed.

(* ------------------------------------------------------------------ *)
(* cells                                                               *)
(* ------------------------------------------------------------------ *)

Lemma known_kill s k' k : cell_known (kill_cell s k') k = cell_known s k.
Proof.
  unfold cell_known, kill_cell. cbn. induction (s_cells s) as [|c l IH]; cbn; [reflexivity|].
  rewrite IH. destruct (Nat.eqb (fst c) k'); reflexivity.
Qed.

Lemma alive_kill s k' k : cell_alive (kill_cell s k') k = negb (Nat.eqb k' k) && cell_alive s k.
Proof.
  unfold cell_alive, kill_cell. cbn. induction (s_cells s) as [|c l IH]; cbn.
  - rewrite andb_false_r. reflexivity.
  - rewrite IH. destruct (Nat.eqb (fst c) k') eqn:E1; cbn.
    + apply Nat.eqb_eq in E1. rewrite E1.
      destruct (Nat.eqb k' k), (snd c), (existsb (fun c0 => Nat.eqb (fst c0) k && snd c0) l); reflexivity.
    + destruct (Nat.eqb k' k) eqn:E2; cbn; [|reflexivity].
      apply Nat.eqb_eq in E2. subst k. rewrite E1. reflexivity.
Qed.

Lemma known_sub s k' k : cell_known (subscribe_cell s k') k = cell_known s k || Nat.eqb k' k.
Proof.
  unfold cell_known, subscribe_cell. destruct (s_cham s); cbn; rewrite existsb_app; cbn;
    rewrite orb_false_r; reflexivity.
Qed.

Lemma alive_sub s k' k :
  cell_alive (subscribe_cell s k') k =
  cell_alive s k || (Nat.eqb k' k && match s_cham s with Some _ => true | None => false end).
Proof.
  unfold cell_alive, subscribe_cell. destruct (s_cham s); cbn; rewrite existsb_app; cbn;
    rewrite ?orb_false_r, ?andb_true_r, ?andb_false_r; reflexivity.
Qed.

Lemma alive_known s k : cell_alive s k = true -> cell_known s k = true.
Proof.
  unfold cell_alive, cell_known. induction (s_cells s) as [|c l IH]; cbn; [discriminate|].
  destruct (Nat.eqb (fst c) k); cbn; auto.
Qed.

Lemma known_set_obs s o k : cell_known (set_obs s o) k = cell_known s k. Proof. reflexivity. Qed.
Lemma known_set_cham s o k : cell_known (set_cham s o) k = cell_known s k. Proof. reflexivity. Qed.
Lemma known_set_val s o k : cell_known (set_val s o) k = cell_known s k. Proof. reflexivity. Qed.
Lemma known_set_busy s o k : cell_known (set_busy s o) k = cell_known s k. Proof. reflexivity. Qed.
Lemma alive_set_obs s o k : cell_alive (set_obs s o) k = cell_alive s k. Proof. reflexivity. Qed.
Lemma alive_set_cham s o k : cell_alive (set_cham s o) k = cell_alive s k. Proof. reflexivity. Qed.
Lemma alive_set_val s o k : cell_alive (set_val s o) k = cell_alive s k. Proof. reflexivity. Qed.
Lemma alive_set_busy s o k : cell_alive (set_busy s o) k = cell_alive s k. Proof. reflexivity. Qed.

#[export] Hint Rewrite known_kill alive_kill known_sub alive_sub known_set_obs known_set_cham known_set_val
  known_set_busy alive_set_obs alive_set_cham alive_set_val alive_set_busy : il.

(* ------------------------------------------------------------------ *)
(* the case analysis of one move                                       *)
(* ------------------------------------------------------------------ *)

Ltac brk_in H :=
  repeat (cbn beta iota in H;
   match type of H with
   | (match ?x with _ => _ end) = _ => destruct x eqn:?
   end).

(* H : imove s t {| t_pc := pc; t_ops := ops; t_idx := idx |} = (s1, th1, o) *)
Ltac imove_cases H :=
  unfold imove, enter_cb, leave_cb in H; cbn [t_pc t_ops t_idx] in H; brk_in H;
  repeat match type of H with context [match ?x with _ => _ end] => destruct x eqn:? end;
  inversion H; subst; clear H; cbn [t_pc t_ops t_idx at_pc op_done] in *.

Ltac rw_eqs := repeat match goal with
  | E : ?x = true |- context [?x] => rewrite E
  | E : ?x = false |- context [?x] => rewrite E
  | E : ?x = Some _ |- context [?x] => rewrite E
  | E : ?x = None |- context [?x] => rewrite E
  end.

(* the probe whose callback a parked thread is inside *)
Definition in_cb (pc : ipc) : option nat :=
  match pc with PInCb _ k _ | PInCbT _ k _ | PInCbB k _ => Some k | _ => None end.

(* the probe whose cell the next move of the thread pushes *)
Definition sub_now (th : ithread) : option nat :=
  match t_pc th, t_ops th with
  | PIdle, ISub k :: _ => Some k
  | PSubCham k, _ => Some k
  | _, _ => None
  end.

Definition pay_op (p : payload) : iop := match p with YItem v => INext v | YTerm e => ITerm e end.

(* the operation a parked thread is inside is the head of its script *)
Definition pc_op (pc : ipc) : option iop :=
  match pc with
  | PIdle => None
  | PLoad p | PDeliver p => Some (pay_op p)
  | PCell v _ | PInCb v _ _ => Some (INext v)
  | PFin e _ | PClosed e _ | PTake e _ | PInCbT e _ _ => Some (ITerm e)
  | PInCbB k _ | PSubCham k => Some (IBSub k)
  | PSUnsub => Some ISUnsub
  end.

Definition pc_ok (th : ithread) : Prop :=
  match pc_op (t_pc th) with Some o => exists r, t_ops th = o :: r | None => True end.

(* ------------------------------------------------------------------ *)
(* C10: no deadlock -- of ANY configuration                            *)
(* ------------------------------------------------------------------ *)

Definition fin_th (th : ithread) : bool := match t_pc th, t_ops th with PIdle, [] => true | _, _ => false end.

Lemma ineed_none s th : ineed s th = None -> fin_th th = true.
Proof.
  destruct th as [pc ops idx]. unfold ineed, fin_th. cbn.
  destruct pc as [ | p | p | v rest | v k rest | e rest | e rest | e rest | e k rest | k x | k | ];
    try discriminate; try (destruct rest; discriminate).
  destruct ops as [|[v|e|k|k|v|k| |] r]; try discriminate; auto. destruct (cell_known s k); discriminate.
Qed.

Lemma cham_free pc : iholds pc LCham = false.
Proof. destruct pc; reflexivity. Qed.

Lemma cell_holder_need s th k : iholds (t_pc th) (LCell k) = true -> ineed s th = Some None.
Proof.
  destruct th as [pc ops idx]. unfold ineed. cbn. destruct pc; cbn; try discriminate; auto.
Qed.

Lemma holder_need s th l :
  iholds (t_pc th) l = true ->
  ineed s th = Some None \/ ineed s th = Some (Some LCham) \/ exists k, ineed s th = Some (Some (LCell k)).
Proof.
  destruct th as [pc ops idx]. unfold ineed. cbn.
  destruct pc as [ | p | p | v rest | v k rest | e rest | e rest | e rest | e k rest | k x | k | ];
    destruct l; cbn; try discriminate; intros _; auto; destruct rest; eauto.
Qed.

Lemma iheld_ex ths l :
  iheld ths l = true -> exists j thj, nth_error ths j = Some thj /\ iholds (t_pc thj) l = true.
Proof.
  unfold iheld. rewrite existsb_exists. intros (th & Hin & Hh).
  destruct (In_nth_error _ _ Hin) as (j & Hj). eauto.
Qed.

Lemma iheld_false ths l :
  iheld ths l = false -> forall j thj, nth_error ths j = Some thj -> iholds (t_pc thj) l = false.
Proof.
  intros H j thj Hj. destruct (iholds (t_pc thj) l) eqn:E; [|reflexivity].
  assert (iheld ths l = true) as H1; [|congruence].
  unfold iheld. rewrite existsb_exists. exists thj. split; auto. eapply nth_error_In; eauto.
Qed.

Lemma enabled_of s ths t th :
  nth_error ths t = Some th ->
  (ineed s th = Some None \/ exists l, ineed s th = Some (Some l) /\ iheld ths l = false) ->
  ienabled s ths t = true.
Proof.
  intros Ht H. unfold ienabled. rewrite Ht. destruct H as [->|(l & -> & ->)]; reflexivity.
Qed.

Lemma enabled_inv s ths t th :
  ienabled s ths t = true -> nth_error ths t = Some th ->
  ineed s th = Some None \/ exists l, ineed s th = Some (Some l) /\ iheld ths l = false.
Proof.
  unfold ienabled. intros H Ht. rewrite Ht in H. destruct (ineed s th) as [[l|]|]; try discriminate; auto.
  right. exists l. split; auto. destruct (iheld ths l); [discriminate|reflexivity].
Qed.

(* the lock an enabled thread is about to take is held by nobody *)
Lemma enabled_free s ths t th l j thj :
  ienabled s ths t = true -> nth_error ths t = Some th -> ineed s th = Some (Some l) ->
  nth_error ths j = Some thj -> iholds (t_pc thj) l = false.
Proof.
  intros He Ht Hn Hj. destruct (enabled_inv _ _ _ _ He Ht) as [H|(l' & H & Hf)]; [congruence|].
  assert (l' = l) by congruence. subst. eapply iheld_false; eauto.
Qed.

Lemma some_enabled s ths : ifinished ths = false -> exists t, ienabled s ths t = true.
Proof.
  intros H. unfold ifinished in H. apply forallb_false_ex in H. destruct H as (th & Hin & Hf).
  destruct (In_nth_error _ _ Hin) as (i & Hi).
  destruct (ineed s th) as [[l|]|] eqn:En.
  2:{ exists i. eapply enabled_of; eauto. }
  2:{ apply ineed_none in En. unfold fin_th in En. congruence. }
  destruct (iheld ths l) eqn:Eh.
  2:{ exists i. eapply enabled_of; eauto. }
  apply iheld_ex in Eh. destruct Eh as (j & thj & Hj & Hh).
  destruct (holder_need s thj l Hh) as [H1|[H1|(k & H1)]].
  - exists j. eapply enabled_of; eauto.
  - exists j. eapply enabled_of; eauto. right. exists LCham. split; auto.
    destruct (iheld ths LCham) eqn:Ec; [|reflexivity]. apply iheld_ex in Ec.
    destruct Ec as (m & thm & _ & Hm). rewrite cham_free in Hm. discriminate.
  - destruct (iheld ths (LCell k)) eqn:Ec.
    + apply iheld_ex in Ec. destruct Ec as (m & thm & Hm & Hhm). exists m.
      eapply enabled_of; eauto. left. eapply cell_holder_need; eauto.
    + exists j. eapply enabled_of; eauto.
Qed.

Theorem no_stuck s ths : istuck s ths = false.
Proof.
  unfold istuck. destruct (ifinished ths) eqn:F; [reflexivity|]. cbn.
  destruct (some_enabled s ths F) as (t & Ht).
  apply not_true_iff_false. intros H. rewrite forallb_forall in H.
  assert (In t (seq 0 (length ths))) as Hin.
  { apply in_seq. split; [lia|]. cbn. apply nth_error_Some. unfold ienabled in Ht.
    destruct (nth_error ths t); [discriminate|discriminate]. }
  apply H in Hin. rewrite Ht in Hin. discriminate.
Qed.

Lemma run_case_eq v0 setup scripts sched :
  run_case v0 setup scripts sched =
  let s0 := run_alone 1000 (ish0 v0) (start_thread setup) in
  let '(s, ths, tr) := irun s0 (map start_thread scripts) sched in
  (tr, if ifinished ths then EFinished else if istuck s ths then EDeadlock else EShort, s_val s).
Proof. reflexivity. Qed.

Theorem il_no_deadlock v0 setup scripts sched :
  let '(tr, e, fin) := run_case v0 setup scripts sched in e <> EDeadlock.
Proof.
  rewrite run_case_eq. cbv zeta.
  destruct (irun _ _ sched) as [[s ths] tr]. rewrite no_stuck. destruct (ifinished ths); discriminate.
Qed.

(* ------------------------------------------------------------------ *)
(* frame lemmas: what one move does                                    *)
(* ------------------------------------------------------------------ *)

Ltac bsimp := repeat match goal with
  | H : _ && _ = true |- _ => apply andb_true_iff in H; destruct H
  | H : _ || _ = true |- _ => apply orb_true_iff in H; destruct H
  | H : _ || _ = false |- _ => apply orb_false_iff in H; destruct H
  | H : negb _ = true |- _ => apply negb_true_iff in H
  | H : negb _ = false |- _ => apply negb_false_iff in H
  | H : Nat.eqb _ _ = true |- _ => apply Nat.eqb_eq in H; try subst
  end.

Lemma F_holds s t th s1 th1 o l :
  imove s t th = (s1, th1, o) -> iholds (t_pc th1) l = true ->
  iholds (t_pc th) l = true \/ ineed s th = Some (Some l).
Proof.
  destruct th as [pc ops idx]. intros H. imove_cases H.
  all: unfold ineed; cbn [t_pc t_ops iholds]; rw_eqs.
  all: destruct l; cbn [iholds]; try discriminate; auto.
  all: try (intros Hk; apply Nat.eqb_eq in Hk; subst; auto).
Qed.

Lemma F_tid s t t' th : fst (imove s t th) = fst (imove s t' th).
Proof.
  destruct th as [pc ops idx]. unfold imove, enter_cb, leave_cb. cbn [t_pc t_ops t_idx].
  destruct pc as [ | p | p | v rest | v k rest | e rest | e rest | e rest | e k rest | k x | k | ];
    try reflexivity.
  - destruct ops as [|[v|e|k|k|v|k| |] r]; try reflexivity. destruct (cell_known s k); reflexivity.
  - destruct (s_obs s), (s_cham s); reflexivity.
  - destruct p; destruct (s_obs s) as [[|]|]; reflexivity.
  - destruct rest as [|k0 rest']; [reflexivity|]. destruct (cell_alive s k0); reflexivity.
  - destruct rest as [|k0 rest']; [reflexivity|]. destruct (cell_alive s k0); reflexivity.
  - destruct rest as [|k0 rest']; [reflexivity|]. destruct (cell_alive s k0); reflexivity.
  - destruct rest as [|k0 rest']; [reflexivity|]. destruct (cell_alive s k0); reflexivity.
Qed.

Lemma F_known s t th s1 th1 o k :
  imove s t th = (s1, th1, o) ->
  cell_known s1 k = cell_known s k || match sub_now th with Some k' => Nat.eqb k' k | None => false end.
Proof.
  destruct th as [pc ops idx]. intros H. imove_cases H.
  all: unfold sub_now; cbn [t_pc t_ops]; autorewrite with il; rewrite ?orb_false_r; reflexivity.
Qed.

Lemma F_alive s t th s1 th1 o k :
  imove s t th = (s1, th1, o) -> cell_alive s1 k = true ->
  cell_alive s k = true \/ sub_now th = Some k.
Proof.
  destruct th as [pc ops idx]. intros H Ha. imove_cases H.
  all: unfold sub_now; cbn [t_pc t_ops]; autorewrite with il in Ha; bsimp; auto.
Qed.

Lemma F_kill s t th s1 th1 o k :
  imove s t th = (s1, th1, o) -> cell_alive s k = true -> cell_alive s1 k = false ->
  ineed s th = Some (Some (LCell k)).
Proof.
  destruct th as [pc ops idx]. intros H Ha Hd. imove_cases H.
  all: autorewrite with il in Hd; try congruence.
  all: try (rewrite Ha in Hd; cbn in Hd; rewrite ?orb_true_l in Hd; try discriminate).
  all: rewrite ?andb_true_r in Hd; bsimp.
  all: unfold ineed; cbn [t_pc t_ops]; rw_eqs; auto.
Qed.

Lemma sub_tl ops : exists pre, subscribed_in ops = pre ++ subscribed_in (tl ops).
Proof. destruct ops as [|o r]; [exists []; reflexivity|]. cbn. eexists; reflexivity. Qed.

Lemma F_suffix s t th s1 th1 o :
  imove s t th = (s1, th1, o) -> exists pre, subscribed_in (t_ops th) = pre ++ subscribed_in (t_ops th1).
Proof.
  destruct th as [pc ops idx]. intros H. imove_cases H.
  all: first [ exists []; reflexivity | apply sub_tl | eexists; rewrite app_nil_r; reflexivity ].
Qed.

Lemma sub_now_in th k : sub_now th = Some k -> pc_ok th -> In k (subscribed_in (t_ops th)).
Proof.
  destruct th as [pc ops idx]. unfold sub_now, pc_ok. cbn [t_pc t_ops].
  destruct pc; cbn [pc_op]; try discriminate.
  - destruct ops as [|[] r]; try discriminate. intros H _. inversion H; subst. cbn; auto.
  - intros H (r & ->). inversion H; subst. cbn; auto.
Qed.

Lemma F_sub_step s t th s1 th1 o k :
  imove s t th = (s1, th1, o) -> sub_now th = Some k -> pc_ok th ->
  subscribed_in (t_ops th) = k :: subscribed_in (t_ops th1).
Proof.
  destruct th as [pc ops idx]. intros H Hs Hp. imove_cases H.
  all: unfold sub_now, pc_ok in *; cbn [t_pc t_ops pc_op] in *; try discriminate.
  all: inversion Hs; subst; try reflexivity.
  destruct Hp as (r & ->). reflexivity.
Qed.

Lemma F_nosub s t th s1 th1 o :
  imove s t th = (s1, th1, o) -> sub_now th = None -> pc_ok th ->
  (s_cham s = None -> s_obs s = None) ->
  subscribed_in (t_ops th1) = subscribed_in (t_ops th).
Proof.
  destruct th as [pc ops idx]. intros H Hs Hp HP. imove_cases H.
  all: unfold sub_now, pc_ok in *; cbn [t_pc t_ops pc_op pay_op] in *; try discriminate; try reflexivity.
  all: try (destruct Hp as (r0 & ->); reflexivity).
  all: try (match goal with E : s_cham _ = None |- _ => apply HP in E; congruence end).
  all: try (specialize (HP eq_refl); discriminate HP).
Qed.

Lemma F_incb s t th s1 th1 o k :
  imove s t th = (s1, th1, o) -> in_cb (t_pc th1) = Some k ->
  in_cb (t_pc th) = None /\
  ((cell_alive s k = true /\ iholds (t_pc th) LObs = true /\ ineed s th = Some (Some (LCell k))) \/
   (t_pc th = PIdle /\ exists r, t_ops th = IBSub k :: r)).
Proof.
  destruct th as [pc ops idx]. intros H Hc. imove_cases H.
  all: cbn [in_cb] in Hc; try discriminate; inversion Hc; subst.
  all: split; [reflexivity|].
  all: first [ left; repeat split; auto; fail | right; split; [reflexivity|eexists; reflexivity] ].
Qed.

Lemma busy_sub s k : s_busy (subscribe_cell s k) = s_busy s.
Proof. unfold subscribe_cell. destruct (s_cham s); reflexivity. Qed.

Lemma F_busy s t th s1 th1 o :
  imove s t th = (s1, th1, o) ->
  s_busy s1 = match in_cb (t_pc th) with
              | Some k => remove1 k (s_busy s)
              | None => match in_cb (t_pc th1) with Some k => k :: s_busy s | None => s_busy s end
              end.
Proof.
  destruct th as [pc ops idx]. intros H. imove_cases H; cbn [in_cb]; rewrite ?busy_sub; reflexivity.
Qed.

Lemma F_ovl s t th s1 th1 o k :
  imove s t th = (s1, th1, o) -> In (TOverlap k) o ->
  in_cb (t_pc th1) = Some k /\ imem k (s_busy s) = true.
Proof.
  destruct th as [pc ops idx]. intros H Hi. imove_cases H.
  all: cbn in Hi; repeat (destruct Hi as [Hi|Hi]; try discriminate); try contradiction.
  all: try (inversion Hi; subst; split; [reflexivity|assumption]).
Qed.

(* thread-local facts that tie a parked thread to the shared state *)
Definition local (s : ish) (th : ithread) : Prop :=
  match t_pc th with
  | PInCb _ k _ => cell_alive s k = true
  | PInCbT _ k _ => cell_known s k = true /\ cell_alive s k = false
  | PSUnsub => s_obs s = None
  | _ => True
  end.

Lemma F_local_self s t th s1 th1 o : imove s t th = (s1, th1, o) -> local s1 th1.
Proof.
  destruct th as [pc ops idx]. intros H. imove_cases H.
  all: unfold local; cbn [t_pc at_pc op_done]; autorewrite with il; auto; try reflexivity.
  all: rewrite Nat.eqb_refl; split; [apply alive_known; assumption|reflexivity].
Qed.

Lemma F_pcok s t th s1 th1 o : imove s t th = (s1, th1, o) -> pc_ok th -> pc_ok th1.
Proof.
  destruct th as [pc ops idx]. intros H Hp. imove_cases H.
  all: unfold pc_ok in *; cbn [t_pc t_ops at_pc op_done pc_op pay_op] in *; auto; try (eexists; reflexivity).
Qed.

Lemma F_obs_none s t th s1 th1 o : imove s t th = (s1, th1, o) -> s_obs s = None -> s_obs s1 = None.
Proof.
  destruct th as [pc ops idx]. intros H Hp. imove_cases H.
  all: cbn; try assumption; try reflexivity; try congruence.
  all: unfold subscribe_cell; destruct (s_cham _); cbn; assumption.
Qed.

Lemma F_cham s t th s1 th1 o :
  imove s t th = (s1, th1, o) -> (s_cham s = None -> s_obs s = None) ->
  (t_pc th = PSUnsub -> s_obs s = None) ->
  (s_cham s1 = None -> s_obs s1 = None).
Proof.
  destruct th as [pc ops idx]. intros H Hp Hl. imove_cases H.
  all: try specialize (Hl eq_refl).
  all: cbn; try assumption; try reflexivity; try congruence.
  all: try (intros E; apply Hp in E; congruence).
  all: try (specialize (Hp eq_refl); discriminate Hp).
  all: unfold subscribe_cell; destruct (s_cham _) eqn:Ec; cbn; try discriminate; auto.
Qed.

Lemma F_nopanic s t th s1 th1 o t' :
  imove s t th = (s1, th1, o) -> (s_cham s = None -> s_obs s = None) -> ~ In (TPanic t') o.
Proof.
  destruct th as [pc ops idx]. intros H Hp Hi. imove_cases H.
  all: cbn in Hi; repeat (destruct Hi as [Hi|Hi]; try discriminate); try contradiction.
  all: try (specialize (Hp eq_refl); discriminate Hp).
  all: try (match goal with E : s_cham _ = None |- _ => apply Hp in E; congruence end).
Qed.

Lemma F_ev s t th s1 th1 o k p t' j :
  imove s t th = (s1, th1, o) -> In (TEv k p t' j) o ->
  t' = t /\ j = t_idx th /\
  ((exists rest v, t_pc th = PInCb v k rest /\ p = YItem v) \/
   (exists rest e, t_pc th = PInCbT e k rest /\ p = YTerm e) \/
   (exists x, t_pc th = PInCbB k x /\ p = YItem x)).
Proof.
  destruct th as [pc ops idx]. intros H Hi. imove_cases H.
  all: cbn in Hi; repeat (destruct Hi as [Hi|Hi]; try discriminate); try contradiction.
  all: inversion Hi; subst; split; [reflexivity|split; [reflexivity|]]; eauto 6.
Qed.

Lemma F_out s t th s1 th1 o k :
  imove s t th = (s1, th1, o) -> in_cb (t_pc th) = Some k -> exists p, o = [TEv k p t (t_idx th)].
Proof.
  destruct th as [pc ops idx]. intros H Hi. imove_cases H.
  all: cbn in Hi; try discriminate; inversion Hi; subst; eexists; reflexivity.
Qed.

Definition is_ev (x : itr) : bool := match x with TEv _ _ _ _ => true | _ => false end.

Lemma F_noev s t th s1 th1 o :
  imove s t th = (s1, th1, o) -> in_cb (t_pc th) = None -> forallb (fun x => negb (is_ev x)) o = true.
Proof.
  destruct th as [pc ops idx]. intros H Hi. imove_cases H.
  all: cbn in Hi; try discriminate; reflexivity.
Qed.

Lemma F_un s t th s1 th1 o k t' j :
  imove s t th = (s1, th1, o) -> In (TUn k t' j) o ->
  t_pc th = PIdle /\ exists r, t_ops th = IUnsub k :: r.
Proof.
  destruct th as [pc ops idx]. intros H Hi. imove_cases H.
  all: cbn in Hi; repeat (destruct Hi as [Hi|Hi]; try discriminate); try contradiction.
  all: inversion Hi; subst; split; [reflexivity|eexists; reflexivity].
Qed.

Lemma F_unsub s t th s1 th1 o k r :
  imove s t th = (s1, th1, o) -> t_pc th = PIdle -> t_ops th = IUnsub k :: r -> cell_known s k = true ->
  cell_alive s1 k = false /\ ineed s th = Some (Some (LCell k)).
Proof.
  destruct th as [pc ops idx]. cbn [t_pc t_ops]. intros H -> -> Hk.
  unfold imove in H. cbn [t_pc t_ops] in H. unfold ineed. cbn [t_pc t_ops]. rewrite Hk in *.
  inversion H; subst. autorewrite with il. rewrite Nat.eqb_refl. auto.
Qed.

(* ---- the thread's position in its script ---- *)
Definition link (script : list iop) (th : ithread) : Prop :=
  match t_ops th with
  | [] => True
  | o :: r => exists o0, nth_error script (t_idx th) = Some o0 /\ skipn (S (t_idx th)) script = r /\
                         (o0 = o \/ exists v, o0 = IBNext v /\ o = INext v)
  end.

Lemma skipn_cons {A} n (l : list A) x r : skipn n l = x :: r -> nth_error l n = Some x /\ skipn (S n) l = r.
Proof.
  revert l. induction n as [|n IH]; intros [|y l]; cbn; try discriminate.
  - intros H; inversion H; auto.
  - intros H. apply IH in H. exact H.
Qed.

Lemma link_done script th : link script th -> link script (op_done th).
Proof.
  unfold link. cbn [op_done t_ops t_idx]. destruct (t_ops th) as [|o r]; cbn [tl]; [auto|].
  intros (o0 & _ & Hs & _). destruct r as [|o' r']; [exact I|].
  apply skipn_cons in Hs. destruct Hs as [H1 H2]. exists o'. auto.
Qed.

Lemma F_link s t th s1 th1 o script : imove s t th = (s1, th1, o) -> link script th -> link script th1.
Proof.
  destruct th as [pc ops idx]. intros H Hl.
  assert (Hd := link_done _ _ Hl). imove_cases H.
  all: try exact Hl; try exact Hd; try exact I.
  unfold link in *. cbn [t_ops t_idx] in *. destruct Hl as (o0 & H1 & H2 & [H3|(v' & H3 & H4)]).
  - exists o0. subst o0. repeat split; auto. right. eexists; split; reflexivity.
  - discriminate.
Qed.

(* ------------------------------------------------------------------ *)
(* the setup script                                                    *)
(* ------------------------------------------------------------------ *)

Fixpoint run_alone_th (fuel : nat) (s : ish) (th : ithread) : ish * ithread :=
  match fuel with
  | O => (s, th)
  | S f =>
      match ineed s th with
      | None => (s, th)
      | Some _ => let '(s1, th1, _) := imove s 9 th in run_alone_th f s1 th1
      end
  end.

Lemma run_alone_fst fuel s th : run_alone fuel s th = fst (run_alone_th fuel s th).
Proof.
  revert s th. induction fuel as [|f IH]; intros s th; cbn; [reflexivity|].
  destruct (ineed s th) as [g|]; [|reflexivity]. destruct (imove s 9 th) as [[s1 th1] o]. apply IH.
Qed.

Lemma run_alone_th_inv (J : ish -> ithread -> Prop) :
  (forall s th s1 th1 o, J s th -> ineed s th <> None -> imove s 9 th = (s1, th1, o) -> J s1 th1) ->
  forall fuel s th, J s th -> J (fst (run_alone_th fuel s th)) (snd (run_alone_th fuel s th)).
Proof.
  intros Hstep fuel. induction fuel as [|f IH]; intros s th HJ; cbn; [exact HJ|].
  destruct (ineed s th) as [g|] eqn:En; [|exact HJ].
  destruct (imove s 9 th) as [[s1 th1] o] eqn:Em. apply IH. eapply Hstep; eauto. congruence.
Qed.

(* ------------------------------------------------------------------ *)
(* C10: no call panics -- no hypothesis on the scripts                 *)
(* ------------------------------------------------------------------ *)

Definition chamP (s : ish) : Prop := s_cham s = None -> s_obs s = None.
Definition unsP (s : ish) (th : ithread) : Prop := t_pc th = PSUnsub -> s_obs s = None.
Definition PanInv (s : ish) (ths : list ithread) : Prop :=
  chamP s /\ forall i th, nth_error ths i = Some th -> unsP s th.

Lemma unsP_self s t th s1 th1 o : imove s t th = (s1, th1, o) -> unsP s1 th1.
Proof.
  intros H Hpc. apply F_local_self in H. unfold local in H. rewrite Hpc in H. exact H.
Qed.

Lemma PanInv_step s ths t t' th s1 th1 o :
  PanInv s ths -> nth_error ths t = Some th -> imove s t' th = (s1, th1, o) ->
  PanInv s1 (set_th ths t th1).
Proof.
  intros [Hc Hu] Ht Hm. split.
  - unfold chamP. eapply F_cham; eauto. apply (Hu _ _ Ht).
  - intros i x Hi. destruct (nth_set_th_inv _ _ _ _ _ _ Ht Hi) as [[-> ->]|[Hne Hx]].
    + eapply unsP_self; eauto.
    + intros Hpc. eapply F_obs_none; eauto. eapply Hu; eauto.
Qed.

Lemma setup_chamP v0 setup : chamP (run_alone 1000 (ish0 v0) (start_thread setup)).
Proof.
  rewrite run_alone_fst.
  apply (run_alone_th_inv (fun s th => chamP s /\ unsP s th)).
  - intros s th s1 th1 o [Hc Hu] _ Hm. split.
    + unfold chamP. eapply F_cham; eauto.
    + eapply unsP_self; eauto.
  - split; [intros H; discriminate|intros H; discriminate].
Qed.

Definition not_panic (x : itr) : bool := match x with TPanic _ => false | _ => true end.

Lemma no_panic_irun sched s ths s' ths' tr :
  PanInv s ths -> irun s ths sched = (s', ths', tr) -> no_panic tr = true.
Proof.
  intros HI Hr.
  destruct (irun_walks (fchk not_panic) (fun _ s ths => PanInv s ths)) with (sched := sched) (a := tt)
    (s := s) (ths := ths) (s' := s') (ths' := ths') (tr := tr) as (a' & Hw & _); auto.
  - intros a s0 ths0 t th s1 th1 o HP He Hn Hm. exists tt. split.
    + destruct a. apply walks_fchk. apply Forall_forall. intros x Hx.
      destruct x; try reflexivity. exfalso. eapply F_nopanic; eauto. apply HP.
    + eapply PanInv_step; eauto.
  - eapply walks_fchk_inv; eauto.
Qed.

Lemma nth_map_start scripts t th :
  nth_error (map start_thread scripts) t = Some th ->
  exists sc, nth_error scripts t = Some sc /\ th = start_thread sc.
Proof.
  rewrite nth_error_map. destruct (nth_error scripts t) as [sc|]; cbn; [|discriminate].
  intros H; inversion H. eauto.
Qed.

Theorem il_no_panic v0 setup scripts sched :
  let '(tr, e, fin) := run_case v0 setup scripts sched in no_panic tr = true.
Proof.
  rewrite run_case_eq. cbv zeta.
  destruct (irun _ _ sched) as [[s ths] tr] eqn:Er.
  eapply no_panic_irun; [|exact Er]. split.
  - apply setup_chamP.
  - intros i th Hi Hpc. apply nth_map_start in Hi. destruct Hi as (sc & _ & ->). discriminate.
Qed.

(* ------------------------------------------------------------------ *)
(* C06: nothing is invented -- no hypothesis on the scripts            *)
(* ------------------------------------------------------------------ *)

Definition Static (scripts : list (list iop)) (ths : list ithread) : Prop :=
  forall t th, nth_error ths t = Some th ->
               pc_ok th /\ exists sc, nth_error scripts t = Some sc /\ link sc th.

Lemma Static_step scripts s ths t t' th s1 th1 o :
  Static scripts ths -> nth_error ths t = Some th -> imove s t' th = (s1, th1, o) ->
  Static scripts (set_th ths t th1).
Proof.
  intros HS Ht Hm i x Hi. destruct (nth_set_th_inv _ _ _ _ _ _ Ht Hi) as [[-> ->]|[Hne Hx]].
  - destruct (HS _ _ Ht) as (Hp & sc & Hsc & Hl). split; [eapply F_pcok; eauto|].
    exists sc. split; auto. eapply F_link; eauto.
  - apply HS; auto.
Qed.

Lemma link_start sc : link sc (start_thread sc).
Proof.
  unfold link, start_thread. cbn. destruct sc as [|o r]; [exact I|]. exists o. cbn. auto.
Qed.

Lemma Static_init scripts : Static scripts (map start_thread scripts).
Proof.
  intros t th Hi. apply nth_map_start in Hi. destruct Hi as (sc & Hsc & ->). split.
  - exact I.
  - exists sc. split; auto. apply link_start.
Qed.

(* what an event of a move says, given the thread's position in its script *)
Lemma static_ev scripts s ths t th s1 th1 o k p t' j :
  Static scripts ths -> nth_error ths t = Some th -> imove s t th = (s1, th1, o) ->
  In (TEv k p t' j) o ->
  t' = t /\ j = t_idx th /\
  ((exists rest v, t_pc th = PInCb v k rest /\ p = YItem v /\ is_initial scripts (t, j) = false /\
                   (op_at scripts (t, j) = Some (INext v) \/ op_at scripts (t, j) = Some (IBNext v))) \/
   (exists rest e, t_pc th = PInCbT e k rest /\ p = YTerm e) \/
   (exists x, t_pc th = PInCbB k x /\ p = YItem x /\ is_initial scripts (t, j) = true)).
Proof.
  intros HS Ht Hm Hi. destruct (F_ev _ _ _ _ _ _ _ _ _ _ Hm Hi) as (-> & -> & Hc).
  split; [reflexivity|split; [reflexivity|]].
  destruct (HS _ _ Ht) as (Hp & sc & Hsc & Hl).
  unfold pc_ok in Hp. unfold link in Hl. unfold is_initial, op_at. cbn [fst snd]. rewrite Hsc.
  destruct Hc as [(rest & v & Hpc & ->)|[(rest & e & Hpc & ->)|(x & Hpc & ->)]]; rewrite Hpc in Hp; cbn in Hp;
    destruct Hp as (r & Hr); rewrite Hr in Hl; destruct Hl as (o0 & Hn & _ & Ho).
  - left. exists rest, v. rewrite Hn. destruct Ho as [->|(v' & -> & Hv)]; [auto|].
    inversion Hv; subst. auto.
  - right. left. eauto.
  - right. right. exists x. rewrite Hn. destruct Ho as [->|(v' & -> & Hv)]; [auto|discriminate].
Qed.

Definition ev_ok (scripts : list (list iop)) (x : itr) : bool :=
  match x with
  | TEv k (YItem v) t j =>
      is_initial scripts (t, j) ||
      match op_at scripts (t, j) with
      | Some (INext v') | Some (IBNext v') => Z.eqb v' v
      | _ => false
      end
  | _ => true
  end.

Lemma values_of_evs scripts tr : forallb (ev_ok scripts) tr = true -> values_ok scripts tr = true.
Proof.
  unfold values_ok. induction tr as [|x tr IH]; cbn [forallb]; [reflexivity|].
  intros H. apply andb_true_iff in H. destruct H as [Hx Ht]. specialize (IH Ht).
  unfold bcasts in *. cbn [flat_map]. rewrite forallb_app. apply andb_true_iff. split; [|exact IH].
  destruct x as [ | k [v|e] t j | | | | ]; try reflexivity.
  unfold ev_ok in Hx. destruct (is_initial scripts (t, j)); [reflexivity|].
  cbn in Hx |- *. rewrite andb_true_r. exact Hx.
Qed.

Lemma values_irun scripts sched s ths s' ths' tr :
  Static scripts ths -> irun s ths sched = (s', ths', tr) -> values_ok scripts tr = true.
Proof.
  intros HI Hr. apply values_of_evs.
  destruct (irun_walks (fchk (ev_ok scripts)) (fun _ s ths => Static scripts ths)) with (sched := sched) (a := tt)
    (s := s) (ths := ths) (s' := s') (ths' := ths') (tr := tr) as (a' & Hw & _); auto.
  - intros a s0 ths0 t th s1 th1 o HP He Hn Hm. exists tt. split.
    + destruct a. apply walks_fchk. apply Forall_forall. intros x Hx.
      destruct x as [ | k [v|e] t' j | | | | ]; try reflexivity.
      destruct (static_ev _ _ _ _ _ _ _ _ _ _ _ _ HP Hn Hm Hx) as (-> & -> & Hc).
      unfold ev_ok.
      destruct Hc as [(rest & v' & _ & Hv & _ & [Ho|Ho])|[(rest & e & _ & Hv)|(x & _ & _ & Hi)]];
        try discriminate.
      * inversion Hv; subst. rewrite Ho, Z.eqb_refl. apply orb_true_r.
      * inversion Hv; subst. rewrite Ho, Z.eqb_refl. apply orb_true_r.
      * rewrite Hi. reflexivity.
    + eapply Static_step; eauto.
  - eapply walks_fchk_inv; eauto.
Qed.

Theorem il_values v0 setup scripts sched :
  let '(tr, e, fin) := run_case v0 setup scripts sched in values_ok scripts tr = true.
Proof.
  rewrite run_case_eq. cbv zeta.
  destruct (irun _ _ sched) as [[s ths] tr] eqn:Er.
  eapply values_irun; [|exact Er]. apply Static_init.
Qed.
