(* Abstract multicast: who is currently subscribed, in subscription order. *)
From RxModel Require Export Subject.

Record asub := {
  live : list nat;          (* current subscribers, in subscription order *)
  closed : bool;            (* a terminal was delivered or the subject was unsubscribed *)
  torn : bool;              (* the subject itself was unsubscribed *)
  gone : list nat;          (* subscribers whose subscription reports closed *)
  fresh : nat
}.

Definition asub0 : asub := {| live := []; closed := false; torn := false; gone := []; fresh := 0 |}.

Definition remove (i : nat) (l : list nat) : list nat := filter (fun j => negb (Nat.eqb j i)) l.

Definition astep (a : asub) (op : sop) : asub * list sobs :=
  match op with
  | OpSubscribe =>
      let id := fresh a in
      if torn a then
        (* a subscription to an unsubscribed subject is born closed *)
        ({| live := live a; closed := closed a; torn := true; gone := id :: gone a; fresh := S id |}, [Subscribed id])
      else if closed a then
        (* after a terminal: accepted, never notified *)
        ({| live := live a; closed := true; torn := false; gone := gone a; fresh := S id |}, [Subscribed id])
      else
        ({| live := live a ++ [id]; closed := false; torn := false; gone := gone a; fresh := S id |}, [Subscribed id])
  | OpUnsubOne i =>
      if negb (Nat.ltb i (fresh a)) then (a, []) else
      ({| live := remove i (live a); closed := closed a; torn := torn a; gone := i :: gone a; fresh := fresh a |}, [])
  | OpNext v => (a, map (fun i => Deliver i (Next v)) (live a))
  | OpNextSubInside v i =>
      if memn i (live a) then
        let id := fresh a in
        ({| live := live a ++ [id]; closed := closed a; torn := torn a; gone := gone a; fresh := S id |},
         flat_map (fun j => Deliver j (Next v) :: (if Nat.eqb j i then [Subscribed id] else [])) (live a))
      else (a, map (fun j => Deliver j (Next v)) (live a))
  | OpError e =>
      if closed a then (a, []) else
      ({| live := []; closed := true; torn := torn a; gone := live a ++ gone a; fresh := fresh a |},
       map (fun i => Deliver i (Err e)) (live a))
  | OpComplete =>
      if closed a then (a, []) else
      ({| live := []; closed := true; torn := torn a; gone := live a ++ gone a; fresh := fresh a |},
       map (fun i => Deliver i Done) (live a))
  | OpClone => (a, [])
  | OpRetain =>
      ({| live := live a; closed := closed a; torn := torn a; gone := gone a;
          fresh := fresh a |}, [])
  | OpUnsubSubject =>
      ({| live := []; closed := true; torn := true; gone := gone a; fresh := fresh a |}, [])
  (* len / is_empty are specified only once the subject has terminated: 0 and true.
     (While it is open they also count subscribers that left but were not pruned.) *)
  | OpLen => (a, [RetN 0])
  | OpIsEmpty => (a, [RetB true])
  | OpIsClosed | OpIsFinished => (a, [RetB (closed a)])
  | OpSubClosed i => (a, if Nat.ltb i (fresh a) then [RetB (memn i (gone a))] else [])
  end.

Fixpoint arun (a : asub) (h : list sop) : list sobs :=
  match h with
  | [] => []
  | op :: r => let '(a', out) := astep a op in out ++ arun a' r
  end.

(* histories in which len()/is_empty() are asked only after a terminal / unsubscribe *)
Fixpoint size_ok (cl : bool) (h : list sop) : bool :=
  match h with
  | [] => true
  | (OpLen | OpIsEmpty) :: r => cl && size_ok cl r
  | (OpError _ | OpComplete | OpUnsubSubject) :: r => size_ok true r
  | _ :: r => size_ok cl r
  end.
