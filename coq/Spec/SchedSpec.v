(* What a scheduled task may do, as predicates on the observations of one task. *)
From RxModel Require Export Sched.
Open Scope N_scope.

Definition ran_count (o : list tobs) : nat :=
  length (filter (fun x => match x with ORan _ _ => true | _ => false end) o).

Definition no_run (o : list tobs) : bool :=
  forallb (fun x => match x with ORan _ _ => false | _ => true end) o.

(* every run happens at or after `t0` *)
Definition runs_from (t0 : N) (o : list tobs) : bool :=
  forallb (fun x => match x with ORan _ at_time => t0 <=? at_time | _ => true end) o.

(* nothing runs after a cancellation, or after the handle has reported closed *)
Fixpoint quiet_after_cancel (o : list tobs) : bool :=
  match o with
  | [] => true
  | OCancelled _ :: r => no_run r
  | OClosed true _ :: r => no_run r
  | _ :: r => quiet_after_cancel r
  end.

(* repeating task: consecutive sequence numbers from `next`, each tick at least one period
   after the previous one (`last`), and none after the function declined *)
Fixpoint ticks_ok (cont : nat -> bool) (period : N) (next : nat) (earliest : N) (o : list tobs) : bool :=
  match o with
  | [] => true
  | ORan seq at_time :: r =>
      Nat.eqb seq next && (earliest <=? at_time) &&
      (if cont seq then ticks_ok cont period (S next) (at_time + period) r else no_run r)
  | _ :: r => ticks_ok cont period next earliest r
  end.
