(* BehaviorSubject: the abstract multicast set plus "the most recent value". *)
From RxModel Require Export Subject.
From RxSpec Require Export SubjectSpec.

Definition abstep (st : asub * val) (op : bop) : (asub * val) * list bobs :=
  let '(a, cur) := st in
  match op with
  | BSub OpSubscribe =>
      (* the new subscriber is handed the most recent value first *)
      let '(a', out) := astep a OpSubscribe in
      ((a', cur), map BO out ++ [BO (Deliver (fresh a) (Next cur))])
  | BSub (OpNext v) =>
      let '(a', out) := astep a (OpNext v) in ((a', v), map BO out)
  | BSub (OpNextSubInside v i) =>
      let '(a', out) := astep a (OpNextSubInside v i) in
      ((a', v), flat_map (fun o => match o with
                                   | Subscribed id => [BO o; BO (Deliver id (Next v))]
                                   | _ => [BO o] end) out)
  | BSub op' => let '(a', out) := astep a op' in ((a', cur), map BO out)
  | BNextBy f =>
      let v := f cur in
      let '(a', out) := astep a (OpNext v) in ((a', v), map BO out)
  | BPeek => (st, [BPeeked cur])
  end.

Fixpoint abrun (st : asub * val) (h : list bop) : list bobs :=
  match h with
  | [] => []
  | op :: r => let '(st', out) := abstep st op in out ++ abrun st' r
  end.

Definition sops_of (h : list bop) : list sop :=
  flat_map (fun op => match op with BSub o => [o] | BNextBy _ => [OpNext VU] | BPeek => [] end) h.

(* The most recent value passed to next / next_by through any clone, or the initial one. *)
Fixpoint latest (cur : val) (h : list bop) : val :=
  match h with
  | [] => cur
  | BSub (OpNext v) :: r | BSub (OpNextSubInside v _) :: r => latest v r
  | BNextBy f :: r => latest (f cur) r
  | _ :: r => latest cur r
  end.
