(* What C06 / C10 / C12 / C02 promise about concurrent use of a thread-safe subject, as
   predicates on the observable trace of one execution (Ileave.v's `itr` list).  They are
   evaluated on the implementation's own traces and proved of the model for every schedule. *)
From RxModel Require Export Ileave.
Local Open Scope nat_scope.

Definition bid := (nat * nat)%type.          (* a broadcast: operation j of thread t *)
Definition bid_eqb (a b : bid) : bool := Nat.eqb (fst a) (fst b) && Nat.eqb (snd a) (snd b).

Definition op_at (scripts : list (list iop)) (b : bid) : option iop :=
  match nth_error scripts (fst b) with Some l => nth_error l (snd b) | None => None end.

(* the value a BehaviorSubject hands a new subscriber is not a broadcast *)
Definition is_initial (scripts : list (list iop)) (b : bid) : bool :=
  match op_at scripts b with Some (IBSub _) => true | _ => false end.

(* C10: no subscriber callback ever runs on two threads at once *)
Definition no_overlap (tr : list itr) : bool :=
  forallb (fun x => match x with TOverlap _ => false | _ => true end) tr.

(* C10: no call panics *)
Definition no_panic (tr : list itr) : bool :=
  forallb (fun x => match x with TPanic _ => false | _ => true end) tr.

(* C01 per probe: nothing after its terminal *)
Fixpoint grammar_walk (dead : list nat) (tr : list itr) : bool :=
  match tr with
  | [] => true
  | TEv k (YItem _) _ _ :: r => negb (imem k dead) && grammar_walk dead r
  | TEv k (YTerm _) _ _ :: r => negb (imem k dead) && grammar_walk (k :: dead) r
  | _ :: r => grammar_walk dead r
  end.
Definition grammar_ok (tr : list itr) : bool := grammar_walk [] tr.

(* C02: once unsubscribe() of probe k's subscription has returned, probe k is never called *)
Fixpoint unsub_walk (gone : list nat) (tr : list itr) : bool :=
  match tr with
  | [] => true
  | TEv k _ _ _ :: r => negb (imem k gone) && unsub_walk gone r
  | TUn k _ _ :: r => unsub_walk (k :: gone) r
  | _ :: r => unsub_walk gone r
  end.
Definition quiet_after_unsub (tr : list itr) : bool := unsub_walk [] tr.

(* the broadcasts of a trace: (probe, value, broadcast) *)
Definition bcasts (scripts : list (list iop)) (tr : list itr) : list (nat * Z * bid) :=
  flat_map (fun x => match x with
                     | TEv k (YItem v) t j => if is_initial scripts (t, j) then [] else [(k, v, (t, j))]
                     | _ => [] end) tr.

Definition memb (b : bid) (l : list bid) : bool := existsb (bid_eqb b) l.

(* broadcasts in the order in which they first reach anybody *)
Fixpoint first_seen (seen : list bid) (l : list bid) : list bid :=
  match l with
  | [] => []
  | b :: r => if memb b seen then first_seen seen r else b :: first_seen (b :: seen) r
  end.
Definition order (scripts : list (list iop)) (tr : list itr) : list bid :=
  first_seen [] (map snd (bcasts scripts tr)).

Definition bids_of (scripts : list (list iop)) (tr : list itr) (k : nat) : list bid :=
  flat_map (fun x => if Nat.eqb (fst (fst x)) k then [snd x] else []) (bcasts scripts tr).

Fixpoint subseq_bids (a b : list bid) : bool :=
  match a, b with
  | [], _ => true
  | _, [] => false
  | x :: a', y :: b' => if bid_eqb x y then subseq_bids a' b' else subseq_bids a b'
  end.

Definition probes_of (tr : list itr) : list nat :=
  flat_map (fun x => match x with TEv k _ _ _ => [k] | _ => [] end) tr.

(* C10 / C06: every subscriber sees the broadcasts in one common order, each at most once:
   what a probe sees is a sub-sequence of the (duplicate-free) global order *)
Definition common_order_ok (scripts : list (list iop)) (tr : list itr) : bool :=
  forallb (fun k => subseq_bids (bids_of scripts tr k) (order scripts tr)) (probes_of tr).

(* nothing is invented: a delivered item is the value of the operation that broadcast it *)
Definition values_ok (scripts : list (list iop)) (tr : list itr) : bool :=
  forallb (fun x => match op_at scripts (snd x) with
                    | Some (INext v) | Some (IBNext v) => Z.eqb v (snd (fst x))
                    | _ => false end) (bcasts scripts tr).

(* probes subscribed by the setup script and never unsubscribed by anybody *)
Definition subscribed_in (ops : list iop) : list nat :=
  flat_map (fun o => match o with ISub k | IBSub k => [k] | _ => [] end) ops.
Definition unsubscribed_in (ops : list iop) : list nat :=
  flat_map (fun o => match o with IUnsub k => [k] | _ => [] end) ops.
Definition full_time (setup : list iop) (scripts : list (list iop)) : list nat :=
  filter (fun k => negb (imem k (unsubscribed_in (setup ++ concat scripts)))) (subscribed_in setup).

Definition has_term (ops : list iop) : bool := existsb (fun o => match o with ITerm _ | ISUnsub => true | _ => false end) ops.

Definition list_bid_eqb (a b : list bid) : bool :=
  Nat.eqb (length a) (length b) && forallb (fun p => bid_eqb (fst p) (snd p)) (combine a b).

(* C06: a subscriber that was there before the emission began and has not unsubscribed gets
   every item: a full-time probe sees every broadcast that reaches anybody ... *)
Definition full_time_sees_all (setup : list iop) (scripts : list (list iop)) (tr : list itr) : bool :=
  forallb (fun k => list_bid_eqb (bids_of scripts tr k) (order scripts tr)) (full_time setup scripts).

Definition next_ops (scripts : list (list iop)) : list bid :=
  concat (map (fun p => flat_map (fun q => match snd q with
                                           | INext _ | IBNext _ => [(fst p, fst q)]
                                           | _ => [] end)
                                 (combine (seq 0 (length (snd p))) (snd p)))
              (combine (seq 0 (length scripts)) scripts)).

(* ... and, when every thread has returned and nobody terminated the subject, every `next` of
   every script has reached it *)
Definition nothing_lost (setup : list iop) (scripts : list (list iop)) (tr : list itr) (e : iend) : bool :=
  match e, full_time setup scripts with
  | EFinished, _ :: _ =>
      has_term (setup ++ concat scripts) ||
      forallb (fun b => memb b (order scripts tr)) (next_ops scripts)
  | _, _ => true
  end.

(* ---- C12 over the thread-safe subject ---- *)
Definition value_of (scripts : list (list iop)) (b : bid) : option Z :=
  match op_at scripts b with Some (INext v) | Some (IBNext v) => Some v | _ => None end.

(* the value before the threads start: the last one the setup script passed to next *)
Definition setup_value (v0 : Z) (setup : list iop) : Z :=
  fold_left (fun acc o => match o with IBNext v => v | _ => acc end) setup v0.

(* "the most recent value is the one delivered last in the common order": when every thread
   has returned, the stored value is the value of the last broadcast *)
Definition latest_ok (v0 : Z) (setup : list iop) (scripts : list (list iop)) (tr : list itr) (e : iend) (final : Z) : bool :=
  match e, full_time setup scripts with
  | EFinished, _ :: _ =>
      has_term (setup ++ concat scripts) ||
      match rev (order scripts tr) with
      | b :: _ => match op_at scripts b with
                  | Some (IBNext v) => Z.eqb v final
                  | Some (INext _) => true          (* a plain subject: no value cell *)
                  | _ => false
                  end
      | [] => Z.eqb final (setup_value v0 setup)
      end
  | _, _ => true
  end.

Fixpoint drop_until (b : bid) (l : list bid) : option (list bid) :=   (* the part of l after b *)
  match l with
  | [] => None
  | x :: r => if bid_eqb x b then Some r else drop_until b r
  end.

(* a subscriber that joins while others emit is handed the most recent value first and then
   every later item: its items are exactly the broadcasts after the one whose value it was
   handed (all of them, when it was handed the value from before the threads started) *)
Definition joiner_ok (v0 : Z) (setup : list iop) (scripts : list (list iop)) (tr : list itr) (e : iend) : bool :=
  match e, full_time setup scripts with
  | EFinished, _ :: _ =>
      has_term (setup ++ concat scripts) ||
      forallb (fun x =>
        match x with
        | TEv k (YItem x0) t j =>
            if is_initial scripts (t, j) && negb (imem k (unsubscribed_in (concat scripts))) then
              let mine := bids_of scripts tr k in
              let ord := order scripts tr in
              (* some split ord = before ++ mine with x0 the value of the last of `before` *)
              existsb (fun n =>
                         list_bid_eqb (skipn n ord) mine &&
                         match rev (firstn n ord) with
                         | b :: _ => match value_of scripts b with Some v => Z.eqb v x0 | None => false end
                         | [] => Z.eqb x0 (setup_value v0 setup)
                         end) (seq 0 (S (length ord)))
            else true
        | _ => true
        end) tr
  | _, _ => true
  end.

(* everything that is claimed of every execution *)
Definition ileave_ok (setup : list iop) (scripts : list (list iop)) (tr : list itr) (e : iend) : bool :=
  no_overlap tr && no_panic tr && grammar_ok tr && quiet_after_unsub tr && values_ok scripts tr && common_order_ok scripts tr &&
  full_time_sees_all setup scripts tr && nothing_lost setup scripts tr e &&
  match e with EDeadlock => false | _ => true end.
