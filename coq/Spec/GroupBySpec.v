(* What group_by promises, stated on projections of its output. *)
From RxModel Require Export GroupBy.

(* keys in order of first appearance *)
Fixpoint first_keys (key : val -> val) (seen : list val) (items : list val) : list val :=
  match items with
  | [] => []
  | v :: r => if mem (key v) seen then first_keys key seen r
              else key v :: first_keys key (key v :: seen) r
  end.

(* what the subscriber of group k sees *)
Definition group_trace (k : val) (out : list gev) : list ev :=
  flat_map (fun g => match g with
                     | GItem k' v => if val_eqb k' k then [Next v] else []
                     | GTerm k' e => if val_eqb k' k then [e] else []
                     | _ => [] end) out.

(* what the subscriber of the stream of groups sees *)
Definition announced (out : list gev) : list val :=
  flat_map (fun g => match g with Announce k => [k] | _ => [] end) out.

Definition outer_term (out : list gev) : list ev :=
  flat_map (fun g => match g with OuterTerm e => [e] | _ => [] end) out.

(* all group items in delivery order: "flattening the groups back" *)
Definition flattened (out : list gev) : list val :=
  flat_map (fun g => match g with GItem _ v => [v] | _ => [] end) out.

(* every GItem / GTerm of key k is preceded by Announce k *)
Fixpoint announced_first (seen : list val) (out : list gev) : bool :=
  match out with
  | [] => true
  | Announce k :: r => announced_first (k :: seen) r
  | GItem k _ :: r | GTerm k _ :: r => mem k seen && announced_first seen r
  | OuterTerm _ :: r => announced_first seen r
  end.
