(* Predicates on the observable trace of the timed system, evaluated on the implementation's
   own traces (and, as a self-check, on the model's). *)
From RxModel Require Export Timed.
Open Scope N_scope.

(* ---- C19: raw tasks ---- *)
Inductive rkind := ROnce | RRepeat (period : N) (decline_at : nat) | RSub.

Record rtask := {
  r_kind : rkind;
  r_spawned : N;             (* when it was scheduled *)
  r_delay : N;               (* 0 for none *)
  r_cancelled : bool;
  r_runs : nat;
  r_last : N;                (* time of the last run *)
  r_declined : bool;
  r_inner_unsub : bool
}.

Definition r_upd (l : list rtask) (t : nat) (f : rtask -> rtask) : list rtask :=
  match nth_error l t with Some x => set_nth l t (f x) | None => l end.

Definition odelay (d : option N) : N := match d with Some x => x | None => 0 end.

Definition mk_rtask (k : rkind) (now : N) (d : option N) : rtask :=
  {| r_kind := k; r_spawned := now; r_delay := odelay d; r_cancelled := false; r_runs := 0; r_last := 0;
     r_declined := false; r_inner_unsub := false |}.

(* bookkeeping for one label *)
Definition raw_label (now : N) (ts : list rtask) (l : option tlab) : N * list rtask :=
  match l with
  | Some (LAdv dt) => (now + dt, ts)
  | Some (LSpawnOnce d) => (now, ts ++ [mk_rtask ROnce now d])
  | Some (LSpawnRepeat p d k) => (now, ts ++ [mk_rtask (RRepeat p k) now d])
  | Some (LSpawnSub d) => (now, ts ++ [mk_rtask RSub now d])
  | Some (LCancel t) =>
      (now, r_upd ts t (fun x => {| r_kind := r_kind x; r_spawned := r_spawned x; r_delay := r_delay x; r_cancelled := true;
                                    r_runs := r_runs x; r_last := r_last x; r_declined := r_declined x; r_inner_unsub := r_inner_unsub x |}))
  | _ => (now, ts)
  end.

Definition ran_ok (now : N) (x : rtask) (seq : nat) (at_time : N) : bool :=
  negb (r_cancelled x) && (at_time =? now) && (r_spawned x + r_delay x <=? at_time) &&
  match r_kind x with
  | RRepeat p k =>
      Nat.eqb seq (r_runs x) && negb (r_declined x) && (r_spawned x + p <=? at_time) &&
      (Nat.eqb (r_runs x) 0 || (r_last x + p <=? at_time))
  | _ => Nat.eqb (r_runs x) 0 && Nat.eqb seq 0
  end.

Definition ran_upd (x : rtask) (seq : nat) (at_time : N) : rtask :=
  {| r_kind := r_kind x; r_spawned := r_spawned x; r_delay := r_delay x; r_cancelled := r_cancelled x;
     r_runs := S (r_runs x); r_last := at_time;
     r_declined := match r_kind x with RRepeat _ k => negb (Nat.ltb seq k) | _ => true end;
     r_inner_unsub := r_inner_unsub x |}.

(* is_closed() may answer true only when the task can no longer act *)
Definition closed_ok (x : rtask) (b : bool) : bool :=
  negb b ||
  match r_kind x with
  | RSub => Nat.eqb (r_runs x) 1 && r_inner_unsub x
  | _ => r_declined x
  end.

Fixpoint raw_walk (ls : list tlab) (now : N) (ts : list rtask) (cur : option tlab) (out : list tout) : bool :=
  match out with
  | [] => true
  | TMark j :: r =>
      let l := nth_error ls j in
      let '(now', ts') := raw_label now ts l in raw_walk ls now' ts' l r
  | TRan t seq at_time :: r =>
      match nth_error ts t with
      | Some x => ran_ok now x seq at_time && raw_walk ls now (set_nth ts t (ran_upd x seq at_time)) cur r
      | None => false
      end
  | TRet b :: r =>
      match cur with
      | Some (LHandleClosed t) =>
          match nth_error ts t with Some x => closed_ok x b && raw_walk ls now ts cur r | None => false end
      | _ => raw_walk ls now ts cur r
      end
  | TInnerUnsub t :: r =>
      match cur, nth_error ts t with
      | Some (LCancel t'), Some x =>
          Nat.eqb t t' && Nat.eqb (r_runs x) 1 && negb (r_inner_unsub x) &&
          raw_walk ls now (set_nth ts t {| r_kind := r_kind x; r_spawned := r_spawned x; r_delay := r_delay x;
                                           r_cancelled := r_cancelled x; r_runs := r_runs x; r_last := r_last x;
                                           r_declined := r_declined x; r_inner_unsub := true |}) cur r
      | _, _ => false
      end
  | TOut _ _ :: r => raw_walk ls now ts cur r
  end.

Definition raw_ok (ls : list tlab) (out : list tout) : bool := raw_walk ls 0 [] None out.
