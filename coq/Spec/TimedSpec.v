(* Predicates on the observable trace of the timed system, evaluated on the implementation's
   own traces (and, as a self-check, on the model's). *)
From RxModel Require Export Timed.
Open Scope N_scope.

(* ---- C19: raw tasks ---- *)
Inductive rkind := ROnce | RRepeat (period : N) (decline_at : nat) | RSub.

Record rtask := {
  r_kind : rkind;
  r_spawned : N;             (* when it was scheduled *)
  r_delay : N;               (* 0 for none *)
  r_cancelled : bool;
  r_runs : nat;
  r_last : N;                (* time of the last run *)
  r_declined : bool;
  r_inner_unsub : bool
}.

Definition r_upd (l : list rtask) (t : nat) (f : rtask -> rtask) : list rtask :=
  match nth_error l t with Some x => set_nth l t (f x) | None => l end.

Definition odelay (d : option N) : N := match d with Some x => x | None => 0 end.

Definition mk_rtask (k : rkind) (now : N) (d : option N) : rtask :=
  {| r_kind := k; r_spawned := now; r_delay := odelay d; r_cancelled := false; r_runs := 0; r_last := 0;
     r_declined := false; r_inner_unsub := false |}.

(* bookkeeping for one label *)
Definition raw_label (now : N) (ts : list rtask) (l : option tlab) : N * list rtask :=
  match l with
  | Some (LAdv dt) => (now + dt, ts)
  | Some (LSpawnOnce d) => (now, ts ++ [mk_rtask ROnce now d])
  | Some (LSpawnRepeat p d k) => (now, ts ++ [mk_rtask (RRepeat p k) now d])
  | Some (LSpawnSub d) => (now, ts ++ [mk_rtask RSub now d])
  | Some (LCancel t) =>
      (now, r_upd ts t (fun x => {| r_kind := r_kind x; r_spawned := r_spawned x; r_delay := r_delay x; r_cancelled := true;
                                    r_runs := r_runs x; r_last := r_last x; r_declined := r_declined x; r_inner_unsub := r_inner_unsub x |}))
  | _ => (now, ts)
  end.

Definition ran_ok (now : N) (x : rtask) (seq : nat) (at_time : N) : bool :=
  negb (r_cancelled x) && (at_time =? now) && (r_spawned x + r_delay x <=? at_time) &&
  match r_kind x with
  | RRepeat p k =>
      Nat.eqb seq (r_runs x) && negb (r_declined x) && (r_spawned x + p <=? at_time) &&
      (Nat.eqb (r_runs x) 0 || (r_last x + p <=? at_time))
  | _ => Nat.eqb (r_runs x) 0 && Nat.eqb seq 0
  end.

Definition ran_upd (x : rtask) (seq : nat) (at_time : N) : rtask :=
  {| r_kind := r_kind x; r_spawned := r_spawned x; r_delay := r_delay x; r_cancelled := r_cancelled x;
     r_runs := S (r_runs x); r_last := at_time;
     r_declined := match r_kind x with RRepeat _ k => negb (Nat.ltb seq k) | _ => true end;
     r_inner_unsub := r_inner_unsub x |}.

(* is_closed() may answer true only when the task can no longer act *)
Definition closed_ok (x : rtask) (b : bool) : bool :=
  negb b ||
  match r_kind x with
  | RSub => Nat.eqb (r_runs x) 1 && r_inner_unsub x
  | _ => r_declined x
  end.

(* a cancelled subscribing task that had run owes the teardown of what it produced, before
   unsubscribe() returns *)
Definition owed (cur : option tlab) (ts : list rtask) : bool :=
  match cur with
  | Some (LCancel t) =>
      match nth_error ts t with
      | Some x => match r_kind x with RSub => Nat.eqb (r_runs x) 1 && negb (r_inner_unsub x) | _ => false end
      | None => false
      end
  | _ => false
  end.

Fixpoint raw_walk (ls : list tlab) (now : N) (ts : list rtask) (cur : option tlab) (out : list tout) : bool :=
  match out with
  | [] => negb (owed cur ts)
  | TMark j :: r =>
      let l := nth_error ls j in
      let '(now', ts') := raw_label now ts l in negb (owed cur ts) && raw_walk ls now' ts' l r
  | TRan t seq at_time :: r =>
      match nth_error ts t with
      | Some x => ran_ok now x seq at_time && raw_walk ls now (set_nth ts t (ran_upd x seq at_time)) cur r
      | None => false
      end
  | TRet b :: r =>
      match cur with
      | Some (LHandleClosed t) =>
          match nth_error ts t with Some x => closed_ok x b && raw_walk ls now ts cur r | None => false end
      | _ => raw_walk ls now ts cur r
      end
  | TInnerUnsub t :: r =>
      match cur, nth_error ts t with
      | Some (LCancel t'), Some x =>
          Nat.eqb t t' && Nat.eqb (r_runs x) 1 && negb (r_inner_unsub x) &&
          raw_walk ls now (set_nth ts t {| r_kind := r_kind x; r_spawned := r_spawned x; r_delay := r_delay x;
                                           r_cancelled := r_cancelled x; r_runs := r_runs x; r_last := r_last x;
                                           r_declined := r_declined x; r_inner_unsub := true |}) cur r
      | _, _ => false
      end
  | TOut _ _ :: r => raw_walk ls now ts cur r
  end.

Definition raw_ok (ls : list tlab) (out : list tout) : bool := raw_walk ls 0 [] None out.

(* ---- common walking state for the operator predicates ---- *)
Record wstate := {
  w_now : N;
  w_cur : option tlab;                 (* the label being processed *)
  w_src : list (ev * N);               (* input notifications accepted by the operator, with their time *)
  w_src_done : bool;                   (* the input has terminated *)
  w_unsub : bool;                      (* unsubscribe() has returned *)
  w_finished : bool;                   (* a terminal was delivered to the subscriber *)
  w_delivered : list nat;              (* indices of input notifications already delivered (relay), or count (others) *)
  w_subscribed : bool                  (* the operator is subscribed to its input (delayed subscription) *)
}.

Definition w0 (subscribed : bool) : wstate :=
  {| w_now := 0; w_cur := None; w_src := []; w_src_done := false; w_unsub := false; w_finished := false;
     w_delivered := []; w_subscribed := subscribed |}.

(* a new label starts: clock, input log, unsubscription *)
Definition w_label (w : wstate) (l : option tlab) : wstate :=
  match l with
  | Some (LAdv dt) => {| w_now := w_now w + dt; w_cur := l; w_src := w_src w; w_src_done := w_src_done w; w_unsub := w_unsub w;
                         w_finished := w_finished w; w_delivered := w_delivered w; w_subscribed := w_subscribed w |}
  | Some (LSrc e) =>
      if w_src_done w then {| w_now := w_now w; w_cur := l; w_src := w_src w; w_src_done := true; w_unsub := w_unsub w;
                              w_finished := w_finished w; w_delivered := w_delivered w; w_subscribed := w_subscribed w |}
      else {| w_now := w_now w; w_cur := l;
              w_src := if w_subscribed w && negb (w_unsub w) then w_src w ++ [(e, w_now w)] else w_src w;
              w_src_done := is_term e; w_unsub := w_unsub w; w_finished := w_finished w;
              w_delivered := w_delivered w; w_subscribed := w_subscribed w |}
  | Some LUnsub => {| w_now := w_now w; w_cur := l; w_src := w_src w; w_src_done := w_src_done w; w_unsub := true;
                      w_finished := w_finished w; w_delivered := w_delivered w; w_subscribed := w_subscribed w |}
  | _ => {| w_now := w_now w; w_cur := l; w_src := w_src w; w_src_done := w_src_done w; w_unsub := w_unsub w;
            w_finished := w_finished w; w_delivered := w_delivered w; w_subscribed := w_subscribed w |}
  end.

Definition w_deliver (w : wstate) (idx : nat) (e : ev) : wstate :=
  {| w_now := w_now w; w_cur := w_cur w; w_src := w_src w; w_src_done := w_src_done w; w_unsub := w_unsub w;
     w_finished := w_finished w || is_term e; w_delivered := idx :: w_delivered w; w_subscribed := w_subscribed w |}.

Definition ev_eqb (a b : ev) : bool :=
  match a, b with
  | Next x, Next y => val_eqb x y
  | Err x, Err y => Z.eqb x y
  | Done, Done => true
  | _, _ => false
  end.

Definition memn' (i : nat) (l : list nat) : bool := existsb (Nat.eqb i) l.

(* ---- predicates as walks: a step function over the trace, rejecting with None ---- *)
Section Walk.
  Variable St : Type.
  Variable step : St -> tout -> option St.
  Fixpoint walk (s : St) (out : list tout) : option St :=
    match out with
    | [] => Some s
    | x :: r => match step s x with Some s' => walk s' r | None => None end
    end.
End Walk.
Arguments walk {St} step s out.

Definition accepted {St} (r : option St) : bool := match r with Some _ => true | None => false end.

(* ---- C07: delay d / observe_on (d = 0): every delivery is the notification of the task that
   is being polled, made at or after its arrival + d, at most once, and not after a terminal or
   after unsubscribe() returned.  `direct_err`: delay forwards errors at once. *)
Definition task_events (direct_err : bool) (w : wstate) : list (ev * N) :=
  filter (fun p => negb (direct_err && match fst p with Err _ => true | _ => false end)) (w_src w).

Definition relay_step (d : N) (direct_err : bool) (ls : list tlab) (w : wstate) (x : tout) : option wstate :=
  match x with
  | TMark j => Some (w_label w (nth_error ls j))
  | TOut at_time e =>
      if negb (w_finished w) && negb (w_unsub w) && (at_time =? w_now w) then
        match w_cur w with
        | Some (LRun t) =>
            (* tasks are created one per accepted input notification (errors excepted when forwarded directly) *)
            match nth_error (task_events direct_err w) t with
            | Some (e', arrived) =>
                if ev_eqb e e' && (arrived + d <=? at_time) && negb (memn' t (w_delivered w))
                then Some (w_deliver w t e) else None
            | None => None
            end
        | Some (LSrc (Err x)) => if direct_err && ev_eqb e (Err x) then Some (w_deliver w 0 e) else None
        | _ => None
        end
      else None
  | _ => Some w
  end.

Definition relay_ok (d : N) (direct_err : bool) (ls : list tlab) (out : list tout) : bool :=
  accepted (walk (relay_step d direct_err ls) (w0 true) out).

(* ---- C08: interval / interval_at / timer ---- *)
(* consecutive integers from `next`, the first not before `earliest`, each later one at least one
   period after the previous one, only while task 0 is being polled, not after unsubscribe *)
Record istate := { i_w : wstate; i_next : nat; i_earliest : N }.

Definition interval_step (p : N) (ls : list tlab) (s : istate) (x : tout) : option istate :=
  match x with
  | TMark j => Some {| i_w := w_label (i_w s) (nth_error ls j); i_next := i_next s; i_earliest := i_earliest s |}
  | TOut at_time e =>
      let w := i_w s in
      if negb (w_unsub w) && (at_time =? w_now w) && (i_earliest s <=? at_time) &&
         match w_cur w with Some (LRun 0) => true | _ => false end &&
         ev_eqb e (Next (VZ (Z.of_nat (i_next s))))
      then Some {| i_w := w; i_next := S (i_next s); i_earliest := at_time + p |}
      else None
  | _ => Some s
  end.

Definition interval_ok (first : N) (p : N) (ls : list tlab) (out : list tout) : bool :=
  accepted (walk (interval_step p ls) {| i_w := w0 false; i_next := 0; i_earliest := first |} out).

(* the item once, not before `d`, then completion *)
Definition timer_step (v : val) (d : N) (ls : list tlab) (s : istate) (x : tout) : option istate :=
  match x with
  | TMark j => Some {| i_w := w_label (i_w s) (nth_error ls j); i_next := i_next s; i_earliest := i_earliest s |}
  | TOut at_time e =>
      let w := i_w s in
      if negb (w_unsub w) && (at_time =? w_now w) && (d <=? at_time) &&
         match i_next s with
         | O => ev_eqb e (Next v)
         | S O => ev_eqb e Done
         | _ => false
         end
      then Some {| i_w := w; i_next := S (i_next s); i_earliest := i_earliest s |}
      else None
  | _ => Some s
  end.

Definition timer_ok (v : val) (d : N) (ls : list tlab) (out : list tout) : bool :=
  accepted (walk (timer_step v d ls) {| i_w := w0 false; i_next := 0; i_earliest := 0 |} out).

(* ---- C09: rate limiting ---- *)
Fixpoint is_subseq (a b : list val) : bool :=   (* a is a sub-sequence of b *)
  match a, b with
  | [], _ => true
  | _, [] => false
  | x :: a', y :: b' => if val_eqb x y then is_subseq a' b' else is_subseq a b'
  end.

Definition src_items (w : wstate) : list val :=
  flat_map (fun p => match fst p with Next v => [v] | _ => [] end) (w_src w).

(* collect what was delivered, checking the grammar and the silence after unsubscribe on the way *)
Definition collect_step (ls : list tlab) (s : wstate * list val) (x : tout) : option (wstate * list val) :=
  let '(w, acc) := s in
  match x with
  | TMark j => Some (w_label w (nth_error ls j), acc)
  | TOut at_time e =>
      if negb (w_finished w) && negb (w_unsub w) && (at_time =? w_now w) then
        match e with
        | Next v => Some (w, acc ++ [v])
        | _ => Some (w_deliver w 0 e, acc)
        end
      else None
  | _ => Some s
  end.

(* debounce / throttle: only input items, each at most once, in input order *)
Definition subseq_ok (ls : list tlab) (out : list tout) : bool :=
  match walk (collect_step ls) (w0 true, []) out with
  | Some (w, items) => is_subseq items (src_items w)
  | None => false
  end.

(* on completion the last input item has been delivered, as the last item (debounce, throttle with
   a trailing edge: the pending item is flushed before the completion is forwarded) *)
Definition completed_out (out : list tout) : bool :=
  existsb (fun x => match x with TOut _ Done => true | _ => false end) out.

Definition final_item_ok (ls : list tlab) (out : list tout) : bool :=
  match walk (collect_step ls) (w0 true, []) out with
  | Some (w, items) =>
      if completed_out out then
        match rev (src_items w), rev items with
        | [], _ => true
        | v :: _, x :: _ => val_eqb x v
        | _ :: _, [] => false
        end
      else true
  | None => false
  end.

(* buffers: never empty, never above the count limit, their concatenation a prefix of the input,
   and the whole input once the output has completed *)
Fixpoint is_prefix (a b : list val) : bool :=
  match a, b with
  | [], _ => true
  | x :: a', y :: b' => val_eqb x y && is_prefix a' b'
  | _, [] => false
  end.

Definition buffers_ok (limit : option nat) (ls : list tlab) (out : list tout) : bool :=
  match walk (collect_step ls) (w0 true, []) out with
  | Some (w, bufs) =>
      let sizes_ok := forallb (fun b => match b with
                                        | VL l => negb (Nat.eqb (length l) 0) &&
                                                  match limit with Some n => Nat.leb (length l) (Nat.max n 1) | None => true end
                                        | _ => false end) bufs in
      let flat := flat_map (fun b => match b with VL l => l | _ => [] end) bufs in
      sizes_ok && is_prefix flat (src_items w) &&
      (* completed normally: nothing was lost *)
      (negb (w_finished w && existsb (fun p => match fst p with Done => true | _ => false end) (w_src w)
             && negb (existsb (fun p => match fst p with Err _ => true | _ => false end) (w_src w)))
       || Nat.eqb (length flat) (length (src_items w)))
  | None => false
  end.

(* delay_subscription d / subscribe_on (d = 0): the subscriber sees the input's own notifications,
   none before the delay has elapsed, none after unsubscribe() returned, at most one terminal *)
Definition passthru_step (d : N) (ls : list tlab) (w : wstate) (x : tout) : option wstate :=
  match x with
  | TMark j => Some (w_label w (nth_error ls j))
  | TOut at_time e =>
      if negb (w_finished w) && negb (w_unsub w) && (at_time =? w_now w) && (d <=? at_time) then
        match w_cur w with
        | Some (LSrc e') => if ev_eqb e e' then Some (w_deliver w 0 e) else None
        | _ => None
        end
      else None
  | _ => Some w
  end.

Definition passthru_ok (d : N) (ls : list tlab) (out : list tout) : bool :=
  accepted (walk (passthru_step d ls) (w0 true) out).

(* the predicate that judges operator `o` *)
Definition timed_ok (o : top) (ls : list tlab) (out : list tout) : bool :=
  match o with
  | TDelay d => relay_ok d true ls out
  | TObserveOn => relay_ok 0 false ls out
  | TDelaySubscription d => passthru_ok d ls out
  | TSubscribeOn => passthru_ok 0 ls out
  | TDebounce _ => subseq_ok ls out && final_item_ok ls out
  | TThrottle _ ed => subseq_ok ls out && match ed with ELeading => true | _ => final_item_ok ls out end
  | TBufferTime _ => buffers_ok None ls out
  | TBufferCountTime n _ => buffers_ok (Some n) ls out
  | TInterval p => interval_ok p p ls out
  | TIntervalAt dl p => interval_ok dl p ls out
  | TTimer v d => timer_ok v d ls out
  | TRaw => raw_ok ls out
  end.

(* ---- exactness when the executor runs as the timers fall due ---- *)
Fixpoint prompt_labels (p : N) (n : nat) : list tlab :=
  match n with O => [] | S n' => LAdv p :: LRun 0 :: prompt_labels p n' end.

Fixpoint prompt_trace (p : N) (n : nat) (j : nat) (k : nat) (t : N) : list tout :=
  match n with
  | O => []
  | S n' => TMark j :: TMark (S j) :: TOut (t + p) (Next (VZ (Z.of_nat k))) :: prompt_trace p n' (S (S j)) (S k) (t + p)
  end.

(* interval p polled exactly at every multiple of p; interval_at dl p (dl > 0) polled at
   subscription, at dl, and then at every further multiple of p; interval_at 0 p polled at
   subscription and then at every multiple of p *)
Definition prompt_case (o : top) (n : nat) : option (list tlab * list tout) :=
  match o with
  | TInterval p => Some (prompt_labels p n, prompt_trace p n 0 0 0)
  | TIntervalAt dl p =>
      (* the instant has been reached already: the first tick at the first poll *)
      if dl =? 0 then Some (LRun 0 :: prompt_labels p n, TMark 0 :: TOut 0 (Next (VZ 0)) :: prompt_trace p n 1 1 0)
      else Some (LRun 0 :: LAdv dl :: LRun 0 :: prompt_labels p n,
                 TMark 0 :: TMark 1 :: TMark 2 :: TOut dl (Next (VZ 0)) :: prompt_trace p n 3 1 dl)
  | _ => None
  end.

(* the _at forms: the time remaining until the configured instant, zero if it has passed *)
Definition remaining (at_instant now_instant : Z) : Z := Z.max 0 (at_instant - now_instant)%Z.

(* C17 on timed traces: once is_closed() has answered true, no delivery follows and it never
   answers false again *)
Fixpoint closed_sound_walk (seen_closed : bool) (out : list tout) : bool :=
  match out with
  | [] => true
  | TOut _ _ :: r => negb seen_closed && closed_sound_walk seen_closed r
  | TRet b :: r => (b || negb seen_closed) && closed_sound_walk (seen_closed || b) r
  | _ :: r => closed_sound_walk seen_closed r
  end.

Definition closed_sound_ok (out : list tout) : bool := closed_sound_walk false out.
