(* Flattening delivers every item of every inner observable exactly once and in the inner
   observable's own order: a predicate on the observable trace, computed from the stimulus
   list and from the markers / subscription events of the trace only (never from the state
   of the operator).  New definitions only. *)
From RxModel Require Export Flatten.
From RxSpec Require Export FlattenSpec.
Local Open Scope nat_scope.

(* what the trace owes next *)
Inductive iexp :=
| XItem (k : nat) (v : val)      (* FItem k v *)
| XDone (k : nat)                (* FInnerDone k *)
| XErr (e : Z).                  (* FTerm (Err e) *)

Definition exp_match (x : iexp) (o : fout) : bool :=
  match x, o with
  | XItem k v, FItem k' v' => Nat.eqb k k' && val_eqb v v'
  | XDone k, FInnerDone k' => Nat.eqb k k'
  | XErr e, FTerm (Err e') => Z.eqb e e'
  | _, _ => false
  end.

(* how the subscription of a synchronous inner observable ends: its slot is released after
   Done, the whole output fails after Err, nothing more happens when the script has no terminal *)
Definition closing (k : nat) (sc : list ev) : list iexp :=
  match term_of sc with TDone => [XDone k] | TErr e => [XErr e] | TNone => [] end.

(* everything the subscription of the k-th inner observable, synchronous with script sc, owes:
   the items of the script up to its first terminal, tagged k, in order, then the closing *)
Definition cold_expect (k : nat) (sc : list ev) : list iexp :=
  map (XItem k) (items_of sc) ++ closing k sc.

Record istate := {
  i_mark : nat;                    (* index of the next stimulus marker *)
  i_arrived : list iobs;           (* inner observables emitted by the outer stream while it, the
                                      downstream and the subscription were live: the k-th one is nth k *)
  i_nsub : nat;                    (* inner observables subscribed so far *)
  i_outer_live : bool;             (* the outer stream has not terminated *)
  i_finished : bool;               (* a terminal was delivered downstream *)
  i_unsub : bool;                  (* an FUnsub stimulus has happened *)
  i_active : list (nat * nat);     (* (subject id, k): FSubscribed k seen for a k whose outer item was
                                      IHot id, no FInnerDone k yet; in subscription order *)
  i_hot_done : list nat;           (* hot subjects that have terminated (from the stimuli) *)
  i_expect : list iexp             (* what must come next, in this order *)
}.

Definition istate0 : istate :=
  {| i_mark := 0; i_arrived := []; i_nsub := 0; i_outer_live := true; i_finished := false; i_unsub := false;
     i_active := []; i_hot_done := []; i_expect := [] |}.

Definition set_mark w j := {| i_mark := j; i_arrived := i_arrived w; i_nsub := i_nsub w; i_outer_live := i_outer_live w;
  i_finished := i_finished w; i_unsub := i_unsub w; i_active := i_active w; i_hot_done := i_hot_done w; i_expect := i_expect w |}.
Definition set_arrived w a := {| i_mark := i_mark w; i_arrived := a; i_nsub := i_nsub w; i_outer_live := i_outer_live w;
  i_finished := i_finished w; i_unsub := i_unsub w; i_active := i_active w; i_hot_done := i_hot_done w; i_expect := i_expect w |}.
Definition set_nsub w m := {| i_mark := i_mark w; i_arrived := i_arrived w; i_nsub := m; i_outer_live := i_outer_live w;
  i_finished := i_finished w; i_unsub := i_unsub w; i_active := i_active w; i_hot_done := i_hot_done w; i_expect := i_expect w |}.
Definition set_outer_dead w := {| i_mark := i_mark w; i_arrived := i_arrived w; i_nsub := i_nsub w; i_outer_live := false;
  i_finished := i_finished w; i_unsub := i_unsub w; i_active := i_active w; i_hot_done := i_hot_done w; i_expect := i_expect w |}.
Definition set_finished w := {| i_mark := i_mark w; i_arrived := i_arrived w; i_nsub := i_nsub w; i_outer_live := i_outer_live w;
  i_finished := true; i_unsub := i_unsub w; i_active := i_active w; i_hot_done := i_hot_done w; i_expect := i_expect w |}.
Definition set_unsub w := {| i_mark := i_mark w; i_arrived := i_arrived w; i_nsub := i_nsub w; i_outer_live := i_outer_live w;
  i_finished := i_finished w; i_unsub := true; i_active := i_active w; i_hot_done := i_hot_done w; i_expect := i_expect w |}.
Definition set_active w a := {| i_mark := i_mark w; i_arrived := i_arrived w; i_nsub := i_nsub w; i_outer_live := i_outer_live w;
  i_finished := i_finished w; i_unsub := i_unsub w; i_active := a; i_hot_done := i_hot_done w; i_expect := i_expect w |}.
Definition set_hot_done w l := {| i_mark := i_mark w; i_arrived := i_arrived w; i_nsub := i_nsub w; i_outer_live := i_outer_live w;
  i_finished := i_finished w; i_unsub := i_unsub w; i_active := i_active w; i_hot_done := l; i_expect := i_expect w |}.
Definition set_expect w x := {| i_mark := i_mark w; i_arrived := i_arrived w; i_nsub := i_nsub w; i_outer_live := i_outer_live w;
  i_finished := i_finished w; i_unsub := i_unsub w; i_active := i_active w; i_hot_done := i_hot_done w; i_expect := x |}.

(* the stimulus whose marker was just read *)
Definition apply_mark (w : istate) (st : fstim) : istate :=
  if i_unsub w then w
  else
    match st with
    | FUnsub => set_unsub w
    | FOuter e =>
        if i_outer_live w then
          match e with
          | ONext i => if i_finished w then w else set_arrived w (i_arrived w ++ [i])
          | _ => set_outer_dead w
          end
        else w
    | FInner id e =>
        if memn id (i_hot_done w) then w
        else
          match e with
          | Next v =>
              (* one item per subscription of subject id, in subscription order *)
              if i_finished w then w
              else set_expect w (map (fun p => XItem (snd p) v) (filter (fun p => Nat.eqb (fst p) id) (i_active w)))
          | _ => set_hot_done w (id :: i_hot_done w)
          end
    end.

(* what an event other than a marker does to the walking state *)
Definition observe (w : istate) (o : fout) : istate :=
  match o with
  | FTerm _ => set_finished w
  | FInnerDone k => set_active w (filter (fun p => negb (Nat.eqb (snd p) k)) (i_active w))
  | _ => w
  end.

Definition items_step (sts : list fstim) (w : istate) (o : fout) : option istate :=
  match i_expect w with
  | x :: xs =>
      (* something is owed: it comes now *)
      if exp_match x o then Some (observe (set_expect w xs) o) else None
  | [] =>
      match o with
      | FMark j =>
          if Nat.eqb j (i_mark w) then
            match nth_error sts j with
            | Some st => Some (apply_mark (set_mark w (S j)) st)
            | None => None
            end
          else None
      | FItem _ _ => None           (* an item nobody owes *)
      | FStuck => None
      | FTerm _ => Some (observe w o)
      | FInnerDone k =>
          (* only a hot inner observable completes outside its own subscription *)
          match nth_error (i_arrived w) k with
          | Some (IHot _) => Some (observe w o)
          | _ => None
          end
      | FSubscribed k =>
          if i_finished w || i_unsub w then None
          else if negb (Nat.eqb k (i_nsub w)) then None      (* every inner observable once, in arrival order *)
          else
            match nth_error (i_arrived w) k with
            | None => None
            | Some (IHot id) => Some (set_nsub (set_active w (i_active w ++ [(id, k)])) (S k))
            | Some (ICold sc) => Some (set_nsub (set_expect w (cold_expect k sc)) (S k))
            end
      end
  end.

Definition items_end_ok (sts : list fstim) (w : istate) : bool :=
  match i_expect w with [] => Nat.eqb (i_mark w) (length sts) | _ => false end.

Fixpoint items_walk (sts : list fstim) (w : istate) (out : list fout) : bool :=
  match out with
  | [] => items_end_ok sts w
  | o :: r =>
      match items_step sts w o with
      | Some w' => items_walk sts w' r
      | None => false
      end
  end.

(* The limit plays no role in which items are owed. *)
Definition items_exact_ok (n : option nat) (sts : list fstim) (out : list fout) : bool :=
  items_walk sts istate0 out.

(* ---- the order of subscriptions: exactly 0, 1, 2, ... ---- *)
Fixpoint subs_consecutive (next : nat) (out : list fout) : bool :=
  match out with
  | [] => true
  | FSubscribed k :: r => Nat.eqb k next && subs_consecutive (S next) r
  | _ :: r => subs_consecutive next r
  end.

(* ---- concat: one inner observable at a time ----
   every item is an item of the inner observable subscribed last and not completed yet *)
Fixpoint concat_walk (cur : option nat) (out : list fout) : bool :=
  match out with
  | [] => true
  | FSubscribed k :: r => concat_walk (Some k) r
  | FInnerDone k :: r =>
      concat_walk (match cur with Some c => if Nat.eqb c k then None else cur | None => None end) r
  | FItem k _ :: r =>
      match cur with Some c => Nat.eqb c k | None => false end && concat_walk cur r
  | _ :: r => concat_walk cur r
  end.

Definition concat_exclusive_ok (out : list fout) : bool := concat_walk None out.
