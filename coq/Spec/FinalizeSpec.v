(* C15 as a predicate over what a subscriber and the callback observe, stimulus by stimulus:
   the callback runs in the segment of the first trigger — the first unsubscription, the first
   terminal that reaches the operator, or (take before it) the item that completes the take —
   as the last thing that happens there, and in no other segment. *)
From RxModel Require Export Finalize.
Local Open Scope nat_scope.

Record fspec := { f_alive : bool; f_items : nat; f_fired : bool }.
Definition fspec1 (connected : bool) : fspec := {| f_alive := connected; f_items := 0; f_fired := false |}.
Definition fspec0 : fspec := fspec1 true.

Definition is_next (e : ev) : bool := match e with Next _ => true | _ => false end.

(* the input is a subject and an operator that can finish early follows *)
Definition evicting (sh : fshape) : bool := match sh with FTakeAfter true _ => true | _ => false end.

(* the recorded gap (known finding C15-downstream-finished): a take(n) after the operator has
   completed and the input is a subject *)
Definition in_gap (sh : fshape) (sp : fspec) : bool :=
  match sh with
  | FTakeAfter true n => Nat.ltb 0 n && Nat.leb n (f_items sp)
  | _ => false
  end.

(* does this stimulus end the subscription as the operator sees it?  With `gap` the terminals
   falling into the recorded gap are not counted. *)
Definition is_trigger (gap : bool) (sh : fshape) (sp : fspec) (st : zstim) : bool :=
  match st with
  | ZUnsub => true
  | ZSrc e =>
      f_alive sp &&
      ((is_term e && negb (gap && in_gap sh sp)) ||
       match sh with
       | FTakeBefore n => is_next e && Nat.eqb (S (f_items sp)) n
       | _ => false
       end)
  end.

Definition spec_next (sp : fspec) (st : zstim) (fired : bool) : fspec :=
  match st with
  | ZUnsub => {| f_alive := false; f_items := f_items sp; f_fired := fired |}
  | ZSrc e =>
      if f_alive sp
      then {| f_alive := negb (is_term e); f_items := if is_next e then S (f_items sp) else f_items sp; f_fired := fired |}
      else {| f_alive := false; f_items := f_items sp; f_fired := fired |}
  end.

Definition last_is_call (seg : list zout) : bool :=
  match rev seg with ZCall :: _ => true | _ => false end.

Definition seg_ok (expect : bool) (seg : list zout) : bool :=
  if expect then Nat.eqb (calls seg) 1 && last_is_call seg else Nat.eqb (calls seg) 0.

(* verdict: 0 fine; 1 the callback did not run (or not last) at the first trigger;
   2 it ran without a trigger or a second time; 3 malformed observation *)
Fixpoint fin_ok (gap : bool) (sh : fshape) (sp : fspec) (sts : list zstim) (segs : list (list zout)) : nat :=
  match sts, segs with
  | [], [] => 0
  | st :: r, seg :: r' =>
      let expect := is_trigger gap sh sp st && negb (f_fired sp) in
      if seg_ok expect seg then fin_ok gap sh (spec_next sp st (f_fired sp || expect)) r r'
      else if expect then 1 else 2
  | _, _ => 3
  end.

(* the model's outputs, one segment per stimulus *)
Fixpoint zrun_segs (sh : fshape) (s : zstate) (sts : list zstim) : list (list zout) :=
  match sts with
  | [] => []
  | st :: r => let '(s1, o) := zstep sh s st in o :: zrun_segs sh s1 r
  end.

Definition run_finalize_segs (sh : fshape) (sts : list zstim) : list (list zout) := zrun_segs sh zstate0 sts.
Definition run_finalize_segs_from (connected : bool) (sh : fshape) (sts : list zstim) : list (list zout) :=
  zrun_segs sh (zstate1 connected) sts.
