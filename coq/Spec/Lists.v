(* What each single-input operator is documented to compute, as plain list functions
   of the input's items and terminal.  Nothing here mentions observer state. *)
From RxModel Require Export Base.

Definition out (items : list val) (t : term) : list ev := mk items t.

Fixpoint take_while_l (p : val -> bool) (inclusive : bool) (l : list val) : list val * bool :=
  (* items released, and whether the predicate failed (stream ended early) *)
  match l with
  | [] => ([], false)
  | x :: r =>
      if p x then let '(a, b) := take_while_l p inclusive r in (x :: a, b)
      else ((if inclusive then [x] else []), true)
  end.

Fixpoint drop_while_l (p : val -> bool) (l : list val) : list val :=
  match l with
  | [] => []
  | x :: r => if p x then drop_while_l p r else l
  end.

Definition lastn (n : nat) (l : list val) : list val := skipn (length l - n) l.

Definition last_opt (l : list val) : option val :=
  match rev l with [] => None | x :: _ => Some x end.

Fixpoint scan_l (f : val -> val -> val) (a : val) (l : list val) : list val :=
  match l with
  | [] => []
  | x :: r => let a' := f a x in a' :: scan_l f a' r
  end.

(* keep the first occurrence of every key *)
Fixpoint distinct_l (k : val -> val) (seen : list val) (l : list val) : list val :=
  match l with
  | [] => []
  | x :: r => if mem (k x) seen then distinct_l k seen r else x :: distinct_l k (k x :: seen) r
  end.

(* drop an item whose key equals the key of the previously *released* item *)
Fixpoint until_changed_l (k : val -> val) (prev : option val) (l : list val) : list val :=
  match l with
  | [] => []
  | x :: r =>
      match prev with
      | Some w => if val_eqb (k w) (k x) then until_changed_l k prev r
                  else x :: until_changed_l k (Some x) r
      | None => x :: until_changed_l k (Some x) r
      end
  end.

Fixpoint pairs_l (prev : option val) (l : list val) : list val :=
  match l with
  | [] => []
  | x :: r => match prev with
              | Some a => VP a x :: pairs_l (Some x) r
              | None => pairs_l (Some x) r
              end
  end.

(* consecutive chunks of `max n 1` items; the last, shorter one is returned apart *)
Fixpoint chunks_l (n : nat) (cur : list val) (l : list val) : list val * list val :=
  match l with
  | [] => ([], cur)
  | x :: r =>
      let cur' := cur ++ [x] in
      if Nat.leb n (length cur') then
        let '(full, rest) := chunks_l n [] r in (VL cur' :: full, rest)
      else chunks_l n cur' r
  end.

Fixpoint index_of (target : val) (l : list val) : bool :=
  match l with
  | [] => false
  | x :: r => val_eqb target x || index_of target r
  end.

Fixpoint filter_map_l (f : val -> option val) (l : list val) : list val :=
  match l with
  | [] => []
  | x :: r => match f x with Some w => w :: filter_map_l f r | None => filter_map_l f r end
  end.

Definition map_err (g : Z -> Z) (t : term) : term :=
  match t with TErr e => TErr (g e) | _ => t end.

(* An aggregate is released only on completion; an error discards it. *)
Definition on_done (t : term) (final : list val) : list ev :=
  match t with
  | TNone => []
  | TDone => map Next final ++ [Done]
  | TErr e => [Err e]
  end.
