(* C07, the half that a safety predicate cannot state: delay / observe_on deliver ALL of the
   source's notifications.  Every relayed notification is a task of its own; the scheduler decides
   when that task is polled, so what the operator owes is this: whenever the task of a
   notification is polled at a moment at which it is due - its timer (armed by the task's first
   poll) has elapsed, or there is no delay - while the subscriber is still listening (no terminal
   delivered, not unsubscribed) and the notification has not been delivered yet, that very poll
   delivers it.  An error that delay forwards directly is owed at once.
   Evaluated on the implementation's traces like the predicates of TimedSpec.v. *)
From RxModel Require Export Timed.
From RxSpec Require Import TimedSpec.
Open Scope N_scope.

Record rcstate := {
  c_now : N;
  c_cur : option tlab;               (* the label being processed *)
  c_n : nat;                         (* tasks created so far: one per relayed notification *)
  c_done : bool;                     (* the input has terminated *)
  c_unsub : bool;                    (* unsubscribe() has returned *)
  c_fin : bool;                      (* a terminal was delivered *)
  c_armed : list (nat * N);          (* task, time of its first poll (when its timer was created) *)
  c_deliv : list nat;                (* tasks whose notification was delivered *)
  c_owed : bool                      (* the label being processed has to produce a delivery *)
}.

Definition rc0 : rcstate :=
  {| c_now := 0; c_cur := None; c_n := 0; c_done := false; c_unsub := false; c_fin := false;
     c_armed := []; c_deliv := []; c_owed := false |}.

Fixpoint armed_at (t : nat) (l : list (nat * N)) : option N :=
  match l with
  | [] => None
  | (i, a) :: r => if Nat.eqb i t then Some a else armed_at t r
  end.

(* the notification of task t is still owed to the subscriber *)
Definition pending (c : rcstate) (t : nat) : bool :=
  Nat.ltb t (c_n c) && negb (memn' t (c_deliv c)) && negb (c_unsub c) && negb (c_fin c).

(* does the notification get a task of its own?  (delay forwards errors directly) *)
Definition own_task (direct_err : bool) (e : ev) : bool :=
  negb (direct_err && match e with Err _ => true | _ => false end).

Definition c_label (d : N) (direct_err : bool) (c : rcstate) (l : option tlab) : rcstate :=
  match l with
  | Some (LAdv dt) =>
      {| c_now := c_now c + dt; c_cur := l; c_n := c_n c; c_done := c_done c; c_unsub := c_unsub c; c_fin := c_fin c;
         c_armed := c_armed c; c_deliv := c_deliv c; c_owed := false |}
  | Some (LSrc e) =>
      if c_done c then
        {| c_now := c_now c; c_cur := l; c_n := c_n c; c_done := true; c_unsub := c_unsub c; c_fin := c_fin c;
           c_armed := c_armed c; c_deliv := c_deliv c; c_owed := false |}
      else if c_unsub c then
        {| c_now := c_now c; c_cur := l; c_n := c_n c; c_done := is_term e; c_unsub := true; c_fin := c_fin c;
           c_armed := c_armed c; c_deliv := c_deliv c; c_owed := false |}
      else if own_task direct_err e then
        {| c_now := c_now c; c_cur := l; c_n := S (c_n c); c_done := is_term e; c_unsub := false; c_fin := c_fin c;
           c_armed := c_armed c; c_deliv := c_deliv c; c_owed := false |}
      else
        {| c_now := c_now c; c_cur := l; c_n := c_n c; c_done := is_term e; c_unsub := false; c_fin := c_fin c;
           c_armed := c_armed c; c_deliv := c_deliv c; c_owed := negb (c_fin c) |}
  | Some LUnsub =>
      {| c_now := c_now c; c_cur := l; c_n := c_n c; c_done := c_done c; c_unsub := true; c_fin := c_fin c;
         c_armed := c_armed c; c_deliv := c_deliv c; c_owed := false |}
  | Some (LRun t) =>
      if pending c t then
        match armed_at t (c_armed c) with
        | Some a =>
            {| c_now := c_now c; c_cur := l; c_n := c_n c; c_done := c_done c; c_unsub := c_unsub c; c_fin := c_fin c;
               c_armed := c_armed c; c_deliv := c_deliv c; c_owed := a + d <=? c_now c |}
        | None =>
            if d =? 0 then
              {| c_now := c_now c; c_cur := l; c_n := c_n c; c_done := c_done c; c_unsub := c_unsub c; c_fin := c_fin c;
                 c_armed := c_armed c; c_deliv := c_deliv c; c_owed := true |}
            else
              {| c_now := c_now c; c_cur := l; c_n := c_n c; c_done := c_done c; c_unsub := c_unsub c; c_fin := c_fin c;
                 c_armed := (t, c_now c) :: c_armed c; c_deliv := c_deliv c; c_owed := false |}
        end
      else
        {| c_now := c_now c; c_cur := l; c_n := c_n c; c_done := c_done c; c_unsub := c_unsub c; c_fin := c_fin c;
           c_armed := c_armed c; c_deliv := c_deliv c; c_owed := false |}
  | _ =>
      {| c_now := c_now c; c_cur := l; c_n := c_n c; c_done := c_done c; c_unsub := c_unsub c; c_fin := c_fin c;
         c_armed := c_armed c; c_deliv := c_deliv c; c_owed := false |}
  end.

Definition c_deliver (c : rcstate) (e : ev) : rcstate :=
  {| c_now := c_now c; c_cur := c_cur c; c_n := c_n c; c_done := c_done c; c_unsub := c_unsub c;
     c_fin := c_fin c || is_term e; c_armed := c_armed c;
     c_deliv := match c_cur c with Some (LRun t) => t :: c_deliv c | _ => c_deliv c end;
     c_owed := false |}.

(* a label may begin only when the previous one has delivered what it owed *)
Definition c_step (d : N) (direct_err : bool) (ls : list tlab) (c : rcstate) (x : tout) : option rcstate :=
  match x with
  | TMark j => if c_owed c then None else Some (c_label d direct_err c (nth_error ls j))
  | TOut _ e => Some (c_deliver c e)
  | _ => Some c
  end.

Definition relay_complete (d : N) (direct_err : bool) (ls : list tlab) (out : list tout) : bool :=
  match walk (c_step d direct_err ls) rc0 out with
  | Some c => negb (c_owed c)
  | None => false
  end.

(* ---- delay_subscription d / subscribe_on (d = 0): one subscribing task (task 0).  Once that task
   has been polled at a moment at which it is due, the operator is subscribed to its input, and
   from then on every notification of the input is owed to the subscriber by the very call that
   brings it, until the input terminates or unsubscribe() returns ---- *)
Record qstate := {
  q_now : N;
  q_cur : option tlab;
  q_sub : bool;                      (* the subscribing task has run *)
  q_done : bool;                     (* the input has terminated *)
  q_unsub : bool;
  q_armed : option N;                (* time of the task's first poll *)
  q_owed : bool
}.

Definition q0 : qstate :=
  {| q_now := 0; q_cur := None; q_sub := false; q_done := false; q_unsub := false; q_armed := None; q_owed := false |}.

Definition q_label (d : N) (q : qstate) (l : option tlab) : qstate :=
  match l with
  | Some (LAdv dt) =>
      {| q_now := q_now q + dt; q_cur := l; q_sub := q_sub q; q_done := q_done q; q_unsub := q_unsub q;
         q_armed := q_armed q; q_owed := false |}
  | Some (LSrc e) =>
      if q_done q then
        {| q_now := q_now q; q_cur := l; q_sub := q_sub q; q_done := true; q_unsub := q_unsub q;
           q_armed := q_armed q; q_owed := false |}
      else
        {| q_now := q_now q; q_cur := l; q_sub := q_sub q; q_done := is_term e; q_unsub := q_unsub q;
           q_armed := q_armed q; q_owed := q_sub q && negb (q_unsub q) |}
  | Some LUnsub =>
      {| q_now := q_now q; q_cur := l; q_sub := q_sub q; q_done := q_done q; q_unsub := true;
         q_armed := q_armed q; q_owed := false |}
  | Some (LRun O) =>
      if negb (q_sub q) && negb (q_unsub q) then
        match q_armed q with
        | Some a =>
            {| q_now := q_now q; q_cur := l; q_sub := a + d <=? q_now q; q_done := q_done q; q_unsub := q_unsub q;
               q_armed := q_armed q; q_owed := false |}
        | None =>
            if d =? 0 then
              {| q_now := q_now q; q_cur := l; q_sub := true; q_done := q_done q; q_unsub := q_unsub q;
                 q_armed := q_armed q; q_owed := false |}
            else
              {| q_now := q_now q; q_cur := l; q_sub := false; q_done := q_done q; q_unsub := q_unsub q;
                 q_armed := Some (q_now q); q_owed := false |}
        end
      else
        {| q_now := q_now q; q_cur := l; q_sub := q_sub q; q_done := q_done q; q_unsub := q_unsub q;
           q_armed := q_armed q; q_owed := false |}
  | _ =>
      {| q_now := q_now q; q_cur := l; q_sub := q_sub q; q_done := q_done q; q_unsub := q_unsub q;
         q_armed := q_armed q; q_owed := false |}
  end.

Definition q_deliver (q : qstate) : qstate :=
  {| q_now := q_now q; q_cur := q_cur q; q_sub := q_sub q; q_done := q_done q; q_unsub := q_unsub q;
     q_armed := q_armed q; q_owed := false |}.

Definition q_step (d : N) (ls : list tlab) (q : qstate) (x : tout) : option qstate :=
  match x with
  | TMark j => if q_owed q then None else Some (q_label d q (nth_error ls j))
  | TOut _ _ => Some (q_deliver q)
  | _ => Some q
  end.

Definition pass_complete (d : N) (ls : list tlab) (out : list tout) : bool :=
  match walk (q_step d ls) q0 out with
  | Some q => negb (q_owed q)
  | None => false
  end.

(* ---- timer v d: one task (task 0); polled when it is due, before unsubscribe(), it emits the item
   and the completion, both in that very poll ---- *)
Record mstate := {
  m_now : N;
  m_ran : bool;
  m_unsub : bool;
  m_armed : option N;
  m_owed : nat                       (* deliveries the label being processed still has to make *)
}.

Definition m0 : mstate := {| m_now := 0; m_ran := false; m_unsub := false; m_armed := None; m_owed := 0 |}.

Definition m_label (d : N) (m : mstate) (l : option tlab) : mstate :=
  match l with
  | Some (LAdv dt) => {| m_now := m_now m + dt; m_ran := m_ran m; m_unsub := m_unsub m; m_armed := m_armed m; m_owed := 0 |}
  | Some LUnsub => {| m_now := m_now m; m_ran := m_ran m; m_unsub := true; m_armed := m_armed m; m_owed := 0 |}
  | Some (LRun O) =>
      if negb (m_ran m) && negb (m_unsub m) then
        match m_armed m with
        | Some a =>
            if a + d <=? m_now m
            then {| m_now := m_now m; m_ran := true; m_unsub := m_unsub m; m_armed := m_armed m; m_owed := 2 |}
            else {| m_now := m_now m; m_ran := false; m_unsub := m_unsub m; m_armed := m_armed m; m_owed := 0 |}
        | None =>
            if d =? 0
            then {| m_now := m_now m; m_ran := true; m_unsub := m_unsub m; m_armed := m_armed m; m_owed := 2 |}
            else {| m_now := m_now m; m_ran := false; m_unsub := m_unsub m; m_armed := Some (m_now m); m_owed := 0 |}
        end
      else {| m_now := m_now m; m_ran := m_ran m; m_unsub := m_unsub m; m_armed := m_armed m; m_owed := 0 |}
  | _ => {| m_now := m_now m; m_ran := m_ran m; m_unsub := m_unsub m; m_armed := m_armed m; m_owed := 0 |}
  end.

Definition m_step (d : N) (ls : list tlab) (m : mstate) (x : tout) : option mstate :=
  match x with
  | TMark j => match m_owed m with O => Some (m_label d m (nth_error ls j)) | S _ => None end
  | TOut _ _ => Some {| m_now := m_now m; m_ran := m_ran m; m_unsub := m_unsub m; m_armed := m_armed m; m_owed := Nat.pred (m_owed m) |}
  | _ => Some m
  end.

Definition timer_complete (d : N) (ls : list tlab) (out : list tout) : bool :=
  match walk (m_step d ls) m0 out with
  | Some m => Nat.eqb (m_owed m) 0
  | None => false
  end.

(* the predicate for operator `o` (the other operators are not judged by it) *)
Definition timed_complete (o : top) (ls : list tlab) (out : list tout) : bool :=
  match o with
  | TDelay d => relay_complete d true ls out
  | TObserveOn => relay_complete 0 false ls out
  | TDelaySubscription d => pass_complete d ls out
  | TSubscribeOn => pass_complete 0 ls out
  | TTimer _ d => timer_complete d ls out
  | _ => true
  end.
