(* Documented results of the derived operators and sources, on lists. *)
From RxModel Require Export Derived.
From RxSpec Require Export Ops1Spec.

Definition vmax (a b : val) : val := if val_ltb b a then a else b.
Definition vmin (a b : val) : val := if val_ltb a b then a else b.

Definition sum_z (l : list val) : Z :=
  fold_left (fun a v => match v with VZ z => a + z | _ => a end) l 0.

Definition spec_u (u : uop) (items : list val) (t : term) : list ev :=
  match u with
  | UPrim o => spec1 o items t
  | UFirst => match items with x :: _ => out [x] TDone | [] => out [] t end
  | UFirstOr d =>
      match items with
      | x :: _ => out [x] TDone
      | [] => on_done t [d]
      end
  | ULastOr d => on_done t [match last_opt items with Some x => x | None => d end]
  | UElementAt n => match nth_error items n with Some x => out [x] TDone | None => out [] t end
  | UIgnoreElements => out [] t
  | UAll p => if forallb p items then on_done t [VB true] else out [VB false] TDone
  | UReduceInitial f init => on_done t [fold_left f items init]
  | UCount => on_done t [VZ (Z.of_nat (length items))]
  | USum => on_done t [fold_left add_v items (VZ 0)]
  | UMax => on_done t (match items with [] => [] | x :: r => [fold_left (fun a b => vmax a b) r x] end)
  | UMin => on_done t (match items with [] => [] | x :: r => [fold_left (fun a b => vmin a b) r x] end)
  | UAverage =>
      on_done t (match items with
                 | [] => []
                 | _ => [avg_fin (fold_left avg_acc items (VP (VZ 0) (VZ 0)))]
                 end)
  end.

Definition ustage_spec (u : uop) (s : list ev) : list ev := spec_u u (items_of s) (term_of s).

Definition uchain_spec (us : list uop) (s : list ev) : list ev :=
  fold_left (fun acc u => ustage_spec u acc) us s.

(* Sources: the documented sequence. *)
Definition src_spec (k : src) : list ev :=
  match k with
  | SrcOf v | SrcOfFn v | SrcStart v => out [v] TDone
  | SrcOfOption (Some v) => out [v] TDone
  | SrcOfOption None => out [] TDone
  | SrcOfResult (inl v) => out [v] TDone
  | SrcOfResult (inr e) => out [] (TErr e)
  | SrcFromIter l => out l TDone
  | SrcRepeat v n => out (repeat v n) TDone
  | SrcEmpty => out [] TDone
  | SrcNever => []                          (* neither item, completion nor error, ever *)
  | SrcThrow e => out [] (TErr e)
  | SrcCreate calls => slot calls           (* calls up to and including the first terminal *)
  end.
