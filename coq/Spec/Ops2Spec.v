(* What each two-input combinator delivers, as a function of the merged timeline:
   a streaming definition that says what every arrival releases and where the output
   ends; nothing is said about what happens after the end (there is nothing). *)
From RxModel Require Export Ops2.

(* What the definition needs to remember about the past. *)
Record acc := {
  aa : option val;          (* latest / pending item of A *)
  ab : option val;          (* latest item of B *)
  pa : list val;            (* unpaired (zip) or gathered (buffer) items of A, oldest first *)
  pb : list val;            (* unpaired items of B *)
  one_done : bool;          (* one input has completed *)
  gate_closed : bool        (* skip_until: still before the notifier's first signal *)
}.

Definition acc0 : acc :=
  {| aa := None; ab := None; pa := []; pb := []; one_done := false; gate_closed := true |}.

Definition with_aa k x := {| aa := x; ab := ab k; pa := pa k; pb := pb k; one_done := one_done k; gate_closed := gate_closed k |}.
Definition with_ab k x := {| aa := aa k; ab := x; pa := pa k; pb := pb k; one_done := one_done k; gate_closed := gate_closed k |}.
Definition with_pa k x := {| aa := aa k; ab := ab k; pa := x; pb := pb k; one_done := one_done k; gate_closed := gate_closed k |}.
Definition with_pb k x := {| aa := aa k; ab := ab k; pa := pa k; pb := x; one_done := one_done k; gate_closed := gate_closed k |}.
Definition with_done k := {| aa := aa k; ab := ab k; pa := pa k; pb := pb k; one_done := true; gate_closed := gate_closed k |}.
Definition open_gate k := {| aa := aa k; ab := ab k; pa := pa k; pb := pb k; one_done := one_done k; gate_closed := false |}.

(* result of one arrival: new memory, what is released, and whether the output ends *)
Definition cont (k : acc) (out : list ev) := (k, out, false).
Definition stop (k : acc) (out : list ev) := (k, out, true).

(* completion of one input of a symmetric combinator: the second one ends the output *)
Definition both_done (k : acc) := if one_done k then stop k [Done] else cont (with_done k) [].

Definition flush (k : acc) : list ev := match pa k with [] => [] | d => [Next (VL d)] end.

Definition sstep (o : op2) (k : acc) (sd : side) (e : ev) : acc * list ev * bool :=
  match o with
  | OMerge =>
      (* every item in arrival order; first error ends; completes when both have *)
      match e with Next v => cont k [Next v] | Err _ => stop k [e] | Done => both_done k end
  | OZip =>
      (* i-th item of A with i-th item of B, released when the later of the two arrives *)
      match e with
      | Next v =>
          match sd with
          | A => match pb k with b :: r => cont (with_pb k r) [Next (VP v b)] | [] => cont (with_pa k (pa k ++ [v])) [] end
          | B => match pa k with a :: r => cont (with_pa k r) [Next (VP a v)] | [] => cont (with_pb k (pb k ++ [v])) [] end
          end
      | Err _ => stop k [e]
      | Done => both_done k
      end
  | OCombineLatest f =>
      (* at each arrival, once both inputs have produced: f (latest A) (latest B) *)
      match e with
      | Next v =>
          let k' := match sd with A => with_aa k (Some v) | B => with_ab k (Some v) end in
          match aa k', ab k' with
          | Some a, Some b => cont k' [Next (f a b)]
          | _, _ => cont k' []
          end
      | Err _ => stop k [e]
      | Done => both_done k
      end
  | OWithLatestFrom =>
      (* each A item paired with the latest B item, if any; A's terminal or B's error ends *)
      match sd, e with
      | B, Next v => cont (with_ab k (Some v)) []
      | B, Err _ => stop k [e]
      | B, Done => cont k []
      | A, Next v => match ab k with Some b => cont k [Next (VP v b)] | None => cont k [] end
      | A, _ => stop k [e]
      end
  | OTakeUntil =>
      (* A's items until the notifier's first item, then completion *)
      match sd, e with
      | A, Next v => cont k [Next v]
      | A, _ => stop k [e]
      | B, Next _ => stop k [Done]
      | B, _ => cont k []
      end
  | OSkipUntil =>
      (* A's items from the notifier's first item on.  Code behaviour outside the stated
         property: an empty completion of the notifier opens the gate as well. *)
      match sd, e with
      | A, Next v => if gate_closed k then cont k [] else cont k [Next v]
      | A, _ => stop k [e]
      | B, Next _ => cont (open_gate k) []
      | B, Done => cont (open_gate k) []
      | B, Err _ => cont k []
      end
  | OSample =>
      (* each tick (and the sampler's completion) releases A's latest item since the previous tick *)
      match sd, e with
      | A, Next v => cont (with_aa k (Some v)) []
      | A, _ => stop k [e]
      | B, Err _ => stop k [e]
      | B, _ => match aa k with Some x => cont (with_aa k None) [Next x] | None => cont k [] end
      end
  | OBuffer =>
      (* each tick releases the non-empty list gathered since the previous tick; a completion
         of either input releases the remainder and completes; an error discards it *)
      match sd, e with
      | A, Next v => cont (with_pa k (pa k ++ [v])) []
      | B, Next _ => cont (with_pa k []) (flush k)
      | _, Err _ => stop k [e]
      | _, Done => stop k (flush k ++ [Done])
      end
  end.

Fixpoint spec2 (o : op2) (k : acc) (tl : timeline) : list ev :=
  match tl with
  | [] => []
  | (sd, e) :: r =>
      let '(k', out, ended) := sstep o k sd e in
      if ended then out else out ++ spec2 o k' r
  end.

(* An input delivers nothing after its own terminal. *)
Fixpoint clean (live_a live_b : bool) (tl : timeline) : timeline :=
  match tl with
  | [] => []
  | (A, e) :: r => if live_a then (A, e) :: clean (negb (is_term e)) live_b r else clean live_a live_b r
  | (B, e) :: r => if live_b then (B, e) :: clean live_a (negb (is_term e)) r else clean live_a live_b r
  end.

Definition spec_op2 (o : op2) (tl : timeline) : list ev := spec2 o acc0 (clean true true tl).

(* projections used by the closed-form corollaries *)
Definition items_side (sd : side) (tl : timeline) : list val :=
  flat_map (fun '(s, e) => match e with
                           | Next v => match s, sd with A, A | B, B => [v] | _, _ => [] end
                           | _ => [] end) tl.
Definition all_items (tl : timeline) : list val :=
  flat_map (fun '(_, e) => match e with Next v => [v] | _ => [] end) tl.
Definition no_terminal (tl : timeline) : bool := forallb (fun '(_, e) => negb (is_term e)) tl.
