(* What histories of the subscription algebra must look like, judged on the observations
   (which leaf teardown ran, what is_closed() answered) without looking at the composite's cell. *)
From RxModel Require Export Subscr.
Local Open Scope nat_scope.

(* an independent bookkeeping of the history: which leaves are dead, which were appended, whether
   the composite has been unsubscribed, and which terms have already answered "closed" *)
Record astate := {
  a_dead : list nat;
  a_app : list nat;
  a_unsub : bool;
  a_closed_terms : list sterm
}.

Definition amem (k : nat) (l : list nat) : bool := existsb (Nat.eqb k) l.

Fixpoint aheld (s : astate) (t : sterm) : list nat :=
  match t with
  | SUnitT => []
  | SLeafT k => [k]
  | SMultiT => a_app s
  | SZipT a b => aheld s a ++ aheld s b
  end.

Fixpoint sterm_eqb (a b : sterm) : bool :=
  match a, b with
  | SUnitT, SUnitT => true
  | SLeafT x, SLeafT y => Nat.eqb x y
  | SMultiT, SMultiT => true
  | SZipT a1 a2, SZipT b1 b2 => sterm_eqb a1 b1 && sterm_eqb a2 b2
  | _, _ => false
  end.

Fixpoint has_multi (t : sterm) : bool :=
  match t with SMultiT => true | SZipT a b => has_multi a || has_multi b | _ => false end.

(* verdict: 0 ok; 1 unsound closed; 2 leaf left running; 3 re-opened by append (known); 4 closed then not closed *)
Fixpoint alg_walk (s : astate) (h : list cop) (obs : list cobs) (reopened : bool) : nat :=
  match h with
  | [] => if reopened then 3 else 0
  | CAppend k :: r =>
      let s1 := {| a_dead := a_dead s; a_app := k :: a_app s; a_unsub := a_unsub s; a_closed_terms := a_closed_terms s |} in
      if a_unsub s then
        (* the addition must be torn down at once (unless it is dead already) *)
        if amem k (a_dead s) then alg_walk s1 r obs reopened
        else match obs with
             | CKilled k' :: obs' =>
                 if Nat.eqb k k' then alg_walk {| a_dead := k :: a_dead s1; a_app := a_app s1; a_unsub := true; a_closed_terms := a_closed_terms s1 |} r obs' reopened
                 else 2
             | _ => 2
             end
      else alg_walk s1 r obs reopened
  | CDie k :: r =>
      alg_walk {| a_dead := k :: a_dead s; a_app := a_app s; a_unsub := a_unsub s; a_closed_terms := a_closed_terms s |} r obs reopened
  | CUnsub t :: r =>
      (* every live leaf held by t is torn down, in some order: consume that many CKilled *)
      let live := filter (fun k => negb (amem k (a_dead s))) (nodup Nat.eq_dec (aheld s t)) in
      (fix eat (n : nat) (dead : list nat) (obs : list cobs) {struct n} : nat :=
         match n with
         | O => alg_walk {| a_dead := dead; a_app := a_app s; a_unsub := a_unsub s || has_multi t; a_closed_terms := a_closed_terms s |} r obs reopened
         | S n' => match obs with
                   | CKilled k :: obs' => if amem k live && negb (amem k dead) then eat n' (k :: dead) obs' else 2
                   | _ => 2
                   end
         end) (length live) (a_dead s) obs
  | CClosed t :: r =>
      match obs with
      | CRet b :: obs' =>
          if b then
            if forallb (fun k => amem k (a_dead s)) (aheld s t)
            then alg_walk {| a_dead := a_dead s; a_app := a_app s; a_unsub := a_unsub s; a_closed_terms := t :: a_closed_terms s |} r obs' reopened
            else 1
          else
            if existsb (sterm_eqb t) (a_closed_terms s)
            then (if has_multi t && negb (a_unsub s) then alg_walk s r obs' true else 4)
            else alg_walk s r obs' reopened
      | _ => 4
      end
  end.

Definition alg_ok (h : list cop) (obs : list cobs) : nat :=
  alg_walk {| a_dead := []; a_app := []; a_unsub := false; a_closed_terms := [] |} h obs false.
