(* What flattening promises, as predicates on the observable trace. *)
From RxModel Require Export Flatten.
Local Open Scope nat_scope.

Definition within (n : option nat) (k : nat) : bool :=
  match n with None => true | Some m => Nat.leb k m end.

Definition valid_limit (n : option nat) : Prop :=
  match n with Some 0 => False | _ => True end.

Definition no_stuck (out : list fout) : bool :=
  forallb (fun o => match o with FStuck => false | _ => true end) out.

(* the number of subscribed-and-not-completed inner observables never exceeds the limit *)
Fixpoint peak_ok (n : option nat) (b : nat) (out : list fout) : bool :=
  match out with
  | [] => true
  | FSubscribed _ :: r => within n (S b) && peak_ok n (S b) r
  | FInnerDone _ :: r => peak_ok n (pred b) r
  | _ :: r => peak_ok n b r
  end.

Fixpoint balance (b : nat) (out : list fout) : nat :=
  match out with
  | [] => b
  | FSubscribed _ :: r => balance (S b) r
  | FInnerDone _ :: r => balance (pred b) r
  | _ :: r => balance b r
  end.

(* items, then a terminal exactly when the stream is over *)
Fixpoint down_ok (alive_after : bool) (d : list ev) : bool :=
  match d with
  | [] => alive_after
  | Next _ :: r => down_ok alive_after r
  | _ :: r => negb alive_after && match r with [] => true | _ => false end
  end.

(* inner observables are subscribed in the order in which the outer stream emitted them *)
Fixpoint subs_increasing (next : nat) (out : list fout) : bool :=
  match out with
  | [] => true
  | FSubscribed k :: r => Nat.leb next k && subs_increasing (S k) r
  | _ :: r => subs_increasing next r
  end.

Definition items_of_inner (k : nat) (out : list fout) : list val :=
  flat_map (fun o => match o with FItem k' v => if Nat.eqb k k' then [v] else [] | _ => [] end) out.

(* ---- completion exactly when everything is done, read off the trace ----
   The trace is cut into segments by the stimulus markers.  From the stimuli we know how many
   inner observables the outer stream has emitted so far and whether it has completed; from the
   trace how many were subscribed and how many of those are still running. *)
Record cstate := {
  c_arrived : nat;        (* inner observables emitted by the outer stream (while it and the output were live) *)
  c_outer_done : bool;    (* the outer stream has completed *)
  c_outer_live : bool;    (* the outer stream has not terminated *)
  c_bal : nat;            (* subscribed and not completed *)
  c_nsub : nat;           (* subscribed so far *)
  c_finished : bool       (* a terminal was delivered downstream *)
}.

(* conditions that must hold when a stimulus has been fully processed *)
Definition seg_end_ok (n : option nat) (c : cstate) : bool :=
  c_finished c ||
  ((* no starvation: a waiting inner observable implies that all slots are busy *)
   (Nat.eqb (c_nsub c) (c_arrived c) || negb (within n (S (c_bal c)))) &&
   (* not late: everything done implies completion was delivered *)
   negb (c_outer_done c && Nat.eqb (c_bal c) 0 && Nat.eqb (c_nsub c) (c_arrived c))).

Definition apply_stim (c : cstate) (st : option fstim) : cstate :=
  match st with
  | Some (FOuter e) =>
      if c_outer_live c then
        match e with
        | ONext _ => {| c_arrived := if c_finished c then c_arrived c else S (c_arrived c); c_outer_done := c_outer_done c;
                        c_outer_live := true; c_bal := c_bal c; c_nsub := c_nsub c; c_finished := c_finished c |}
        | ODone => {| c_arrived := c_arrived c; c_outer_done := true; c_outer_live := false;
                      c_bal := c_bal c; c_nsub := c_nsub c; c_finished := c_finished c |}
        | OErr _ => {| c_arrived := c_arrived c; c_outer_done := c_outer_done c; c_outer_live := false;
                       c_bal := c_bal c; c_nsub := c_nsub c; c_finished := c_finished c |}
        end
      else c
  | _ => c
  end.

Fixpoint completion_walk (n : option nat) (sts : list fstim) (c : cstate) (first : bool) (out : list fout) : bool :=
  match out with
  | [] => seg_end_ok n c
  | FMark j :: r =>
      (first || seg_end_ok n c) && completion_walk n sts (apply_stim c (nth_error sts j)) false r
  | FSubscribed _ :: r =>
      completion_walk n sts {| c_arrived := c_arrived c; c_outer_done := c_outer_done c; c_outer_live := c_outer_live c;
                               c_bal := S (c_bal c); c_nsub := S (c_nsub c); c_finished := c_finished c |} first r
  | FInnerDone _ :: r =>
      completion_walk n sts {| c_arrived := c_arrived c; c_outer_done := c_outer_done c; c_outer_live := c_outer_live c;
                               c_bal := pred (c_bal c); c_nsub := c_nsub c; c_finished := c_finished c |} first r
  | FTerm e :: r =>
      (* not early *)
      (match e with
       | Done => c_outer_done c && Nat.eqb (c_bal c) 0 && Nat.eqb (c_nsub c) (c_arrived c)
       | _ => true end) &&
      completion_walk n sts {| c_arrived := c_arrived c; c_outer_done := c_outer_done c; c_outer_live := c_outer_live c;
                               c_bal := c_bal c; c_nsub := c_nsub c; c_finished := true |} first r
  | _ :: r => completion_walk n sts c first r
  end.

Definition completion_ok (n : option nat) (sts : list fstim) (out : list fout) : bool :=
  completion_walk n sts {| c_arrived := 0; c_outer_done := false; c_outer_live := true; c_bal := 0; c_nsub := 0;
                           c_finished := false |} true out.

(* after unsubscribe() has returned nothing is delivered and no inner observable is started *)
Fixpoint silent_after_unsub (sts : list fstim) (unsub : bool) (out : list fout) : bool :=
  match out with
  | [] => true
  | FMark j :: r =>
      silent_after_unsub sts (unsub || match nth_error sts j with Some FUnsub => true | _ => false end) r
  | _ :: r => negb unsub && silent_after_unsub sts unsub r
  end.
