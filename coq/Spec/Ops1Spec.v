(* Documented list semantics of every single-input operator, as a function of the
   input's items and terminal. *)
From RxModel Require Export Ops1.
From RxSpec Require Export Lists.

Definition spec1 (o : op1) (items : list val) (t : term) : list ev :=
  match o with
  | OMap f => out (map f items) t
  | OMapTo c => out (map (fun _ => c) items) t
  | OFilter p => out (filter p items) t
  | OFilterMap f => out (filter_map_l f items) t
  | OTap => out items t
  | OOnErrorMap g => out items (map_err g t)
  | OTake n =>
      (* first n items, completion right after the n-th; with n = 0 nothing is
         released and the source's own terminal is forwarded *)
      match n with
      | O => out [] t
      | _ => if Nat.leb n (length items) then out (firstn n items) TDone else out items t
      end
  | OSkip n => out (skipn n items) t
  | OTakeWhile p inclusive =>
      let '(a, stopped) := take_while_l p inclusive items in
      out a (if stopped then TDone else t)
  | OSkipWhile p => out (drop_while_l p items) t
  | OTakeLast n => on_done t (lastn n items)
  | OSkipLast n => out (firstn (length items - n) items) t
  | OLast => on_done t (match last_opt items with Some x => [x] | None => [] end)
  | OScan f init => out (scan_l f init items) t
  | ODefaultIfEmpty d =>
      match items, t with
      | [], TDone => out [d] TDone
      | _, _ => out items t
      end
  | ODistinct => out (distinct_l (fun x => x) [] items) t
  | ODistinctKey k => out (distinct_l k [] items) t
  | ODistinctUntilChanged => out (until_changed_l (fun x => x) None items) t
  | ODistinctUntilKeyChanged k => out (until_changed_l k None items) t
  | OPairwise => out (pairs_l None items) t
  | OBufferCount n =>
      (* chunks of max n 1 items; the shorter remainder only on completion *)
      let '(full, rest) := chunks_l n [] items in
      match t with
      | TDone => out (full ++ match rest with [] => [] | _ => [VL rest] end) TDone
      | _ => out full t
      end
  | OContains target =>
      if index_of target items then out [VB true] TDone else on_done t [VB false]
  | OCollect => on_done t [VL items]
  | OStartWith vs => out (vs ++ items) t
  end.

(* A chain is the left-to-right composition of the stage functions. *)
Definition stage_spec (o : op1) (s : list ev) : list ev := spec1 o (items_of s) (term_of s).

Definition chain_spec (os : list op1) (s : list ev) : list ev :=
  fold_left (fun acc o => stage_spec o acc) os s.
