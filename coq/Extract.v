(* Extraction of the executable model and specifications to OCaml.
   Only ExtrOcamlBasic's directives are used; numbers stay as extracted inductives. *)
Require Extraction.
Require Import ExtrOcamlBasic.
From RxModel Require Import Derived Ops2 Subject GroupBy Flatten Timed Async Subscr Finalize Fin Pipe Indep Share Convert Conc Ileave.
From RxSpec Require Import DerivedSpec Ops2Spec SubjectSpec BehaviorSpec GroupBySpec FlattenSpec FlattenItems TimedSpec RelayComplete SubscrSpec FinalizeSpec IleaveSpec.
(* the hypotheses of the interleaving theorems are computable predicates on cases: the runner evaluates them on every case *)
From RxProofs Require Import IleaveInv IleaveLaws.
Extraction Language OCaml.
Extraction "model.ml"
  apply_fn apply_fn2 pred_of opt_of
  run_src run_hot run_cold expand_all src_script slot
  uchain_spec src_spec wf
  run_op2 spec_op2 first_side
  srun subj0 arun asub0 size_ok brun bsubj0 abrun sops_of
  run_group_by first_keys group_trace announced flattened outer_term announced_first items_of term_of term_evs val_eqb
  run_flatten downstream peak_ok subs_increasing completion_ok silent_after_unsub items_exact_ok subs_consecutive concat_exclusive_ok
  run_timed raw_ok timed_ok timed_complete prompt_case remaining closed_sound_ok
  run_async yields pendings
  crun cstate0 alg_ok
  run_finalize_segs run_finalize_segs_from fin_ok fspec0 fspec1 rrun
  run_iter_case run_iter_case_pre run_stream_case run_interval_case
  Pipe.exec idiom_log
  run_share
  next_prog subscribe_prog unsubscribe_prog complete_prog probe_cell shared_tail acquisitions
  run_future run_stream wrun waiter_safe w_flag
  names_ok setup_completes unsubs_ok
  Ileave.run_case ileave_ok latest_ok joiner_ok no_overlap no_panic grammar_ok quiet_after_unsub values_ok common_order_ok full_time_sees_all nothing_lost
  sub_runs nested_run lscript factory_calls is_iter calls_after.
