(* Extraction of the executable model and specifications to OCaml.
   Only ExtrOcamlBasic's directives are used; numbers stay as extracted inductives. *)
Require Extraction.
Require Import ExtrOcamlBasic.
From RxModel Require Import Derived Ops2 Subject.
From RxSpec Require Import DerivedSpec Ops2Spec SubjectSpec BehaviorSpec.
Extraction Language OCaml.
Extraction "model.ml"
  apply_fn apply_fn2 pred_of opt_of
  run_src run_hot run_cold expand_all src_script slot
  uchain_spec src_spec wf
  run_op2 spec_op2 first_side
  srun subj0 arun asub0 size_ok brun bsubj0 abrun sops_of.
