(* C05 (and C18), tie to the source by translation for the flattening family: merge_all(n), concat_all, flatten, flat_map,
   concat_map and their _threads forms are default methods of ObservableExt that build ONE operator, MergeAllOp /
   MergeAllOpThreads, with a concurrency limit, possibly behind a map.  The translated methods (Gen/Bodies.v, translator T5),
   evaluated on the upstream observable, build exactly that: the limit the machine of Model/Flatten.v is run with (1 for the
   concat forms, usize::MAX for flatten / flat_map, n for merge_all(n)), the same in both forms.  This file holds only the
   property theorem, closed by `exact`. *)
From RxModel Require Import BodyAbsExt.
From RxGen Require Import Bodies.
From RxProofs Require BodyTieExt.

Theorem C05_source_limits : flatten_family_agrees bodies.
Proof. exact BodyTieExt.flatten_family_ok. Qed.

Check C05_source_limits : flatten_family_agrees bodies.
Print Assumptions C05_source_limits.

Example C05_example_source_concat_map_threads :
  ext_skeleton bodies "concat_map_threads" [VClosTok] = Some [("MapOp", PNone); ("MergeAllOpThreads", PNum 1)].
Proof. vm_compute. reflexivity. Qed.

Example C05_example_limits : map api_limit [AMergeAll 0; AMergeAll 3; AConcatAll; AFlatten; AFlatMap; AConcatMap]
  = [Some 0; Some 3; Some 1; None; None; Some 1]%nat.
Proof. reflexivity. Qed.
