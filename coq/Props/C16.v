(* C16 — ending a stream early retires the producers that feed it. *)
From RxModel Require Import Fin Sched.
From RxSpec Require Import SchedSpec.
From RxGen Require IsFinished.
From RxProofs Require FinLaws SchedLaws.
Local Open Scope nat_scope.

(* ---- the model's back channel is what the source says today (table regenerated from every
   `fn is_finished` body of /repo/src on every run) ---- *)
Theorem C16_source_agrees_single :
  forall o : op1, map (fun k => lookup k IsFinished.table) (path1 o) = map Some (kinds1 o).
Proof. intros o. destruct o; vm_compute; reflexivity. Qed.

Theorem C16_source_agrees_double :
  forall (o : op2) (sd : side), map (fun k => lookup k IsFinished.table) (path2 o sd) = map Some (kinds2 o sd).
Proof. intros o sd. destruct o, sd; vm_compute; reflexivity. Qed.

(* no observer in the crate answers a constant or something unrecognised, except the final subscriber
   (subscribe_item.rs), and the consumers that own a channel or are a subject *)
Definition allowed (row : string * fin_kind) : bool :=
  match snd row with
  | KFwd | KSlotOrFwd | KCellSlotOrFwd | KBoxFwd | KChannelClosed | KSubjectClosed => true
  | KConstFalse => String.eqb (fst row) "observable/subscribe_item.rs:ObserverItem"
  | KConstTrue | KUnknown => false
  end.

Theorem C16_no_constant_answers : forallb allowed IsFinished.table = true.
Proof. vm_compute. reflexivity. Qed.

(* ---- every operator's observer forwards its downstream's answer ---- *)
Theorem C16_every_observer_forwards :
  (forall o st, fin1 o st true = true) /\ (forall o s sd, fin2 o s sd true = true) /\ (forall ch, chain_fin ch true = true).
Proof. exact (conj FinLaws.fin1_forward (conj FinLaws.fin2_forward FinLaws.chain_fin_forward)). Qed.

(* ---- an early end anywhere behind the producer's observer — in any chain of operators, behind
   either input of a two-input operator — is visible to the producer, and stays visible ---- *)
Theorem C16_cut_reaches_producer :
  forall (k : sink) (sd : side) (e : ev),
    (sk_two k = None -> is_term e = false) ->
    FinLaws.has_term (snd (sink_put k sd e)) = true -> sink_fin (fst (sink_put k sd e)) = true.
Proof. exact FinLaws.sink_cut. Qed.

Theorem C16_finished_stays_finished :
  forall (k : sink) (sd : side) (e : ev), sink_fin k = true -> sink_fin (fst (sink_put k sd e)) = true.
Proof. exact FinLaws.sink_fin_stable. Qed.

(* ---- iterator sources stop pulling ---- *)
Theorem C16_iterator_stops_at_cut :
  forall (k : sink) (v : val) (rest : list val),
    sink_fin k = false -> FinLaws.has_term (snd (prod_put k (Next v))) = true ->
    iter_loop k (v :: rest) = (fst (prod_put k (Next v)), 1, snd (prod_put k (Next v))).
Proof. exact FinLaws.iter_stops_at_cut. Qed.

Theorem C16_iterator_never_pulls_when_finished :
  forall (k : sink) (items : list val), sink_fin k = true -> iter_loop k items = (k, 0, []).
Proof. exact FinLaws.iter_no_pull_when_finished. Qed.

(* ---- from_stream stops polling and its task ends ---- *)
Theorem C16_stream_stops_when_finished :
  forall (k : sink) (ready : list val) (ended : bool),
    sink_fin k = true -> let '(_, pulls, _, finished) := stream_poll k ready ended in pulls = 0 /\ finished = true.
Proof. exact FinLaws.stream_stops_when_finished. Qed.

(* ---- periodic sources retire within one period ---- *)
Theorem C16_interval_retires_within_one_period :
  forall (s : ivst) (sd : side) (other_live : bool) (sts : list rstim),
    iv_retired s = false -> FinLaws.has_term (snd (iv_tick s)) = true -> 0 < FinLaws.ticks sts ->
    iv_retired (fst (iv_run (fst (iv_tick s)) sd other_live sts)) = true.
Proof. exact FinLaws.interval_retires_within_one_period. Qed.

(* ... and a repeating task whose function answers `false` at tick seq is finished by the scheduler:
   ticks_ok demands that nothing runs after such a tick (scheduler.rs, RepeatTask::poll) *)
Theorem C16_task_finishes_when_function_declines :
  forall (cont : nat -> bool) (j : nat) (p : N) (ls : list tlabel) (now : N) (t : task) (due : N) (seq : nat),
    t_body t = BRepeat j p due seq -> ticks_ok cont p seq due (trun cont now t ls) = true.
Proof. exact SchedLaws.repeat_ticks. Qed.

Check C16_source_agrees_single : forall o, map (fun k => lookup k IsFinished.table) (path1 o) = map Some (kinds1 o).
Check C16_source_agrees_double : forall o sd, map (fun k => lookup k IsFinished.table) (path2 o sd) = map Some (kinds2 o sd).
Check C16_no_constant_answers : forallb allowed IsFinished.table = true.
Check C16_every_observer_forwards :
  (forall o st, fin1 o st true = true) /\ (forall o s sd, fin2 o s sd true = true) /\ (forall ch, chain_fin ch true = true).
Check C16_cut_reaches_producer : forall k sd e, (sk_two k = None -> is_term e = false) ->
    FinLaws.has_term (snd (sink_put k sd e)) = true -> sink_fin (fst (sink_put k sd e)) = true.
Check C16_finished_stays_finished : forall k sd e, sink_fin k = true -> sink_fin (fst (sink_put k sd e)) = true.
Check C16_iterator_stops_at_cut : forall k v rest,
    sink_fin k = false -> FinLaws.has_term (snd (prod_put k (Next v))) = true ->
    iter_loop k (v :: rest) = (fst (prod_put k (Next v)), 1, snd (prod_put k (Next v))).
Check C16_iterator_never_pulls_when_finished : forall k items, sink_fin k = true -> iter_loop k items = (k, 0, []).
Check C16_stream_stops_when_finished : forall k ready ended,
    sink_fin k = true -> let '(_, pulls, _, finished) := stream_poll k ready ended in pulls = 0 /\ finished = true.
Check C16_interval_retires_within_one_period : forall s sd ol sts,
    iv_retired s = false -> FinLaws.has_term (snd (iv_tick s)) = true -> 0 < FinLaws.ticks sts ->
    iv_retired (fst (iv_run (fst (iv_tick s)) sd ol sts)) = true.
Check C16_task_finishes_when_function_declines : forall cont j p ls now t due seq,
    t_body t = BRepeat j p due seq -> ticks_ok cont p seq due (trun cont now t ls) = true.

Print Assumptions C16_source_agrees_single.
Print Assumptions C16_source_agrees_double.
Print Assumptions C16_no_constant_answers.
Print Assumptions C16_every_observer_forwards.
Print Assumptions C16_cut_reaches_producer.
Print Assumptions C16_finished_stays_finished.
Print Assumptions C16_iterator_stops_at_cut.
Print Assumptions C16_iterator_never_pulls_when_finished.
Print Assumptions C16_stream_stops_when_finished.
Print Assumptions C16_interval_retires_within_one_period.
Print Assumptions C16_task_finishes_when_function_declines.

(* non-vacuity *)
Example C16_example_iter :
  run_iter_case None [OMap (fun v => v); OSkip 1; OTake 2] [] [VZ 0; VZ 1; VZ 2; VZ 3; VZ 4; VZ 5]
  = (3, [Next (VZ 1); Next (VZ 2); Done]).
Proof. vm_compute. reflexivity. Qed.

Example C16_example_iter_notifier :
  (* of-like main input, iterator as take_until's notifier: one pull ends the stream *)
  run_iter_case (Some (OTakeUntil, B)) [OTap] [Next (VZ 7)] [VZ 0; VZ 1; VZ 2] = (1, [Next (VZ 7); Done]).
Proof. vm_compute. reflexivity. Qed.

Example C16_example_interval_notifier :
  run_interval_case (Some (OSkipUntil, B)) [OTake 1] [RSide (Next (VZ 5)); RTick; RSide (Next (VZ 6)); RTick; RTick]
  = (false, [Next (VZ 6); Done]).
Proof. vm_compute. reflexivity. Qed.
