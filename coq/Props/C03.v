(* C03 — sources and single-input operators compute their documented sequence.
   This file holds only the property theorems, each closed by `exact`. *)
From RxModel Require Import Derived.
From RxSpec Require Import DerivedSpec.
From RxProofs Require Ops1Laws ChainLaws DerivedLaws BigCounts.

(* Each operator machine, on every well-formed script. *)
Theorem C03_operator :
  forall (o : op1) (items : list val) (t : term), run_op o (mk items t) = spec1 o items t.
Proof. exact Ops1Laws.op_meets_spec. Qed.

(* Each operator defined by composition in observable.rs. *)
Theorem C03_derived :
  forall (u : uop) (items : list val) (t : term),
    chain_spec (expand u) (mk items t) = spec_u u items t.
Proof. exact DerivedLaws.derived_meets_spec. Qed.

(* Every source followed by every chain: what the subscriber sees is the composition of
   the documented list functions applied to the source's documented sequence. *)
Theorem C03_cold_pipeline :
  forall (k : src) (us : list uop), run_src k us = uchain_spec us (src_spec k).
Proof. exact DerivedLaws.pipeline_meets_spec. Qed.

(* The same behind a hot input, event by event, whatever is called on the input
   (post-terminal calls included: the slot cuts them). *)
Theorem C03_hot_pipeline :
  forall (us : list uop) (calls : list ev),
    run_hot (expand_all us) (slot calls) = uchain_spec us (slot calls).
Proof. exact DerivedLaws.hot_pipeline_meets_spec. Qed.

(* Cold and hot delivery of the same script agree, for every chain. *)
Theorem C03_hot_eq_cold :
  forall (os : list op1) (s : list ev), run_hot os s = run_cold os s.
Proof. exact ChainLaws.hot_eq_cold. Qed.

(* Counts that no script reaches (the cases' `big`, `big1`, `mid`: usize::MAX, usize::MAX - 1, 2^33 in the crate, 5000 / 4999 /
   4000 in the model): for a script shorter than both counts the documented function is the same for both. *)
Theorem C03_count_beyond_the_script :
  forall mk1 : nat -> op1,
    (mk1 = OTake \/ mk1 = OSkip \/ mk1 = OTakeLast \/ mk1 = OSkipLast \/ mk1 = OBufferCount) ->
    forall (n m : nat) (items : list val) (t : term),
      (length items < n)%nat -> (length items < m)%nat -> spec1 (mk1 n) items t = spec1 (mk1 m) items t.
Proof. exact BigCounts.count_beyond_the_script. Qed.

Check C03_operator : forall o items t, run_op o (mk items t) = spec1 o items t.
Check C03_count_beyond_the_script :
  forall mk1 : nat -> op1,
    (mk1 = OTake \/ mk1 = OSkip \/ mk1 = OTakeLast \/ mk1 = OSkipLast \/ mk1 = OBufferCount) ->
    forall n m items t, (length items < n)%nat -> (length items < m)%nat -> spec1 (mk1 n) items t = spec1 (mk1 m) items t.
Check C03_derived : forall u items t, chain_spec (expand u) (mk items t) = spec_u u items t.
Check C03_cold_pipeline : forall k us, run_src k us = uchain_spec us (src_spec k).
Check C03_hot_pipeline : forall us calls,
  run_hot (expand_all us) (slot calls) = uchain_spec us (slot calls).
Check C03_hot_eq_cold : forall os s, run_hot os s = run_cold os s.

Print Assumptions C03_operator.
Print Assumptions C03_count_beyond_the_script.
Print Assumptions C03_derived.
Print Assumptions C03_cold_pipeline.
Print Assumptions C03_hot_pipeline.
Print Assumptions C03_hot_eq_cold.

(* Non-vacuity: a concrete chain on a concrete script, with an error that must discard
   the aggregate. *)
Example C03_example_error_discards_aggregate :
  run_src (SrcCreate [Next (VZ 1); Next (VZ 2); Err 7; Next (VZ 3)])
          [UPrim (OMap (fun v => v)); USum] = [Err 7].
Proof. vm_compute. reflexivity. Qed.

Example C03_example_take :
  run_hot (expand_all [UPrim (OSkip 1); UPrim (OTake 2); UCount])
          (slot [Next (VZ 5); Next (VZ 6); Next (VZ 7); Next (VZ 8); Done])
  = [Next (VZ 2); Done].
Proof. vm_compute. reflexivity. Qed.
