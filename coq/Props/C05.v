(* C05 — flattening delivers every inner item once and honours the concurrency limit. *)
From RxModel Require Import Flatten.
From RxSpec Require Import FlattenSpec FlattenItems.
From RxProofs Require FlattenLaws FlattenItemsLaws.
Local Open Scope nat_scope.

(* For every stimulus sequence (outer items that are synchronous or hot inner observables,
   outer terminals, notifications of the hot inner observables, in any order and number)
   and every limit n >= 1 or unbounded: *)

(* the cascade of queued synchronous inner observables started from an inner completion
   always terminates within the model's fuel (no re-entrancy problem is hidden by it) *)
Theorem C05_no_stuck :
  forall n sts, valid_limit n -> no_stuck (run_flatten n sts) = true.
Proof. exact FlattenLaws.flatten_no_stuck. Qed.

(* at no instant are more than n inner observables subscribed *)
Theorem C05_limit :
  forall n sts, valid_limit n -> peak_ok n 0 (run_flatten n sts) = true.
Proof. exact FlattenLaws.flatten_limit. Qed.

(* the subscriber sees items, then at most one terminal, then nothing *)
Theorem C05_downstream_wf :
  forall n sts, valid_limit n -> wf (downstream (run_flatten n sts)) = true.
Proof. exact FlattenLaws.flatten_wf. Qed.

(* completion is delivered only when the outer stream has completed and no inner observable
   is subscribed or waiting ... *)
Theorem C05_done_not_early :
  forall n s b st, valid_limit n -> FlattenLaws.reach n s b -> In (FTerm Done) (snd (fstep n s st)) ->
    let s' := fst (fstep n s st) in
    f_subscribed s' = 0 /\ f_queue s' = [] /\ f_outside_completed s' = true.
Proof. exact FlattenLaws.flatten_done_sound. Qed.

(* ... and not later: while the stream is live after the outer completion, some inner
   observable is still subscribed *)
Theorem C05_done_not_late :
  forall n s b, valid_limit n -> FlattenLaws.reach n s b ->
    f_alive s = true -> f_outside_completed s = true -> 0 < f_subscribed s.
Proof. exact FlattenLaws.flatten_done_complete. Qed.

(* the operator's counter equals the number of subscribed, not yet completed inner
   observables seen in the trace, and is within the limit *)
Theorem C05_count_exact :
  forall n s b, valid_limit n -> FlattenLaws.reach n s b -> f_alive s = true ->
    b = f_subscribed s /\ within n (f_subscribed s) = true.
Proof. exact FlattenLaws.flatten_count_exact. Qed.

(* every item of every inner observable exactly once, in the inner observable's own order: the
   trace is walked with a state computed from the stimuli and the subscription events alone; a
   notification of a subscribed hot inner observable owes exactly one item (one per subscription
   of that subject, in subscription order), a synchronous inner observable owes its whole script
   right after it is subscribed, and no item occurs that is not owed *)
Theorem C05_items_exactly_once :
  forall n sts, valid_limit n -> items_exact_ok n sts (run_flatten n sts) = true.
Proof. exact FlattenItemsLaws.flatten_items_exact. Qed.

(* inner observables are subscribed in the order in which the outer stream emitted them, each
   once: 0, 1, 2, ... *)
Theorem C05_subscribed_in_outer_order :
  forall n sts, valid_limit n -> subs_consecutive 0 (run_flatten n sts) = true.
Proof. exact FlattenItemsLaws.flatten_subs_consecutive. Qed.

(* concat (limit 1): the items of an inner observable lie between its subscription and its
   completion, and no other inner observable's item does: the outer order is kept *)
Theorem C05_concat_keeps_outer_order :
  forall sts, concat_exclusive_ok (run_flatten (Some 1) sts) = true.
Proof. exact FlattenItemsLaws.flatten_concat_exclusive. Qed.

Check C05_items_exactly_once : forall n sts, valid_limit n -> items_exact_ok n sts (run_flatten n sts) = true.
Check C05_subscribed_in_outer_order : forall n sts, valid_limit n -> subs_consecutive 0 (run_flatten n sts) = true.
Check C05_concat_keeps_outer_order : forall sts, concat_exclusive_ok (run_flatten (Some 1) sts) = true.
Check C05_no_stuck : forall n sts, valid_limit n -> no_stuck (run_flatten n sts) = true.
Check C05_limit : forall n sts, valid_limit n -> peak_ok n 0 (run_flatten n sts) = true.
Check C05_downstream_wf : forall n sts, valid_limit n -> wf (downstream (run_flatten n sts)) = true.
Check C05_done_not_early : forall n s b st, valid_limit n -> FlattenLaws.reach n s b -> In (FTerm Done) (snd (fstep n s st)) ->
    let s' := fst (fstep n s st) in f_subscribed s' = 0 /\ f_queue s' = [] /\ f_outside_completed s' = true.
Check C05_done_not_late : forall n s b, valid_limit n -> FlattenLaws.reach n s b ->
    f_alive s = true -> f_outside_completed s = true -> 0 < f_subscribed s.
Check C05_count_exact : forall n s b, valid_limit n -> FlattenLaws.reach n s b -> f_alive s = true ->
    b = f_subscribed s /\ within n (f_subscribed s) = true.

Print Assumptions C05_items_exactly_once.
Print Assumptions C05_subscribed_in_outer_order.
Print Assumptions C05_concat_keeps_outer_order.
Print Assumptions C05_no_stuck.
Print Assumptions C05_limit.
Print Assumptions C05_downstream_wf.
Print Assumptions C05_done_not_early.
Print Assumptions C05_done_not_late.
Print Assumptions C05_count_exact.

(* Non-vacuity: concat_all with a hot inner observable followed by a queued synchronous one;
   the completion of the hot one starts the queued one (the scenario that used to panic). *)
Example C05_example :
  run_flatten (Some 1)
    [FOuter (ONext (IHot 0)); FOuter (ONext (ICold [Next (VZ 7%Z); Next (VZ 8%Z); Done])); FInner 0 (Next (VZ 5%Z));
     FInner 0 Done; FOuter ODone]
  = [FMark 0; FSubscribed 0; FMark 1; FMark 2; FItem 0 (VZ 5%Z); FMark 3; FInnerDone 0; FSubscribed 1;
     FItem 1 (VZ 7%Z); FItem 1 (VZ 8%Z); FInnerDone 1; FMark 4; FTerm Done].
Proof. vm_compute. reflexivity. Qed.

Example C05_example_limit_valid : valid_limit (Some 1) /\ valid_limit None.
Proof. split; exact I. Qed.

(* the item predicate rejects a duplicated and a dropped item *)
Example C05_example_items_rejects :
  items_exact_ok (Some 1) [FOuter (ONext (IHot 0)); FInner 0 (Next (VZ 5%Z))]
    [FMark 0; FSubscribed 0; FMark 1; FItem 0 (VZ 5%Z); FItem 0 (VZ 5%Z)] = false /\
  items_exact_ok (Some 1) [FOuter (ONext (IHot 0)); FInner 0 (Next (VZ 5%Z))]
    [FMark 0; FSubscribed 0; FMark 1] = false.
Proof. vm_compute. split; reflexivity. Qed.
