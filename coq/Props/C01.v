(* C01 — every subscriber sees items, then at most one terminal, then nothing. *)
From RxModel Require Import Pipe Flatten GroupBy Timed Chain.
From RxSpec Require Import FlattenSpec GroupBySpec TimedSpec.
From RxProofs Require PipeLaws FlattenLaws TimedLaws TimedGrammar.

(* Any tree of hot inputs (subjects, the same one possibly several times), cold sources, chains of
   single-input operators and two-input operators, of any depth; any sequence of calls on the hot
   inputs, calls after an input's own terminal included: what reaches the subscriber is well-formed. *)
Theorem C01_pipeline_grammar : forall (p : pipe) (sts : list stim), wf (exec p sts) = true.
Proof. exact PipeLaws.pipe_wf. Qed.

(* the execution of a tree is compositional: a chain on top of a sub-pipeline is the chain run on
   the sub-pipeline's trace; a two-input operator is its machine run on one merged timeline *)
Theorem C01_chain_on_subtree : forall (p : pipe) (os : list op1) (sts : list stim),
  exec (PChain p os) sts = run_hot os (exec p sts).
Proof. exact PipeLaws.exec_chain. Qed.

Theorem C01_two_inputs_on_subtrees : forall (o : op2) (a b : pipe) (sts : list stim),
  exec (POp2 o a b) sts = run_op2 o (PipeLaws.all_tl o (chunks a sts) (chunks b sts)).
Proof. exact PipeLaws.exec_op2. Qed.

(* two-input operators: whatever arrives on either input in whatever order *)
Theorem C01_two_inputs_any_timeline : forall (o : op2) (tl : timeline) (s : st2) (la lb : bool),
  wf (run2 o s la lb tl) = true.
Proof. exact PipeLaws.op2_wf. Qed.

(* flattening operators: whatever the outer and inner observables do *)
Theorem C01_flattening : forall (n : option nat) (sts : list fstim),
  valid_limit n -> wf (downstream (run_flatten n sts)) = true.
Proof. exact FlattenLaws.flatten_wf. Qed.

(* group_by: every group's subscriber *)
Theorem C01_groups : forall (key : val -> val) (k : val) (items : list val) (t : term),
  wf (group_trace k (run_group_by key (mk items t))) = true.
Proof. exact PipeLaws.group_wf. Qed.

(* the closure idiom .on_error(f).on_complete(g).subscribe(h): f, g and h together are called
   with exactly the trace, hence with a well-formed sequence *)
Theorem C01_closure_idiom : forall t : list ev, wf t = true -> idiom_log true t = t.
Proof. exact PipeLaws.idiom_sees_trace. Qed.

Theorem C01_closure_idiom_grammar : forall (t : list ev) (live : bool), wf (idiom_log live t) = true.
Proof. exact PipeLaws.idiom_wf. Qed.

(* The scheduler-using operators and time sources (delay, observe_on, delay_subscription,
   subscribe_on, debounce, throttle x 3 edges, buffer_with_time, buffer_with_count_and_time,
   interval, interval_at, timer) between a hot input and the subscriber: for EVERY label sequence
   (input notifications also after the input's terminal, polls of any task at any time and in any
   order, clock advances, unsubscribe, queries) what reaches the subscriber is items, at most
   one terminal, nothing after *)
Theorem C01_timed_grammar :
  forall o ls, TimedLaws.not_raw o -> wf (TimedGrammar.delivered (run_timed o ls)) = true.
Proof. exact TimedGrammar.timed_grammar. Qed.

(* and any trace the operator's predicate accepts - the implementation's traces are judged by it -
   has that shape *)
Theorem C01_timed_predicates_imply_grammar :
  forall o ls out, TimedLaws.not_raw o -> timed_ok o ls out = true -> wf (TimedGrammar.delivered out) = true.
Proof. exact TimedGrammar.timed_ok_grammar. Qed.

(* composed with the untimed part: any pipeline tree in front of the scheduler-using operator (its
   trace woven with polls and clock advances placed anywhere), any chain of single-input operators
   behind it *)
Theorem C01_timed_inside_a_pipeline :
  forall o p sts others os, TimedLaws.not_raw o ->
    wf (run_hot os (TimedGrammar.delivered (run_timed o (TimedGrammar.weave (exec p sts) others)))) = true.
Proof. exact TimedGrammar.timed_on_pipeline_grammar. Qed.

Check C01_timed_inside_a_pipeline : forall o p sts others os, TimedLaws.not_raw o ->
    wf (run_hot os (TimedGrammar.delivered (run_timed o (TimedGrammar.weave (exec p sts) others)))) = true.
Print Assumptions C01_timed_inside_a_pipeline.
Check C01_timed_grammar : forall o ls, TimedLaws.not_raw o -> wf (TimedGrammar.delivered (run_timed o ls)) = true.
Check C01_timed_predicates_imply_grammar :
  forall o ls out, TimedLaws.not_raw o -> timed_ok o ls out = true -> wf (TimedGrammar.delivered out) = true.
Print Assumptions C01_timed_grammar.
Print Assumptions C01_timed_predicates_imply_grammar.

Check C01_pipeline_grammar : forall p sts, wf (exec p sts) = true.
Check C01_chain_on_subtree : forall p os sts, exec (PChain p os) sts = run_hot os (exec p sts).
Check C01_two_inputs_on_subtrees : forall o a b sts,
  exec (POp2 o a b) sts = run_op2 o (PipeLaws.all_tl o (chunks a sts) (chunks b sts)).
Check C01_two_inputs_any_timeline : forall o tl s la lb, wf (run2 o s la lb tl) = true.
Check C01_flattening : forall n sts, valid_limit n -> wf (downstream (run_flatten n sts)) = true.
Check C01_groups : forall key k items t, wf (group_trace k (run_group_by key (mk items t))) = true.
Check C01_closure_idiom : forall t, wf t = true -> idiom_log true t = t.
Check C01_closure_idiom_grammar : forall t live, wf (idiom_log live t) = true.

Print Assumptions C01_pipeline_grammar.
Print Assumptions C01_chain_on_subtree.
Print Assumptions C01_two_inputs_on_subtrees.
Print Assumptions C01_two_inputs_any_timeline.
Print Assumptions C01_flattening.
Print Assumptions C01_groups.
Print Assumptions C01_closure_idiom.
Print Assumptions C01_closure_idiom_grammar.

Example C01_example_tree :
  exec (PChain (POp2 OMerge (PHot 0) (PChain (PHot 1) [OTake 1])) [OMap (fun v => v)])
       [(0%nat, Next (VZ 1)); (1%nat, Next (VZ 5)); (1%nat, Next (VZ 6)); (0%nat, Done); (0%nat, Next (VZ 2)); (1%nat, Err 3)]
  = [Next (VZ 1); Next (VZ 5); Done].
Proof. vm_compute. reflexivity. Qed.

Example C01_example_same_subject_twice :
  exec (POp2 OZip (PHot 0) (PChain (PHot 0) [OSkip 1])) [(0%nat, Next (VZ 1)); (0%nat, Next (VZ 2)); (0%nat, Next (VZ 3)); (0%nat, Done); (0%nat, Done)]
  = [Next (VP (VZ 1) (VZ 2)); Next (VP (VZ 2) (VZ 3)); Done].
Proof. vm_compute. reflexivity. Qed.

Example C01_wf_rejects : wf [Next (VZ 1); Done; Next (VZ 2)] = false /\ wf [Err 1; Done] = false.
Proof. split; reflexivity. Qed.

(* the input keeps emitting after its terminal, tasks are polled late and out of order *)
Example C01_example_timed :
  TimedGrammar.delivered (run_timed (TDelay 5)
     [LSrc (Next (VZ 1)); LSrc (Next (VZ 2)); LSrc Done; LSrc (Next (VZ 3)); LRun 0; LRun 1; LRun 2; LAdv 5; LRun 1; LAdv 3; LRun 0; LRun 2; LRun 0])
  = [Next (VZ 2); Next (VZ 1); Done].
Proof. vm_compute. reflexivity. Qed.
