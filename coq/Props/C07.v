(* C07 — scheduler-moving operators preserve the source's sequence.
   delay / observe_on schedule every notification as its own one-shot task (OnceTask) with
   the configured delay (none for observe_on); delay_subscription / subscribe_on schedule one
   subscribing task.  What such a task can do under ANY order and timing of polls: *)
From RxModel Require Import Sched.
From RxSpec Require Import SchedSpec.
From RxProofs Require SchedLaws.
Open Scope N_scope.

(* never before the instant the notification was produced plus the delay *)
Theorem C07_never_early :
  forall cont ls produced_at job d,
    runs_from (produced_at + d) (trun cont produced_at (spawn (BOnce job) (Some d)) ls) = true.
Proof. intros. apply SchedLaws.never_before_delay. Qed.

(* a notification is delivered at most once *)
Theorem C07_at_most_once :
  forall cont job ls now delay,
    (ran_count (trun cont now (spawn (BOnce job) delay) ls) <= 1)%nat.
Proof. intros. apply (SchedLaws.once_at_most_once cont job). reflexivity. Qed.

(* and not at all once the subscription was unsubscribed *)
Theorem C07_not_after_unsubscribe :
  forall cont ls now job delay,
    quiet_after_cancel (trun cont now (spawn (BOnce job) delay) ls) = true.
Proof. intros. apply SchedLaws.quiet_after_cancel_or_closed. intros H. discriminate. Qed.

Check C07_never_early : forall cont ls produced_at job d,
    runs_from (produced_at + d) (trun cont produced_at (spawn (BOnce job) (Some d)) ls) = true.
Check C07_at_most_once : forall cont job ls now delay,
    (ran_count (trun cont now (spawn (BOnce job) delay) ls) <= 1)%nat.
Check C07_not_after_unsubscribe : forall cont ls now job delay,
    quiet_after_cancel (trun cont now (spawn (BOnce job) delay) ls) = true.

Print Assumptions C07_never_early.
Print Assumptions C07_at_most_once.
Print Assumptions C07_not_after_unsubscribe.

Example C07_example :
  trun (fun _ => false) 3 (spawn (BOnce 0) (Some 5)) [TPoll 0; TPoll 4; TPoll 1; TPoll 2]
  = [ORan 0 8].
Proof. vm_compute. reflexivity. Qed.
