(* C07 — scheduler-moving operators preserve the source's sequence.
   delay / observe_on schedule every notification as its own one-shot task (OnceTask) with
   the configured delay (none for observe_on); delay_subscription / subscribe_on schedule one
   subscribing task.  What such a task can do under ANY order and timing of polls: *)
From RxModel Require Import Sched Timed.
From RxSpec Require Import SchedSpec TimedSpec RelayComplete.
From RxProofs Require SchedLaws TimedLaws RelayLaws RelayCompleteLaws.
Open Scope N_scope.

(* The operators themselves, for EVERY sequence of labels (input notifications, polls of any task
   at any time and in any order, clock advances of any size, unsubscribe, is_closed queries, the
   downstream starting to report finished): every delivery made by delay / observe_on is the
   notification of the task being polled, made no earlier than its arrival plus the delay, at
   most once, never after a terminal or after unsubscribe() returned (delay forwards an error at
   once) ... *)
Theorem C07_delay :
  forall d ls, relay_ok d true ls (run_timed (TDelay d) ls) = true.
Proof. exact RelayLaws.delay_meets_spec. Qed.

Theorem C07_observe_on :
  forall ls, relay_ok 0 false ls (run_timed TObserveOn ls) = true.
Proof. exact RelayLaws.observe_on_meets_spec. Qed.

(* ... and delay_subscription / subscribe_on hand the subscriber the input's own notifications,
   none before the delay has elapsed, none after unsubscribe() returned, at most one terminal *)
Theorem C07_delay_subscription :
  forall d ls, passthru_ok d ls (run_timed (TDelaySubscription d) ls) = true.
Proof. exact RelayLaws.delay_subscription_meets_spec. Qed.

Theorem C07_subscribe_on :
  forall ls, passthru_ok 0 ls (run_timed TSubscribeOn ls) = true.
Proof. exact RelayLaws.subscribe_on_meets_spec. Qed.

(* Order: the t-th task carries the t-th relayed input notification, so whenever the executor
   runs the tasks in the order in which they were scheduled (what a FIFO executor does) the
   deliveries are a sub-sequence of the input in input order; an executor that picks ready
   tasks in another order does reorder (each notification is an independent task): see the
   Example below *)
Theorem C07_delay_order :
  forall d ls,
    (forall t e, In (t, e) (RelayLaws.deliveries ls None (run_timed (TDelay d) ls)) -> nth_error (RelayLaws.relayed true ls) t = Some e) /\
    (RelayLaws.increasing (RelayLaws.deliveries ls None (run_timed (TDelay d) ls)) ->
     RelayLaws.subseq (map snd (RelayLaws.deliveries ls None (run_timed (TDelay d) ls))) (RelayLaws.relayed true ls)).
Proof. exact RelayLaws.delay_order. Qed.

Theorem C07_observe_on_order :
  forall ls,
    (forall t e, In (t, e) (RelayLaws.deliveries ls None (run_timed TObserveOn ls)) -> nth_error (RelayLaws.relayed false ls) t = Some e) /\
    (RelayLaws.increasing (RelayLaws.deliveries ls None (run_timed TObserveOn ls)) ->
     RelayLaws.subseq (map snd (RelayLaws.deliveries ls None (run_timed TObserveOn ls))) (RelayLaws.relayed false ls)).
Proof. exact RelayLaws.observe_on_order. Qed.

(* Completeness under a FIFO executor: every task polled when it is scheduled (its timer is
   armed by that first poll) and again, in order, once the delay has elapsed: all items, in
   order, then the completion, each exactly the delay after it was produced *)
Theorem C07_delay_fifo_complete :
  forall d vs, 0 < d ->
    TimedLaws.touts (run_timed (TDelay d)
           (map (fun v => LSrc (Next v)) vs ++ LSrc Done ::
            map LRun (seq 0 (S (length vs))) ++ LAdv d :: map LRun (seq 0 (S (length vs)))))
    = map (fun v => TOut d (Next v)) vs ++ [TOut d Done].
Proof. exact RelayLaws.delay_fifo_complete. Qed.

Theorem C07_observe_on_fifo_complete :
  forall vs,
    TimedLaws.touts (run_timed TObserveOn (map (fun v => LSrc (Next v)) vs ++ LSrc Done :: map LRun (seq 0 (S (length vs)))))
    = map (fun v => TOut 0 (Next v)) vs ++ [TOut 0 Done].
Proof. exact RelayLaws.observe_on_fifo_complete. Qed.

(* Completeness under EVERY executor ("all of them when the source completes ... followed by the
   source's terminal"): the scheduler alone decides when the task of a notification is polled, and
   whenever it is polled at a moment at which it is due - there is no delay, or the timer its first
   poll created has elapsed - while the subscriber is still listening (no terminal delivered, not
   unsubscribed) and the notification has not been delivered, that very poll delivers it; an error
   that delay forwards directly is delivered by the call that brought it.  `relay_complete`
   (Spec/RelayComplete.v) walks a trace with exactly that obligation, for every sequence of labels *)
Theorem C07_delay_complete :
  forall d ls, relay_complete d true ls (run_timed (TDelay d) ls) = true.
Proof. exact RelayCompleteLaws.delay_is_complete. Qed.

Theorem C07_observe_on_complete :
  forall ls, relay_complete 0 false ls (run_timed TObserveOn ls) = true.
Proof. exact RelayCompleteLaws.observe_on_is_complete. Qed.

(* ... and delay_subscription / subscribe_on: once the subscribing task has been polled at a moment
   at which it is due, every notification of the input reaches the subscriber in the call that
   brings it, until the input terminates or unsubscribe() returns *)
Theorem C07_delay_subscription_complete :
  forall d ls, pass_complete d ls (run_timed (TDelaySubscription d) ls) = true.
Proof. exact RelayCompleteLaws.delay_subscription_is_complete. Qed.

Theorem C07_subscribe_on_complete :
  forall ls, pass_complete 0 ls (run_timed TSubscribeOn ls) = true.
Proof. exact RelayCompleteLaws.subscribe_on_is_complete. Qed.

(* the obligation is not vacuous: a run that loses the completion of an idle stream is rejected *)
Example C07_complete_rejects_a_lost_completion :
  relay_complete 0 true [LSrc Done; LRun 0] [TMark 0; TMark 1] = false /\
  relay_complete 0 true [LSrc Done; LRun 0] [TMark 0; TMark 1; TOut 0 Done] = true.
Proof. split; vm_compute; reflexivity. Qed.

(* a failing source: delay forwards the error at once and nothing follows it, whatever happens
   afterwards (the items still waiting for their delay are the lost suffix: "a prefix of them") *)
Theorem C07_delay_error_prefix :
  forall d vs e rest,
    TimedLaws.touts (run_timed (TDelay d) (map (fun v => LSrc (Next v)) vs ++ LSrc (Err e) :: rest)) = [TOut 0 (Err e)].
Proof. exact RelayLaws.delay_error_prefix. Qed.

(* What a single relayed notification's task can do under ANY order and timing of polls: *)

(* never before the instant the notification was produced plus the delay *)
Theorem C07_never_early :
  forall cont ls produced_at job d,
    runs_from (produced_at + d) (trun cont produced_at (spawn (BOnce job) (Some d)) ls) = true.
Proof. intros. apply SchedLaws.never_before_delay. Qed.

(* a notification is delivered at most once *)
Theorem C07_at_most_once :
  forall cont job ls now delay,
    (ran_count (trun cont now (spawn (BOnce job) delay) ls) <= 1)%nat.
Proof. intros. apply (SchedLaws.once_at_most_once cont job). reflexivity. Qed.

(* and not at all once the subscription was unsubscribed *)
Theorem C07_not_after_unsubscribe :
  forall cont ls now job delay,
    quiet_after_cancel (trun cont now (spawn (BOnce job) delay) ls) = true.
Proof. intros. apply SchedLaws.quiet_after_cancel_or_closed. intros H. discriminate. Qed.

Check C07_never_early : forall cont ls produced_at job d,
    runs_from (produced_at + d) (trun cont produced_at (spawn (BOnce job) (Some d)) ls) = true.
Check C07_at_most_once : forall cont job ls now delay,
    (ran_count (trun cont now (spawn (BOnce job) delay) ls) <= 1)%nat.
Check C07_not_after_unsubscribe : forall cont ls now job delay,
    quiet_after_cancel (trun cont now (spawn (BOnce job) delay) ls) = true.

Check C07_delay : forall d ls, relay_ok d true ls (run_timed (TDelay d) ls) = true.
Check C07_observe_on : forall ls, relay_ok 0 false ls (run_timed TObserveOn ls) = true.
Check C07_delay_complete : forall d ls, relay_complete d true ls (run_timed (TDelay d) ls) = true.
Check C07_observe_on_complete : forall ls, relay_complete 0 false ls (run_timed TObserveOn ls) = true.
Check C07_delay_subscription_complete : forall d ls, pass_complete d ls (run_timed (TDelaySubscription d) ls) = true.
Check C07_subscribe_on_complete : forall ls, pass_complete 0 ls (run_timed TSubscribeOn ls) = true.
Check C07_delay_subscription : forall d ls, passthru_ok d ls (run_timed (TDelaySubscription d) ls) = true.
Check C07_subscribe_on : forall ls, passthru_ok 0 ls (run_timed TSubscribeOn ls) = true.
Check C07_delay_order : forall d ls,
    (forall t e, In (t, e) (RelayLaws.deliveries ls None (run_timed (TDelay d) ls)) -> nth_error (RelayLaws.relayed true ls) t = Some e) /\
    (RelayLaws.increasing (RelayLaws.deliveries ls None (run_timed (TDelay d) ls)) ->
     RelayLaws.subseq (map snd (RelayLaws.deliveries ls None (run_timed (TDelay d) ls))) (RelayLaws.relayed true ls)).
Check C07_observe_on_order : forall ls,
    (forall t e, In (t, e) (RelayLaws.deliveries ls None (run_timed TObserveOn ls)) -> nth_error (RelayLaws.relayed false ls) t = Some e) /\
    (RelayLaws.increasing (RelayLaws.deliveries ls None (run_timed TObserveOn ls)) ->
     RelayLaws.subseq (map snd (RelayLaws.deliveries ls None (run_timed TObserveOn ls))) (RelayLaws.relayed false ls)).
Check C07_delay_fifo_complete : forall d vs, 0 < d ->
    TimedLaws.touts (run_timed (TDelay d)
           (map (fun v => LSrc (Next v)) vs ++ LSrc Done ::
            map LRun (seq 0 (S (length vs))) ++ LAdv d :: map LRun (seq 0 (S (length vs)))))
    = map (fun v => TOut d (Next v)) vs ++ [TOut d Done].
Check C07_observe_on_fifo_complete : forall vs,
    TimedLaws.touts (run_timed TObserveOn (map (fun v => LSrc (Next v)) vs ++ LSrc Done :: map LRun (seq 0 (S (length vs)))))
    = map (fun v => TOut 0 (Next v)) vs ++ [TOut 0 Done].
Check C07_delay_error_prefix : forall d vs e rest,
    TimedLaws.touts (run_timed (TDelay d) (map (fun v => LSrc (Next v)) vs ++ LSrc (Err e) :: rest)) = [TOut 0 (Err e)].

Print Assumptions C07_delay.
Print Assumptions C07_observe_on.
Print Assumptions C07_delay_complete.
Print Assumptions C07_observe_on_complete.
Print Assumptions C07_delay_subscription_complete.
Print Assumptions C07_subscribe_on_complete.
Print Assumptions C07_delay_subscription.
Print Assumptions C07_subscribe_on.
Print Assumptions C07_delay_order.
Print Assumptions C07_observe_on_order.
Print Assumptions C07_delay_fifo_complete.
Print Assumptions C07_observe_on_fifo_complete.
Print Assumptions C07_delay_error_prefix.
Print Assumptions C07_never_early.
Print Assumptions C07_at_most_once.
Print Assumptions C07_not_after_unsubscribe.

Example C07_pass_complete_rejects_a_swallowed_item :
  pass_complete 3 [LRun 0; LAdv 3; LRun 0; LSrc (Next (VZ 7))] [TMark 0; TMark 1; TMark 2; TMark 3] = false /\
  pass_complete 3 [LRun 0; LAdv 3; LRun 0; LSrc (Next (VZ 7))] [TMark 0; TMark 1; TMark 2; TMark 3; TOut 3 (Next (VZ 7))] = true.
Proof. split; vm_compute; reflexivity. Qed.

Example C07_example :
  trun (fun _ => false) 3 (spawn (BOnce 0) (Some 5)) [TPoll 0; TPoll 4; TPoll 1; TPoll 2]
  = [ORan 0 8].
Proof. vm_compute. reflexivity. Qed.

(* an executor that polls ready tasks out of order reorders the items: the hypothesis of
   C07_delay_order is needed *)
Example C07_example_unordered_polls_reorder :
  TimedLaws.touts (run_timed TObserveOn [LSrc (Next (VZ 1)); LSrc (Next (VZ 2)); LSrc (Next (VZ 3)); LRun 0; LRun 2; LRun 1])
  = [TOut 0 (Next (VZ 1)); TOut 0 (Next (VZ 3)); TOut 0 (Next (VZ 2))].
Proof. vm_compute. reflexivity. Qed.

(* the timer of a delayed notification is armed by the first poll of its task, not when it is scheduled *)
Example C07_example_unarmed :
  TimedLaws.touts (run_timed (TDelay 5) [LSrc (Next (VZ 1)); LAdv 5; LRun 0; LAdv 4; LRun 0; LAdv 1; LRun 0])
  = [TOut 10 (Next (VZ 1))].
Proof. vm_compute. reflexivity. Qed.
