(* C12 — BehaviorSubject hands every new subscriber the current value first
   (sequential histories as theorems; the concurrent clause is refuted of the lock-level model and recorded). *)
From RxModel Require Import Subject Ileave.
From RxSpec Require Import SubjectSpec BehaviorSpec IleaveSpec.
From RxProofs Require SubjectLaws BehaviorLaws IleaveInv IleaveLatest.

(* Every history of next / next_by / clone / subscribe / unsubscribe / peek / complete /
   error / ...: the implementation model (subject + value cell) yields exactly the
   deliveries and answers of the abstract "multicast set + most recent value". *)
Theorem C12_behavior_refines :
  forall (init : val) (h : list bop),
    BehaviorLaws.bsize_ok false h = true -> brun (bsubj0 init) h = abrun (asub0, init) h.
Proof. exact BehaviorLaws.behavior_refines. Qed.

Theorem C12_value_is_latest :
  forall (a : asub) (cur : val) (h : list bop),
    snd (BehaviorLaws.abfinal (a, cur) h) = latest cur h.
Proof. exact BehaviorLaws.behavior_latest. Qed.

Theorem C12_hands_latest :
  forall (a : asub) (cur : val),
    snd (abstep (a, cur) (BSub OpSubscribe)) =
      [BO (Subscribed (fresh a)); BO (Deliver (fresh a) (Next cur))] /\
    snd (abstep (a, cur) BPeek) = [BPeeked cur] /\
    forall f, snd (abstep (a, cur) (BNextBy f)) = snd (abstep (a, cur) (BSub (OpNext (f cur)))).
Proof. exact BehaviorLaws.behavior_hands_latest. Qed.

(* Concurrent producers over the thread-safe subject (lock-level model Ileave.v): the clause
   "the most recent value is the one delivered last in the common order" does NOT hold of the
   crate as it is.  next() stores the value in one critical section and broadcasts in another:
   thread 0 stores 1, thread 1 stores 2 and broadcasts 2, thread 0 broadcasts 1 - the stored
   value is 2, the value delivered last is 1.  And a subscriber that joins while another thread
   emits can be handed the value from before that emission and never receive the emission.
   (KNOWN FINDING C12-behavior-race; the same schedules are replayed on real threads.) *)
Theorem C12_concurrent_refuted :
  (exists sched, let '(tr, e, fin) := run_case 0 [IBSub 0] [[IBNext 1]; [IBNext 2]] sched in
                 e = EFinished /\ latest_ok 0 [IBSub 0] [[IBNext 1]; [IBNext 2]] tr e fin = false) /\
  (exists sched, let '(tr, e, fin) := run_case 0 [IBSub 0] [[IBNext 1]; [IBSub 1]] sched in
                 e = EFinished /\ joiner_ok 0 [IBSub 0] [[IBNext 1]; [IBSub 1]] tr e = false).
Proof.
  split.
  - exists ([0; 1; 1; 1; 1; 1; 1] ++ flat_map (fun _ => [0; 1]) (seq 0 20))%nat. vm_compute. split; reflexivity.
  - exists ([1; 1; 0; 0; 0; 0; 0; 0; 0] ++ flat_map (fun _ => [0; 1]) (seq 0 20))%nat. vm_compute. split; reflexivity.
Qed.

(* Where the crate DOES satisfy the concurrent clauses, for every schedule: with at most one thread calling
   BehaviorSubject::next (any number of other threads subscribing, unsubscribing, peeking), the stored value is the one
   delivered last in the common order ... *)
Theorem C12_latest_with_one_producer :
  forall v0 setup scripts sched,
    IleaveInv.names_ok setup scripts = true -> IleaveInv.setup_completes v0 setup = true ->
    IleaveLatest.single_producer setup scripts = true ->
    let '(tr, e, fin) := run_case v0 setup scripts sched in latest_ok v0 setup scripts tr e fin = true.
Proof. exact IleaveLatest.il_latest_single_producer. Qed.

(* ... and when all threads have returned it is the last value passed to next, in script order *)
Theorem C12_stored_value_with_one_producer :
  forall v0 setup scripts sched,
    IleaveInv.setup_completes v0 setup = true -> IleaveLatest.single_producer setup scripts = true ->
    let '(tr, e, fin) := run_case v0 setup scripts sched in
    e = EFinished -> fin = setup_value v0 (setup ++ concat scripts).
Proof. exact IleaveLatest.il_final_value_single_producer. Qed.

(* a subscriber that joins is handed the latest value and then every later item when it joins from the producer's own thread
   (other threads only subscribe, unsubscribe, peek) *)
Theorem C12_joiner_on_the_producer_thread :
  forall v0 setup scripts sched,
    IleaveInv.names_ok setup scripts = true -> IleaveInv.setup_completes v0 setup = true ->
    IleaveLatest.joiners_with_producer scripts = true ->
    let '(tr, e, fin) := run_case v0 setup scripts sched in joiner_ok v0 setup scripts tr e = true.
Proof. exact IleaveLatest.il_joiner_with_producer. Qed.

Check C12_latest_with_one_producer : forall v0 setup scripts sched,
    IleaveInv.names_ok setup scripts = true -> IleaveInv.setup_completes v0 setup = true ->
    IleaveLatest.single_producer setup scripts = true ->
    let '(tr, e, fin) := run_case v0 setup scripts sched in latest_ok v0 setup scripts tr e fin = true.
Check C12_stored_value_with_one_producer : forall v0 setup scripts sched,
    IleaveInv.setup_completes v0 setup = true -> IleaveLatest.single_producer setup scripts = true ->
    let '(tr, e, fin) := run_case v0 setup scripts sched in
    e = EFinished -> fin = setup_value v0 (setup ++ concat scripts).
Check C12_joiner_on_the_producer_thread : forall v0 setup scripts sched,
    IleaveInv.names_ok setup scripts = true -> IleaveInv.setup_completes v0 setup = true ->
    IleaveLatest.joiners_with_producer scripts = true ->
    let '(tr, e, fin) := run_case v0 setup scripts sched in joiner_ok v0 setup scripts tr e = true.
Print Assumptions C12_latest_with_one_producer.
Print Assumptions C12_stored_value_with_one_producer.
Print Assumptions C12_joiner_on_the_producer_thread.

(* a schedule without that overlap satisfies both clauses: the predicates are not vacuous *)
Example C12_concurrent_serial_ok :
  let '(tr, e, fin) := run_case 0 [IBSub 0] [[IBNext 1]; [IBNext 2]] (repeat 0 10 ++ repeat 1 10)%nat in
  e = EFinished /\ latest_ok 0 [IBSub 0] [[IBNext 1]; [IBNext 2]] tr e fin = true /\ fin = 2%Z.
Proof. vm_compute. repeat split; reflexivity. Qed.

Check C12_concurrent_refuted :
  (exists sched, let '(tr, e, fin) := run_case 0 [IBSub 0] [[IBNext 1]; [IBNext 2]] sched in
                 e = EFinished /\ latest_ok 0 [IBSub 0] [[IBNext 1]; [IBNext 2]] tr e fin = false) /\
  (exists sched, let '(tr, e, fin) := run_case 0 [IBSub 0] [[IBNext 1]; [IBSub 1]] sched in
                 e = EFinished /\ joiner_ok 0 [IBSub 0] [[IBNext 1]; [IBSub 1]] tr e = false).
Print Assumptions C12_concurrent_refuted.
Check C12_behavior_refines : forall init h,
  BehaviorLaws.bsize_ok false h = true -> brun (bsubj0 init) h = abrun (asub0, init) h.
Check C12_value_is_latest : forall a cur h, snd (BehaviorLaws.abfinal (a, cur) h) = latest cur h.
Check C12_hands_latest : forall a cur,
    snd (abstep (a, cur) (BSub OpSubscribe)) =
      [BO (Subscribed (fresh a)); BO (Deliver (fresh a) (Next cur))] /\
    snd (abstep (a, cur) BPeek) = [BPeeked cur] /\
    forall f, snd (abstep (a, cur) (BNextBy f)) = snd (abstep (a, cur) (BSub (OpNext (f cur)))).

Print Assumptions C12_behavior_refines.
Print Assumptions C12_value_is_latest.
Print Assumptions C12_hands_latest.

Example C12_example :
  brun (bsubj0 (VZ 0))
       [BSub OpSubscribe; BSub (OpNext (VZ 5)); BNextBy (fun v => match v with VZ z => VZ (z + 1) | _ => v end);
        BSub OpSubscribe; BPeek; BSub OpComplete; BSub (OpNext (VZ 9)); BSub OpSubscribe; BPeek]
  = [BO (Subscribed 0); BO (Deliver 0 (Next (VZ 0))); BO (Deliver 0 (Next (VZ 5))); BO (Deliver 0 (Next (VZ 6)));
     BO (Subscribed 1); BO (Deliver 1 (Next (VZ 6))); BPeeked (VZ 6);
     BO (Deliver 0 Done); BO (Deliver 1 Done); BO (Subscribed 2); BO (Deliver 2 (Next (VZ 9))); BPeeked (VZ 9)].
Proof. vm_compute. reflexivity. Qed.
