(* C12 — BehaviorSubject hands every new subscriber the current value first
   (sequential histories; the concurrent statement is decided with C10's machinery). *)
From RxModel Require Import Subject.
From RxSpec Require Import SubjectSpec BehaviorSpec.
From RxProofs Require SubjectLaws BehaviorLaws.

(* Every history of next / next_by / clone / subscribe / unsubscribe / peek / complete /
   error / ...: the implementation model (subject + value cell) yields exactly the
   deliveries and answers of the abstract "multicast set + most recent value". *)
Theorem C12_behavior_refines :
  forall (init : val) (h : list bop),
    BehaviorLaws.bsize_ok false h = true -> brun (bsubj0 init) h = abrun (asub0, init) h.
Proof. exact BehaviorLaws.behavior_refines. Qed.

Theorem C12_value_is_latest :
  forall (a : asub) (cur : val) (h : list bop),
    snd (BehaviorLaws.abfinal (a, cur) h) = latest cur h.
Proof. exact BehaviorLaws.behavior_latest. Qed.

Theorem C12_hands_latest :
  forall (a : asub) (cur : val),
    snd (abstep (a, cur) (BSub OpSubscribe)) =
      [BO (Subscribed (fresh a)); BO (Deliver (fresh a) (Next cur))] /\
    snd (abstep (a, cur) BPeek) = [BPeeked cur] /\
    forall f, snd (abstep (a, cur) (BNextBy f)) = snd (abstep (a, cur) (BSub (OpNext (f cur)))).
Proof. exact BehaviorLaws.behavior_hands_latest. Qed.

Check C12_behavior_refines : forall init h,
  BehaviorLaws.bsize_ok false h = true -> brun (bsubj0 init) h = abrun (asub0, init) h.
Check C12_value_is_latest : forall a cur h, snd (BehaviorLaws.abfinal (a, cur) h) = latest cur h.
Check C12_hands_latest : forall a cur,
    snd (abstep (a, cur) (BSub OpSubscribe)) =
      [BO (Subscribed (fresh a)); BO (Deliver (fresh a) (Next cur))] /\
    snd (abstep (a, cur) BPeek) = [BPeeked cur] /\
    forall f, snd (abstep (a, cur) (BNextBy f)) = snd (abstep (a, cur) (BSub (OpNext (f cur)))).

Print Assumptions C12_behavior_refines.
Print Assumptions C12_value_is_latest.
Print Assumptions C12_hands_latest.

Example C12_example :
  brun (bsubj0 (VZ 0))
       [BSub OpSubscribe; BSub (OpNext (VZ 5)); BNextBy (fun v => match v with VZ z => VZ (z + 1) | _ => v end);
        BSub OpSubscribe; BPeek; BSub OpComplete; BSub (OpNext (VZ 9)); BSub OpSubscribe; BPeek]
  = [BO (Subscribed 0); BO (Deliver 0 (Next (VZ 0))); BO (Deliver 0 (Next (VZ 5))); BO (Deliver 0 (Next (VZ 6)));
     BO (Subscribed 1); BO (Deliver 1 (Next (VZ 6))); BPeeked (VZ 6);
     BO (Deliver 0 Done); BO (Deliver 1 Done); BO (Subscribed 2); BO (Deliver 2 (Next (VZ 9))); BPeeked (VZ 9)].
Proof. vm_compute. reflexivity. Qed.
