(* C08 — time and async sources emit exactly what and when they promise. *)
From RxModel Require Import Timed Async.
From RxSpec Require Import TimedSpec RelayComplete.
From RxProofs Require TimedLaws AsyncLaws IntervalAtLaws RelayCompleteLaws.
Open Scope N_scope.

(* For EVERY sequence of labels (polls of any task at any time, clock advances of any size,
   unsubscribe, downstream starting to report finished, ...): interval emits the consecutive
   integers 0,1,2,..., the first not before one period after subscription, each later one not
   before one period after the previous one, only from its own task, never after unsubscribe. *)
Theorem C08_interval :
  forall p ls, interval_ok p p ls (run_timed (TInterval p) ls) = true.
Proof. exact TimedLaws.interval_meets_spec. Qed.

(* interval_at: the same, the first one not before the given instant (offset dl from subscription) *)
Theorem C08_interval_at :
  forall dl p ls, interval_ok dl p ls (run_timed (TIntervalAt dl p) ls) = true.
Proof. exact TimedLaws.interval_at_meets_spec. Qed.

(* whenever the executor runs as the timer falls due the ticks are exactly one period apart *)
Theorem C08_interval_prompt :
  forall p n, 0 < p ->
    TimedLaws.touts (run_timed (TInterval p) (TimedLaws.prompt_rounds p n)) = TimedLaws.expected_ticks p 0 0 n.
Proof. exact TimedLaws.interval_prompt. Qed.

(* interval_at under such an executor: the first tick at the given instant - at the first poll when
   the instant has been reached already (offset 0) - and each later one exactly one period later *)
Theorem C08_interval_at_prompt :
  forall dl p n, 0 < dl -> 0 < p ->
    TimedLaws.touts (run_timed (TIntervalAt dl p) (LRun 0 :: LAdv dl :: LRun 0 :: TimedLaws.prompt_rounds p n))
    = TOut dl (Next (VZ 0)) :: TimedLaws.expected_ticks p 1 dl n.
Proof. exact IntervalAtLaws.interval_at_prompt. Qed.

Theorem C08_interval_at_prompt_now :
  forall p n, 0 < p ->
    TimedLaws.touts (run_timed (TIntervalAt 0 p) (LRun 0 :: TimedLaws.prompt_rounds p n))
    = TOut 0 (Next (VZ 0)) :: TimedLaws.expected_ticks p 1 0 n.
Proof. exact IntervalAtLaws.interval_at_prompt_now. Qed.

(* the exact observation the oracle expects of the implementation on these label sequences
   (Spec/TimedSpec.prompt_case, marks included) is the model's *)
Theorem C08_prompt_case_exact :
  forall o n ls out, prompt_case o n = Some (ls, out) ->
    match o with TInterval p | TIntervalAt _ p => 0 < p | _ => True end ->
    run_timed o ls = out.
Proof. exact IntervalAtLaws.prompt_case_exact. Qed.

(* timer: its item once, not before the due time, then completion; nothing after unsubscribe *)
Theorem C08_timer :
  forall v d ls, timer_ok v d ls (run_timed (TTimer v d) ls) = true.
Proof. exact TimedLaws.timer_meets_spec. Qed.

(* ... and it does emit: whenever its task is polled at a moment at which it is due (the timer its
   first poll created has elapsed, or the delay is zero) before unsubscribe() returned, that very
   poll delivers the item and the completion - for every sequence of labels *)
Theorem C08_timer_complete :
  forall v d ls, timer_complete d ls (run_timed (TTimer v d) ls) = true.
Proof. exact RelayCompleteLaws.timer_is_complete. Qed.

Example C08_timer_complete_rejects_a_lost_completion :
  timer_complete 2 [LRun 0; LAdv 2; LRun 0] [TMark 0; TMark 1; TMark 2; TOut 2 (Next (VZ 9))] = false.
Proof. vm_compute. reflexivity. Qed.

(* from_future / from_stream (and the _result forms): whatever the number of polls, what has
   been delivered is a prefix of what the future / stream yields ... *)
Theorem C08_async_prefix :
  forall k n s, a_keep s = true -> a_finished s = false ->
    exists rest, yields k (a_script s) = AsyncLaws.outs (arun' k s (repeat APoll n)) ++ rest.
Proof. exact AsyncLaws.async_prefix. Qed.

(* ... all of it, ending with the terminal, once the stream has been polled often enough ... *)
Theorem C08_async_complete :
  forall k, (k = AStream \/ k = AStreamResult) ->
    forall n script, (pendings script < n)%nat ->
      AsyncLaws.outs (arun' k {| a_script := script; a_finished := false; a_keep := true; a_value := false |} (repeat APoll n))
      = yields k script.
Proof. exact AsyncLaws.async_complete_gen. Qed.

(* ... likewise a future: its value and the completion (or its error) once it has been polled more often than it answers
   "not ready" ... *)
Theorem C08_future_complete :
  forall k, (k = AFuture \/ k = AFutureResult) ->
    forall n script, (AsyncLaws.waits k script < n)%nat ->
      AsyncLaws.outs (arun' k {| a_script := script; a_finished := false; a_keep := true; a_value := false |} (repeat APoll n))
      = yields k script.
Proof. exact AsyncLaws.future_complete. Qed.

(* ... and nothing after unsubscribe() *)
Theorem C08_async_silent_after_unsub :
  forall k ls s, a_keep s = false -> AsyncLaws.outs (arun' k s ls) = [].
Proof. exact AsyncLaws.async_silent_after_unsub. Qed.

Check C08_interval : forall p ls, interval_ok p p ls (run_timed (TInterval p) ls) = true.
Check C08_interval_at : forall dl p ls, interval_ok dl p ls (run_timed (TIntervalAt dl p) ls) = true.
Check C08_interval_prompt : forall p n, 0 < p ->
    TimedLaws.touts (run_timed (TInterval p) (TimedLaws.prompt_rounds p n)) = TimedLaws.expected_ticks p 0 0 n.
Check C08_interval_at_prompt : forall dl p n, 0 < dl -> 0 < p ->
    TimedLaws.touts (run_timed (TIntervalAt dl p) (LRun 0 :: LAdv dl :: LRun 0 :: TimedLaws.prompt_rounds p n))
    = TOut dl (Next (VZ 0)) :: TimedLaws.expected_ticks p 1 dl n.
Check C08_interval_at_prompt_now : forall p n, 0 < p ->
    TimedLaws.touts (run_timed (TIntervalAt 0 p) (LRun 0 :: TimedLaws.prompt_rounds p n))
    = TOut 0 (Next (VZ 0)) :: TimedLaws.expected_ticks p 1 0 n.
Check C08_prompt_case_exact : forall o n ls out, prompt_case o n = Some (ls, out) ->
    match o with TInterval p | TIntervalAt _ p => 0 < p | _ => True end -> run_timed o ls = out.
Check C08_timer : forall v d ls, timer_ok v d ls (run_timed (TTimer v d) ls) = true.
Check C08_timer_complete : forall v d ls, timer_complete d ls (run_timed (TTimer v d) ls) = true.
Check C08_async_prefix : forall k n s, a_keep s = true -> a_finished s = false ->
    exists rest, yields k (a_script s) = AsyncLaws.outs (arun' k s (repeat APoll n)) ++ rest.
Check C08_async_complete : forall k, (k = AStream \/ k = AStreamResult) ->
    forall n script, (pendings script < n)%nat ->
      AsyncLaws.outs (arun' k {| a_script := script; a_finished := false; a_keep := true; a_value := false |} (repeat APoll n))
      = yields k script.
Check C08_future_complete : forall k, (k = AFuture \/ k = AFutureResult) ->
    forall n script, (AsyncLaws.waits k script < n)%nat ->
      AsyncLaws.outs (arun' k {| a_script := script; a_finished := false; a_keep := true; a_value := false |} (repeat APoll n))
      = yields k script.
Check C08_async_silent_after_unsub : forall k ls s, a_keep s = false -> AsyncLaws.outs (arun' k s ls) = [].

Print Assumptions C08_interval.
Print Assumptions C08_interval_at.
Print Assumptions C08_interval_prompt.
Print Assumptions C08_interval_at_prompt.
Print Assumptions C08_interval_at_prompt_now.
Print Assumptions C08_prompt_case_exact.
Print Assumptions C08_timer.
Print Assumptions C08_timer_complete.
Print Assumptions C08_async_prefix.
Print Assumptions C08_async_complete.
Print Assumptions C08_future_complete.
Print Assumptions C08_async_silent_after_unsub.

Example C08_example_interval_late_run :
  run_timed (TInterval 5) [LRun 0; LAdv 5; LRun 0; LAdv 12; LRun 0; LRun 0; LAdv 5; LRun 0]
  = [TMark 0; TMark 1; TMark 2; TOut 5 (Next (VZ 0)); TMark 3; TMark 4; TOut 17 (Next (VZ 1)); TMark 5; TMark 6; TMark 7;
     TOut 22 (Next (VZ 2))].
Proof. vm_compute. reflexivity. Qed.

Example C08_example_interval_at :
  run_timed (TIntervalAt 3 10) [LRun 0; LAdv 3; LRun 0; LAdv 10; LRun 0]
  = [TMark 0; TMark 1; TMark 2; TOut 3 (Next (VZ 0)); TMark 3; TMark 4; TOut 13 (Next (VZ 1))].
Proof. vm_compute. reflexivity. Qed.

Example C08_example_future :
  AsyncLaws.outs (run_async AFutureResult [PPending; PPending; PItem (VZ 7)] [APoll; APoll; APoll; APoll]) = [Next (VZ 7); Done] /\
  AsyncLaws.outs (run_async AFutureResult [PPending; PFail 3] [APoll; APoll; APoll]) = [Err 3].
Proof. vm_compute. split; reflexivity. Qed.
