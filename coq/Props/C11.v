(* C11 — publish/connect and share subscribe the source once and multicast. *)
From RxModel Require Import Share.
From RxProofs Require ShareLaws.
Local Open Scope nat_scope.

(* every history of subscribe / unsubscribe / source calls / connect / is_closed, any number of
   subscribers, hot or cold source, share or publish, the code as it is or as it should be: *)

(* the source is subscribed at most once *)
Theorem C11_source_subscribed_at_most_once :
  forall (ideal : bool) (m : shmode) (src : shsrc) (h : list shop) (s : shst),
    ShareLaws.count_sub (shrun ideal m src s h) <= (if sh_connected s then 0 else 1).
Proof. exact ShareLaws.source_subscribed_at_most_once. Qed.

(* nothing is subscribed, driven or delivered before connect() (publish) / the first subscriber (share) *)
Theorem C11_nothing_before_connection :
  forall (ideal : bool) (m : shmode) (src : shsrc) (h : list shop) (s : shst),
    sh_connected s = false -> forallb (ShareLaws.quiet_op m) h = true -> ShareLaws.flows (shrun ideal m src s h) = [].
Proof. exact ShareLaws.nothing_before_connection. Qed.

(* every subscriber present at an emission receives it, in the order they joined *)
Theorem C11_multicast :
  forall (s : shst) (v : val), sh_connected s = true -> sh_src_live s = true ->
    snd (src_event s (Next v)) = STap v :: map (fun i => SDeliver i (Next v)) (ShareLaws.present (sh_subj s)).
Proof. exact ShareLaws.multicast. Qed.

(* once the last subscriber has left nothing flows any more — for the machine that lets go of its
   source at that moment ... *)
Theorem C11_released_after_last_leaver :
  forall (src : shsrc) (s : shst) (i : nat) (h : list shop),
    sh_connected s = true ->
    all_left (fst (shstep true MShare src s (ShUnsub i))) = true ->
    (Nat.ltb i (next_id (sh_subj s)) && negb (memn i (sh_left s))) = true ->
    ShareLaws.flows (shrun true MShare src (fst (shstep true MShare src s (ShUnsub i))) h) = [].
Proof. exact ShareLaws.ideal_releases_after_last_leaver. Qed.

(* ... which the code as it is is not (recorded finding C11-still-driven): RefCountSubscription asks the
   inner subject whether it is empty while the slots of the subscribers that have left are still in its
   vectors, and the subscription returned by connect() is dropped *)
Theorem C11_still_driven_refuted :
  exists h, ShareLaws.flows (run_share false MShare ShHot h) <> ShareLaws.flows (run_share true MShare ShHot h).
Proof. exact ShareLaws.still_driven_after_last_leaver. Qed.

Check C11_source_subscribed_at_most_once : forall ideal m src h s,
    ShareLaws.count_sub (shrun ideal m src s h) <= (if sh_connected s then 0 else 1).
Check C11_nothing_before_connection : forall ideal m src h s,
    sh_connected s = false -> forallb (ShareLaws.quiet_op m) h = true -> ShareLaws.flows (shrun ideal m src s h) = [].
Check C11_multicast : forall s v, sh_connected s = true -> sh_src_live s = true ->
    snd (src_event s (Next v)) = STap v :: map (fun i => SDeliver i (Next v)) (ShareLaws.present (sh_subj s)).
Check C11_released_after_last_leaver : forall src s i h,
    sh_connected s = true ->
    all_left (fst (shstep true MShare src s (ShUnsub i))) = true ->
    (Nat.ltb i (next_id (sh_subj s)) && negb (memn i (sh_left s))) = true ->
    ShareLaws.flows (shrun true MShare src (fst (shstep true MShare src s (ShUnsub i))) h) = [].
Check C11_still_driven_refuted :
  exists h, ShareLaws.flows (run_share false MShare ShHot h) <> ShareLaws.flows (run_share true MShare ShHot h).

Print Assumptions C11_source_subscribed_at_most_once.
Print Assumptions C11_nothing_before_connection.
Print Assumptions C11_multicast.
Print Assumptions C11_released_after_last_leaver.
Print Assumptions C11_still_driven_refuted.

Example C11_example_share :
  run_share false MShare ShHot [ShSub; ShSrc (Next (VZ 1)); ShSub; ShSrc (Next (VZ 2)); ShUnsub 0; ShSrc (Next (VZ 3)); ShSrc Done; ShSrc (Next (VZ 4))]
  = [SSub; SMark; STap (VZ 1); SDeliver 0 (Next (VZ 1)); SMark; SMark; STap (VZ 2); SDeliver 0 (Next (VZ 2)); SDeliver 1 (Next (VZ 2)); SMark;
     SMark; STap (VZ 3); SDeliver 1 (Next (VZ 3)); SMark; SDeliver 1 Done; SMark; SMark].
Proof. vm_compute. reflexivity. Qed.

Example C11_example_publish :
  run_share false MPublish (ShCold [Next (VZ 1); Done]) [ShSub; ShSub; ShConnect; ShSub]
  = [SMark; SMark; SSub; STap (VZ 1); SDeliver 0 (Next (VZ 1)); SDeliver 1 (Next (VZ 1)); SDeliver 0 Done; SDeliver 1 Done; SMark; SMark].
Proof. vm_compute. reflexivity. Qed.
