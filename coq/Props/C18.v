(* C18 — local and thread-safe variants are observationally equivalent (single-threaded histories). *)
From Coq Require Import String.
From RxModel Require Import Forms.
From RxGen Require FormsTable.
From RxProofs Require FormsLaws.
Local Open Scope nat_scope.
Open Scope string_scope.

(* ---- one macro body, two cell types: in one thread the subscriber sees the same notifications,
   and both forms finish or both fail (the local form by a panic, the thread-safe one by never
   returning) ---- *)
Theorem C18_same_notifications :
  forall (p : list cop) (held : list nat) (seen : list ev),
    trace_of (run_cells RefCellKind held p seen) = trace_of (run_cells MutexKind held p seen) /\
    finished (run_cells RefCellKind held p seen) = finished (run_cells MutexKind held p seen).
Proof. exact FormsLaws.cells_same_trace. Qed.

Theorem C18_same_outcome_when_finished :
  forall (p : list cop) (held : list nat) (seen : list ev),
    finished (run_cells RefCellKind held p seen) = true ->
    run_cells RefCellKind held p seen = run_cells MutexKind held p seen.
Proof. exact FormsLaws.cells_agree_when_finished. Qed.

(* ---- tie to the source (tables regenerated on every run): the operators that exist in both forms
   are instantiations of one macro body ... ---- *)
Definition required_macros : list string :=
  ["ops/merge.rs:impl_merge_op"; "ops/zip.rs:impl_zip_op"; "ops/combine_latest.rs:impl_combine_latest_op";
   "ops/with_latest_from.rs:impl_with_last_from_op"; "ops/take_until.rs:impl_take_until"; "ops/skip_until.rs:impl_skip_until_op";
   "ops/skip_until.rs:impl_observer"; "ops/sample.rs:impl_sample_op"; "ops/delay.rs:impl_delay_op"; "ops/observe_on.rs:impl_observer_on_op";
   "ops/finalize.rs:impl_finalize_op"; "ops/merge_all.rs:impl_outside_observer"; "ops/merge_all.rs:impl_inner_observer";
   "ops/ref_count.rs:impl_trivial"; "subject.rs:impl_subject_trivial"; "subscriber.rs:impl_subscriber";
   "subscription.rs:impl_multi_subscription"; "ops/box_it.rs:impl_observable_for_box"; "observer.rs:impl_rc_observer";
   "observer.rs:impl_observer_for_boxed"].

Definition has_pair (m : string) : bool := existsb (fun r => String.eqb (fst (fst r)) m) FormsTable.shared_body.

Theorem C18_both_forms_share_one_body : forallb has_pair required_macros = true.
Proof. vm_compute. reflexivity. Qed.

(* ... and the thread-safe types that are written separately are the reviewed ones (plain type
   aliases and one data struct); they are covered by the direct comparison only *)
Definition reviewed : list string :=
  ["ops.rs:FlatMapOpThreads"; "ops/merge_all.rs:ObserverDataThreads"; "subject.rs:PublisherVecThreads"].

Theorem C18_written_twice_is_reviewed :
  forallb (fun t => existsb (String.eqb t) reviewed) FormsTable.written_twice = true.
Proof. vm_compute. reflexivity. Qed.

Check C18_same_notifications : forall p held seen,
    trace_of (run_cells RefCellKind held p seen) = trace_of (run_cells MutexKind held p seen) /\
    finished (run_cells RefCellKind held p seen) = finished (run_cells MutexKind held p seen).
Check C18_same_outcome_when_finished : forall p held seen,
    finished (run_cells RefCellKind held p seen) = true ->
    run_cells RefCellKind held p seen = run_cells MutexKind held p seen.
Check C18_both_forms_share_one_body : forallb has_pair required_macros = true.
Check C18_written_twice_is_reviewed : forallb (fun t => existsb (String.eqb t) reviewed) FormsTable.written_twice = true.

Print Assumptions C18_same_notifications.
Print Assumptions C18_same_outcome_when_finished.
Print Assumptions C18_both_forms_share_one_body.
Print Assumptions C18_written_twice_is_reviewed.

Example C18_example_reentry :
  run_cells RefCellKind [] [CAcquire 0; CEmit (Next (VZ 1)); CAcquire 0; CEmit Done] [] = Panicked [Next (VZ 1)] /\
  run_cells MutexKind [] [CAcquire 0; CEmit (Next (VZ 1)); CAcquire 0; CEmit Done] [] = Hung [Next (VZ 1)].
Proof. split; reflexivity. Qed.
