(* C15, tie to the source by translation: the method bodies of finalize's observer and subscription, parsed from
   /repo/src on this run (Gen/Bodies.v, translator T5) and run by the evaluator of Model/RustSem.v, are the steps of the
   machine of Model/Finalize.v about which the C15 theorems are proved.  The callback and the upstream subscription are
   values whose call leaves a mark in the output, so the theorems fix WHERE the callback runs.  This file holds only the
   property theorems, each closed by `exact`. *)
From RxModel Require Import BodyAbsFin.
From RxGen Require Import Bodies.
From RxProofs Require BodyTieFin.

(* next is forwarded; error / complete are forwarded FIRST and then the callback is taken out of its cell and run,
   if it is still there - for every state and every notification *)
Theorem C15_source_observer : fin_observer_agrees bodies.
Proof. exact BodyTieFin.fin_observer_ok. Qed.

(* unsubscribe(): the upstream subscription FIRST, then the callback, if it is still there *)
Theorem C15_source_unsubscribe : fin_unsubscribe_agrees bodies.
Proof. exact BodyTieFin.fin_unsubscribe_ok. Qed.

Check C15_source_observer : fin_observer_agrees bodies.
Check C15_source_unsubscribe : fin_unsubscribe_agrees bodies.
Print Assumptions C15_source_observer.
Print Assumptions C15_source_unsubscribe.

(* Non-vacuity: complete() on the translated observer with the callback still in its cell: Done, then the mark;
   a second terminal path (unsubscribe afterwards) finds the cell empty. *)
Example C15_example_source_complete :
  fin_call bodies "FinalizerObserver" "complete" (fin_observer zstate0 (Err 99)) []
  = Some (VStruct "FinalizerObserver" [("observer", VObs); ("func", VOptItem None)], [Done; Err 99]).
Proof. vm_compute. reflexivity. Qed.

Example C15_example_source_unsubscribe_after :
  fin_call bodies "FinalizerSubscription" "unsubscribe"
    (VStruct "FinalizerSubscription" [("subscription", VMark (Err 1)); ("func", VOptItem None)]) []
  = Some (VStruct "FinalizerSubscription" [("subscription", VMark (Err 1)); ("func", VOptItem None)], [Err 1]).
Proof. vm_compute. reflexivity. Qed.
