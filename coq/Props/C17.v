(* C17 — is_closed() is sound and composites tear down late additions. *)
From RxModel Require Import Timed Subscr.
From RxProofs Require TimedLaws SubscrLaws.

(* Scheduler-using operators and time sources (the subscriptions built from task handles, pairs
   and the MultiSubscription): in EVERY reachable state, if is_closed() answers true then, whatever
   label sequence follows, the subscriber is never called again. *)
Theorem C17_closed_sound :
  forall o ls1 ls2 j, TimedLaws.not_raw o ->
    sub_closed o (TimedLaws.tfinal o (tinit o) ls1) = true ->
    TimedLaws.no_tout (trun_sys o (TimedLaws.tfinal o (tinit o) ls1) j ls2).
Proof. exact TimedLaws.closed_sound. Qed.

(* The subscription algebra (unit, leaves, pairs, the shared composite) under EVERY history of
   append / unsubscribe / is_closed / leaf termination: *)

(* a subscription appended to a composite that has already been unsubscribed is unsubscribed at once:
   in every reachable state whose composite has been unsubscribed every leaf ever appended is dead *)
Theorem C17_late_additions :
  forall h, let s := cfinal cstate0 h in
    multi_cell s = None -> forall k, In k (appended s) -> leaf_alive s k = false.
Proof. exact SubscrLaws.late_additions_torn_down. Qed.

(* is_closed() = true implies every leaf the subscription holds is dead *)
Theorem C17_algebra_closed_sound :
  forall t s, SubscrLaws.Winv s -> closed_t s t = true -> forall k, In k (under s t) -> leaf_alive s k = false.
Proof. exact SubscrLaws.closed_sound_alg. Qed.

Theorem C17_reachable_winv : forall h, SubscrLaws.Winv (cfinal cstate0 h).
Proof. intros h. apply SubscrLaws.reach_winv, SubscrLaws.winv0. Qed.

(* closed stays closed under every operation except an append to a composite that was never
   unsubscribed ... *)
Theorem C17_closed_stable :
  forall t s op, closed_t s t = true -> (forall k, op = CAppend k -> multi_cell s = None) ->
    closed_t (fst (cstep s op)) t = true.
Proof. exact SubscrLaws.closed_stable. Qed.

(* ... for which the full statement is refuted by the faithful model (recorded as a known finding):
   an empty composite reports closed and is re-opened by an append *)
Theorem C17_monotone_refuted :
  exists h, crun cstate0 h = [CRet true; CRet false].
Proof. exact SubscrLaws.closed_reopened_by_append. Qed.

Check C17_closed_sound : forall o ls1 ls2 j, TimedLaws.not_raw o ->
    sub_closed o (TimedLaws.tfinal o (tinit o) ls1) = true ->
    TimedLaws.no_tout (trun_sys o (TimedLaws.tfinal o (tinit o) ls1) j ls2).
Check C17_late_additions : forall h, let s := cfinal cstate0 h in
    multi_cell s = None -> forall k, In k (appended s) -> leaf_alive s k = false.
Check C17_algebra_closed_sound : forall t s, SubscrLaws.Winv s -> closed_t s t = true ->
    forall k, In k (under s t) -> leaf_alive s k = false.
Check C17_reachable_winv : forall h, SubscrLaws.Winv (cfinal cstate0 h).
Check C17_closed_stable : forall t s op, closed_t s t = true -> (forall k, op = CAppend k -> multi_cell s = None) ->
    closed_t (fst (cstep s op)) t = true.
Check C17_monotone_refuted : exists h, crun cstate0 h = [CRet true; CRet false].

Print Assumptions C17_closed_sound.
Print Assumptions C17_late_additions.
Print Assumptions C17_algebra_closed_sound.
Print Assumptions C17_reachable_winv.
Print Assumptions C17_closed_stable.
Print Assumptions C17_monotone_refuted.

Example C17_example_late_addition :
  crun cstate0 [CAppend 0; CUnsub SMultiT; CAppend 1; CClosed (SLeafT 1); CClosed (SZipT SMultiT (SLeafT 2))]
  = [CKilled 0; CKilled 1; CRet true; CRet false].
Proof. vm_compute. reflexivity. Qed.

Example C17_example_debounce_not_closed_before_first_item :
  run_timed (TDebounce 5) [LClosed; LSrc (Next (VZ 1)); LClosed]
  = [TMark 0; TRet false; TMark 1; TMark 2; TRet false].
Proof. vm_compute. reflexivity. Qed.
