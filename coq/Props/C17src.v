(* C17 (and the composite used by C02 / C05 / C07 / C10), tie to the source by translation: MultiSubscription /
   MultiSubscriptionThreads (one macro body in subscription.rs), as parsed from /repo/src on this run (Gen/Bodies.v,
   translator T5) and run by the evaluator of Model/RustSem.v - with its iterator closures (for_each, all, retain) run
   element by element - is the composite machine: unsubscribe() empties the cell and unsubscribes the members in order,
   is_closed() is "gone, or every member closed", append() after unsubscribe() tears the addition down at once, retain()
   drops the vacated places.  The vector is of unknown length; the theorem is for composites of up to THREE members
   (every shape: vacated places, closed and open members).  This file holds only the property theorems, each closed by
   `exact`. *)
From RxModel Require Import BodyAbsMulti.
From RxGen Require Import Bodies.
From RxProofs Require BodyTieMulti.

Theorem C17_source_composite_partial : multi_agrees_upto bodies 3.
Proof. exact BodyTieMulti.multi_ok. Qed.

(* of the machine: a late addition is unsubscribed at once; an unsubscribed composite says closed *)
Theorem C17_machine_late_addition : forall c k, mstep None (MAppend (c, k)) = (None, [mark k], VUnit).
Proof. exact BodyTieMulti.late_addition_torn_down. Qed.

Theorem C17_machine_unsubscribed_is_closed : forall s, snd (mstep (fst (fst (mstep s MUnsubscribe))) MIsClosed) = VBool true.
Proof. exact BodyTieMulti.unsubscribed_is_closed. Qed.

Check C17_source_composite_partial : multi_agrees_upto bodies 3.
Check C17_machine_late_addition : forall c k, mstep None (MAppend (c, k)) = (None, [mark k], VUnit).
Check C17_machine_unsubscribed_is_closed : forall s, snd (mstep (fst (fst (mstep s MUnsubscribe))) MIsClosed) = VBool true.
Print Assumptions C17_source_composite_partial.
Print Assumptions C17_machine_late_addition.
Print Assumptions C17_machine_unsubscribed_is_closed.

Example C17_example_source_late_append :
  call_method bodies "subscription.rs" FUEL "MultiSubscription" "append" (multi None) [boxed (false, 7%nat)]
  = Some (multi None, [mark 7], VUnit).
Proof. vm_compute. reflexivity. Qed.
