(* C01, tie to the source by translation for the subscriber built from closures, `.on_error(f).on_complete(g).subscribe(h)`:
   the three observers (ops/on_error.rs, ops/on_complete.rs, observable/subscribe_item.rs) as parsed from /repo/src on
   this run (Gen/Bodies.v, translator T5) and run by the evaluator of Model/RustSem.v hand each notification to exactly
   the closure it is meant for - nothing else is called - so that what the closures see is Pipe.idiom_log of what the
   pipeline delivers, about which C01_closure_idiom / C01_closure_idiom_grammar are proved.  This file holds only the
   property theorems, each closed by `exact`. *)
From RxModel Require Import BodyAbsIdiom.
From RxGen Require Import Bodies.
From RxProofs Require BodyTieIdiom.

(* one call: next(v) calls h(v), error(e) calls f(e) and nothing else (the error is consumed), complete() calls g() *)
Theorem C01_source_idiom_call : idiom_call_agrees bodies.
Proof. exact BodyTieIdiom.idiom_call_ok. Qed.

(* any call sequence: the closures are called with idiom_log of it *)
Theorem C01_source_idiom_run : forall t : list ev, idiom_run bodies idiom_observer t = Some (idiom_log true t).
Proof. exact BodyTieIdiom.idiom_run_ok. Qed.

Check C01_source_idiom_call : idiom_call_agrees bodies.
Check C01_source_idiom_run : forall t, idiom_run bodies idiom_observer t = Some (idiom_log true t).
Print Assumptions C01_source_idiom_call.
Print Assumptions C01_source_idiom_run.

Example C01_example_source_idiom :
  idiom_run bodies idiom_observer [Next (VZ 1); Next (VZ 2); Err 7; Next (VZ 3); Done] = Some [Next (VZ 1); Next (VZ 2); Err 7].
Proof. vm_compute. reflexivity. Qed.
