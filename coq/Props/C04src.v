(* C04, tie to the source by translation, for all eight two-input operators: the method bodies of the observers handed to
   the two inputs - impl blocks inside the macros that produce the local and the thread-safe form included - parsed from
   /repo/src on this run (Gen/Bodies.v, translator T5) and run by the evaluator of Model/RustSem.v compute exactly what the
   machines of Model/Ops2.v compute.  The shared cell (MutRc / MutArc) is modelled as its content: both observers hold the
   same content.  This file holds only the property theorems, each closed by `exact`. *)
From RxModel Require Import BodyAbs2.
From RxGen Require Import Bodies.
From RxProofs Require BodyTie2.

(* One call (next, error or complete) on the observer of either input, in any shared state: the content of the cell
   afterwards and the notifications sent on are the machine's. *)
Theorem C04_source_step : forall o : op2, step2_agrees bodies o.
Proof. exact BodyTie2.step2_all. Qed.

(* Any merged timeline of calls on the two observers (each observer consumed by its own terminal call). *)
Theorem C04_source_runs_like_the_machine :
  forall (o : op2) (tl : timeline) (s : st2) (la lb : bool), BodyTie2.src_run2 o s la lb tl = Some (run2 o s la lb tl).
Proof. exact BodyTie2.src_run2_agrees. Qed.

Check C04_source_step : forall o, step2_agrees bodies o.
Check C04_source_runs_like_the_machine :
  forall o tl s la lb, BodyTie2.src_run2 o s la lb tl = Some (run2 o s la lb tl).

Print Assumptions C04_source_step.
Print Assumptions C04_source_runs_like_the_machine.

(* Non-vacuity: the translated zip on a concrete timeline, inside Coq (the second item of input A waits for B's). *)
Example C04_example_source_zip :
  BodyTie2.src_run2 OZip (init2 OZip) true true
    [(A, Next (VZ 1)); (A, Next (VZ 2)); (B, Next (VZ 7)); (A, Done); (B, Next (VZ 8)); (B, Done)]
  = Some [Next (VP (VZ 1) (VZ 7)); Next (VP (VZ 2) (VZ 8)); Done].
Proof. vm_compute. reflexivity. Qed.

(* ... and buffer(notifier): the notifier releases what was gathered, the completion flushes the rest *)
Example C04_example_source_buffer :
  BodyTie2.src_run2 OBuffer (init2 OBuffer) true true
    [(A, Next (VZ 1)); (A, Next (VZ 2)); (B, Next VU); (B, Next VU); (A, Next (VZ 3)); (A, Done)]
  = Some [Next (VL [VZ 1; VZ 2]); Next (VL [VZ 3]); Done].
Proof. vm_compute. reflexivity. Qed.
