(* C14 — conversions and completion status report the real outcome and never hang. *)
From RxModel Require Import Convert.
From RxProofs Require ConvertLaws.
Local Open Scope nat_scope.

(* to_future: items interleaved with polls in any way, then the terminal: every poll before the
   terminal is pending, the first poll after it is ready, with the documented outcome:
   no item + complete -> Empty; one item + complete -> the item; more -> MultipleValues;
   no item + error e -> the error e; items + error -> MultipleValues (the error counts as the
   value that came too many). *)
Theorem C14_future_outcome_and_readiness :
  forall (ls : list flabel) (items : list val) (t : term) (later : list flabel),
    forallb (fun l => match l with FEv (Next _) | FPoll => true | _ => false end) ls = true ->
    ConvertLaws.fevents ls = map Next items -> t <> TNone ->
    run_future false (ls ++ map FEv (term_evs t) ++ FPoll :: later) =
    repeat FPending (ConvertLaws.npolls ls) ++
    match outcome items t with Some m => [FReady m] | None => [] end ++
    frun_ false {| f_last := None; f_obs := false; f_queue := []; f_open := false |} later.
Proof. exact ConvertLaws.future_outcome. Qed.

(* to_stream: every item, the error, then the end, in order; pending only while the source runs *)
Theorem C14_stream_yields_everything_then_ends :
  forall (s : list ev) (n : nat), wf s = true ->
    run_stream false (map FEv s ++ repeat FPoll n) = ConvertLaws.polls_on (ConvertLaws.smsgs s) n.
Proof. exact ConvertLaws.stream_yields_everything. Qed.

(* complete_status: the flag is set exactly when the producer has stored; and under each of the 10
   interleavings of the producer's store / wake with the waiter's check / register / re-check the
   waiter returns or is woken *)
Theorem C14_status_flag :
  forall (xs : list wstep) (pinned : bool),
    (w_flag (wrun pinned xs) =? 0)%Z = negb (existsb ConvertLaws.is_store xs).
Proof. exact ConvertLaws.status_flag. Qed.

Theorem C14_no_lost_wakeup :
  forall err : bool,
    forallb (fun xs => waiter_safe (wrun false xs)) (ConvertLaws.interleave (ConvertLaws.producer err) ConvertLaws.waiter 6) = true.
Proof. exact ConvertLaws.no_lost_wakeup. Qed.

Theorem C14_all_interleavings : length (ConvertLaws.interleave (ConvertLaws.producer true) ConvertLaws.waiter 6) = 10.
Proof. exact ConvertLaws.interleavings_complete. Qed.

(* what the pinned code did (all three repaired by fix: commits) *)
Theorem C14_future_error_refuted : run_future true [FEv (Err 7); FPoll; FPoll] = [FPending; FPending].
Proof. exact ConvertLaws.future_error_refuted. Qed.

Theorem C14_stream_error_refuted :
  run_stream true [FEv (Next (VZ 1)); FEv (Err 7); FPoll; FPoll; FPoll] = [SReady (SItem (VZ 1)); SReady (SErrItem 7); SPending] /\
  run_stream false [FEv (Next (VZ 1)); FEv (Err 7); FPoll; FPoll; FPoll] = [SReady (SItem (VZ 1)); SReady (SErrItem 7); SReady SEnd].
Proof. exact ConvertLaws.stream_error_refuted. Qed.

Theorem C14_lost_wakeup_refuted : waiter_safe (wrun true [WCheck; PStore false; PWake; WRegister]) = false.
Proof. exact ConvertLaws.lost_wakeup_refuted. Qed.

Check C14_future_outcome_and_readiness : forall ls items t later,
    forallb (fun l => match l with FEv (Next _) | FPoll => true | _ => false end) ls = true ->
    ConvertLaws.fevents ls = map Next items -> t <> TNone ->
    run_future false (ls ++ map FEv (term_evs t) ++ FPoll :: later) =
    repeat FPending (ConvertLaws.npolls ls) ++
    match outcome items t with Some m => [FReady m] | None => [] end ++
    frun_ false {| f_last := None; f_obs := false; f_queue := []; f_open := false |} later.
Check C14_stream_yields_everything_then_ends : forall s n, wf s = true ->
    run_stream false (map FEv s ++ repeat FPoll n) = ConvertLaws.polls_on (ConvertLaws.smsgs s) n.
Check C14_status_flag : forall xs pinned, (w_flag (wrun pinned xs) =? 0)%Z = negb (existsb ConvertLaws.is_store xs).
Check C14_no_lost_wakeup : forall err,
    forallb (fun xs => waiter_safe (wrun false xs)) (ConvertLaws.interleave (ConvertLaws.producer err) ConvertLaws.waiter 6) = true.
Check C14_all_interleavings : length (ConvertLaws.interleave (ConvertLaws.producer true) ConvertLaws.waiter 6) = 10.
Check C14_future_error_refuted : run_future true [FEv (Err 7); FPoll; FPoll] = [FPending; FPending].
Check C14_stream_error_refuted :
  run_stream true [FEv (Next (VZ 1)); FEv (Err 7); FPoll; FPoll; FPoll] = [SReady (SItem (VZ 1)); SReady (SErrItem 7); SPending] /\
  run_stream false [FEv (Next (VZ 1)); FEv (Err 7); FPoll; FPoll; FPoll] = [SReady (SItem (VZ 1)); SReady (SErrItem 7); SReady SEnd].
Check C14_lost_wakeup_refuted : waiter_safe (wrun true [WCheck; PStore false; PWake; WRegister]) = false.

Print Assumptions C14_future_outcome_and_readiness.
Print Assumptions C14_stream_yields_everything_then_ends.
Print Assumptions C14_status_flag.
Print Assumptions C14_no_lost_wakeup.
Print Assumptions C14_all_interleavings.
Print Assumptions C14_future_error_refuted.
Print Assumptions C14_stream_error_refuted.
Print Assumptions C14_lost_wakeup_refuted.

Example C14_example_future :
  run_future false [FPoll; FEv (Next (VZ 1)); FPoll; FEv Done; FPoll; FPoll] = [FPending; FPending; FReady (MOk (VZ 1)); FPending].
Proof. reflexivity. Qed.
