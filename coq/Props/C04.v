(* C04 — multi-input combinators follow the interleaving of their inputs. *)
From RxModel Require Import Ops2.
From RxSpec Require Import Ops2Spec.
From RxProofs Require Ops2Laws.

(* Every combinator, every merged timeline (any length, terminals anywhere, events after
   an input's own terminal included): the machine's output is the streaming definition
   applied to the timeline. *)
Theorem C04_combinators :
  forall (o : op2) (tl : timeline), run_op2 o tl = spec_op2 o tl.
Proof. exact Ops2Laws.op2_meets_spec. Qed.

(* After the output has ended nothing more is emitted, whatever arrives. *)
Theorem C04_silent_after_end :
  forall (o : op2) (s : st2) (la lb : bool) (tl : timeline),
    alive s = false -> run2 o s la lb tl = [].
Proof. exact Ops2Laws.silent. Qed.

(* Closed forms of two of the streaming definitions. *)
Theorem C04_merge_all_items :
  forall (tl : timeline) (k : acc),
    no_terminal tl = true -> spec2 OMerge k tl = map Next (all_items tl).
Proof. exact Ops2Laws.merge_items. Qed.

Theorem C04_take_until_items :
  forall (tl : timeline) (k : acc),
    no_terminal tl = true -> items_side B tl = [] ->
    spec2 OTakeUntil k tl = map Next (items_side A tl).
Proof. exact Ops2Laws.take_until_items. Qed.

Check C04_combinators : forall o tl, run_op2 o tl = spec_op2 o tl.
Check C04_silent_after_end : forall o s la lb tl, alive s = false -> run2 o s la lb tl = [].
Check C04_merge_all_items : forall tl k, no_terminal tl = true -> spec2 OMerge k tl = map Next (all_items tl).
Check C04_take_until_items : forall tl k, no_terminal tl = true -> items_side B tl = [] ->
  spec2 OTakeUntil k tl = map Next (items_side A tl).

Print Assumptions C04_combinators.
Print Assumptions C04_silent_after_end.
Print Assumptions C04_merge_all_items.
Print Assumptions C04_take_until_items.

Example C04_example_zip :
  run_op2 OZip [(A, Next (VZ 1)); (A, Next (VZ 2)); (B, Next (VZ 7)); (A, Done); (B, Next (VZ 8)); (B, Err 3); (B, Next (VZ 9))]
  = [Next (VP (VZ 1) (VZ 7)); Next (VP (VZ 2) (VZ 8)); Err 3].
Proof. vm_compute. reflexivity. Qed.

Example C04_example_sample :
  run_op2 OSample [(A, Next (VZ 1)); (A, Next (VZ 2)); (B, Next VU); (B, Next VU); (A, Next (VZ 3)); (B, Done); (A, Done)]
  = [Next (VZ 2); Next (VZ 3); Done].
Proof. vm_compute. reflexivity. Qed.
