(* C15 — finalize runs its callback exactly once per subscription that is completed, failed or
   unsubscribed: right after the first of those events, never before it, never a second time. *)
From RxModel Require Import Finalize.
From RxSpec Require Import FinalizeSpec.
From RxProofs Require FinalizeLaws.
Local Open Scope nat_scope.

(* Every sequence of input calls (items, complete, error — repeated at will) and unsubscriptions,
   with finalize alone, behind a take(n) or in front of one: the callback runs in the segment of
   the first trigger, as the last thing there, and in no other segment. *)
Theorem C15_exactly_once_right_after :
  forall (sh : fshape) (sts : list zstim),
    evicting sh = false -> fin_ok false sh fspec0 sts (run_finalize_segs sh sts) = 0.
Proof. intros sh sts H. exact (FinalizeLaws.finalize_meets_spec false sh (or_intror H) sts zstate0 fspec0 (FinalizeLaws.sinv0 sh)). Qed.

(* the same whether or not the input ever held the observer (never(), an already terminated subject) *)
Theorem C15_exactly_once_any_input :
  forall (connected : bool) (sh : fshape) (sts : list zstim),
    evicting sh = false -> fin_ok false sh (fspec1 connected) sts (run_finalize_segs_from connected sh sts) = 0.
Proof.
  intros c sh sts H.
  exact (FinalizeLaws.finalize_meets_spec false sh (or_intror H) sts (zstate1 c) (fspec1 c) (FinalizeLaws.sinv1 c sh)).
Qed.

(* The excluded shape — a subject as input and a take(n) after the operator — is the recorded
   finding C15-downstream-finished: once the take has completed, the subject drops the operator's
   observer unseen, and the subject's own terminal is not followed by the callback.  The full
   statement is false there ... *)
Theorem C15_downstream_finished_refuted :
  exists sts, fin_ok false (FTakeAfter true 1) fspec0 sts (run_finalize_segs (FTakeAfter true 1) sts) = 1.
Proof. exact FinalizeLaws.finalize_downstream_finished_refuted. Qed.

(* ... and everything else still holds for it: with exactly those terminals not counted as
   triggers, the callback runs at the first trigger, last there, and nowhere else, for all shapes. *)
Theorem C15_exactly_once_outside_gap :
  forall (sh : fshape) (sts : list zstim), fin_ok true sh fspec0 sts (run_finalize_segs sh sts) = 0.
Proof. intros sh sts. exact (FinalizeLaws.finalize_meets_spec true sh (or_introl eq_refl) sts zstate0 fspec0 (FinalizeLaws.sinv0 sh)). Qed.

Theorem C15_at_most_once :
  forall (sh : fshape) (sts : list zstim), calls (run_finalize sh sts) <= 1.
Proof. exact FinalizeLaws.finalize_at_most_once. Qed.

Theorem C15_once_when_unsubscribed :
  forall (sh : fshape) (a b : list zstim), calls (run_finalize sh (a ++ ZUnsub :: b)) = 1.
Proof. exact FinalizeLaws.finalize_unsub_once. Qed.

Theorem C15_once_when_terminated :
  forall (a b : list zstim) (e : ev),
    is_term e = true -> z_src (FinalizeLaws.zfinal FPlain zstate0 a) = true ->
    calls (run_finalize FPlain (a ++ ZSrc e :: b)) = 1.
Proof. exact FinalizeLaws.finalize_term_once. Qed.

Theorem C15_never_before :
  forall (vs : list val) (s : zstate), calls (zrun FPlain s (map (fun v => ZSrc (Next v)) vs)) = 0.
Proof. exact FinalizeLaws.finalize_not_before. Qed.

(* finalize_threads: whatever the interleaving of the threads that reach a trigger, the one whose
   take of the shared cell comes first runs the callback, and nobody else does *)
Theorem C15_race_once :
  forall (a : list rstep) (t : nat) (b : list rstep),
    (forall t', ~ In (RTake t') a) ->
    rcalls (rrun true (a ++ RTake t :: b)) = 1 /\
    nth_error (rrun true (a ++ RTake t :: b)) (length a) = Some (Some t).
Proof. exact FinalizeLaws.race_once. Qed.

Theorem C15_race_at_most_once :
  forall (sched : list rstep) (cell : bool), rcalls (rrun cell sched) <= 1.
Proof. exact FinalizeLaws.race_at_most_once. Qed.

Check C15_exactly_once_right_after : forall sh sts,
  evicting sh = false -> fin_ok false sh fspec0 sts (run_finalize_segs sh sts) = 0.
Check C15_exactly_once_any_input : forall connected sh sts,
  evicting sh = false -> fin_ok false sh (fspec1 connected) sts (run_finalize_segs_from connected sh sts) = 0.
Check C15_exactly_once_outside_gap : forall sh sts, fin_ok true sh fspec0 sts (run_finalize_segs sh sts) = 0.
Check C15_downstream_finished_refuted :
  exists sts, fin_ok false (FTakeAfter true 1) fspec0 sts (run_finalize_segs (FTakeAfter true 1) sts) = 1.
Check C15_at_most_once : forall sh sts, calls (run_finalize sh sts) <= 1.
Check C15_once_when_unsubscribed : forall sh a b, calls (run_finalize sh (a ++ ZUnsub :: b)) = 1.
Check C15_once_when_terminated : forall a b e,
    is_term e = true -> z_src (FinalizeLaws.zfinal FPlain zstate0 a) = true ->
    calls (run_finalize FPlain (a ++ ZSrc e :: b)) = 1.
Check C15_never_before : forall vs s, calls (zrun FPlain s (map (fun v => ZSrc (Next v)) vs)) = 0.
Check C15_race_once : forall a t b, (forall t', ~ In (RTake t') a) ->
    rcalls (rrun true (a ++ RTake t :: b)) = 1 /\ nth_error (rrun true (a ++ RTake t :: b)) (length a) = Some (Some t).
Check C15_race_at_most_once : forall sched cell, rcalls (rrun cell sched) <= 1.

Print Assumptions C15_exactly_once_right_after.
Print Assumptions C15_exactly_once_any_input.
Print Assumptions C15_exactly_once_outside_gap.
Print Assumptions C15_downstream_finished_refuted.
Print Assumptions C15_at_most_once.
Print Assumptions C15_once_when_unsubscribed.
Print Assumptions C15_once_when_terminated.
Print Assumptions C15_never_before.
Print Assumptions C15_race_once.
Print Assumptions C15_race_at_most_once.

(* non-vacuity: concrete histories, and the predicate does reject wrong observations *)
Example C15_example_terminal_then_unsub :
  run_finalize_segs FPlain [ZSrc (Next (VZ 1)); ZSrc Done; ZSrc Done; ZUnsub; ZUnsub]
  = [[ZOut (Next (VZ 1))]; [ZOut Done; ZCall]; []; []; []].
Proof. vm_compute. reflexivity. Qed.

Example C15_example_take_before :
  run_finalize_segs (FTakeBefore 2) [ZSrc (Next (VZ 1)); ZSrc (Next (VZ 2)); ZSrc (Next (VZ 3)); ZUnsub]
  = [[ZOut (Next (VZ 1))]; [ZOut (Next (VZ 2)); ZOut Done; ZCall]; []; []].
Proof. vm_compute. reflexivity. Qed.

Example C15_example_take_after :
  run_finalize_segs (FTakeAfter true 1) [ZSrc (Next (VZ 1)); ZSrc (Next (VZ 2)); ZUnsub]
  = [[ZOut (Next (VZ 1)); ZOut Done]; []; [ZCall]].
Proof. vm_compute. reflexivity. Qed.

Example C15_rejects_twice :
  fin_ok false FPlain fspec0 [ZSrc Done; ZUnsub] [[ZOut Done; ZCall]; [ZCall]] = 2.
Proof. vm_compute. reflexivity. Qed.

Example C15_rejects_never :
  fin_ok false FPlain fspec0 [ZSrc Done; ZUnsub] [[ZOut Done]; []] = 1.
Proof. vm_compute. reflexivity. Qed.

Example C15_rejects_before_terminal_is_forwarded :
  fin_ok false FPlain fspec0 [ZSrc Done] [[ZCall; ZOut Done]] = 1.
Proof. vm_compute. reflexivity. Qed.

Example C15_rejects_early :
  fin_ok false FPlain fspec0 [ZSrc (Next (VZ 1)); ZSrc Done] [[ZOut (Next (VZ 1)); ZCall]; [ZOut Done]] = 2.
Proof. vm_compute. reflexivity. Qed.

Example C15_example_gap :
  run_finalize_segs (FTakeAfter true 1) [ZSrc (Next (VZ 1)); ZSrc Done; ZUnsub] = [[ZOut (Next (VZ 1)); ZOut Done]; []; [ZCall]]
  /\ run_finalize_segs (FTakeAfter false 1) [ZSrc (Next (VZ 1)); ZSrc Done; ZUnsub] = [[ZOut (Next (VZ 1)); ZOut Done]; [ZCall]; []].
Proof. vm_compute. split; reflexivity. Qed.

Example C15_example_never :
  run_finalize_segs_from false FPlain [ZUnsub; ZUnsub] = [[ZCall]; []].
Proof. vm_compute. reflexivity. Qed.
