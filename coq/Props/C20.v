(* C20 — group_by sends every item to exactly one group, in order. *)
From RxModel Require Import GroupBy.
From RxSpec Require Import GroupBySpec.
From RxProofs Require GroupByLaws.

(* one group per distinct key, in order of first appearance *)
Theorem C20_announces :
  forall (key : val -> val) (items : list val) (t : term),
    announced (run_group_by key (mk items t)) = first_keys key [] items.
Proof. exact GroupByLaws.group_by_announces. Qed.

(* the subscriber of group k sees exactly the items of key k, in source order, then the
   source's terminal once (and nothing if no item had key k) *)
Theorem C20_group_trace :
  forall (key : val -> val) (k : val) (items : list val) (t : term),
    group_trace k (run_group_by key (mk items t)) =
    map Next (filter (fun v => val_eqb (key v) k) items) ++
    (if mem k (map key items) then term_evs t else []).
Proof. exact GroupByLaws.group_by_group_trace. Qed.

(* every item is delivered exactly once, in source order: flattening gives the source *)
Theorem C20_flatten :
  forall (key : val -> val) (items : list val) (t : term),
    flattened (run_group_by key (mk items t)) = items.
Proof. exact GroupByLaws.group_by_flatten. Qed.

(* the stream of groups gets the source's terminal once *)
Theorem C20_outer_term :
  forall (key : val -> val) (items : list val) (t : term),
    outer_term (run_group_by key (mk items t)) = term_evs t.
Proof. exact GroupByLaws.group_by_outer_term. Qed.

(* a group is announced before anything is delivered through it *)
Theorem C20_announced_first :
  forall (key : val -> val) (items : list val) (t : term),
    announced_first [] (run_group_by key (mk items t)) = true.
Proof. exact GroupByLaws.group_by_announced_first. Qed.

Check C20_announces : forall key items t, announced (run_group_by key (mk items t)) = first_keys key [] items.
Check C20_group_trace : forall key k items t,
    group_trace k (run_group_by key (mk items t)) =
    map Next (filter (fun v => val_eqb (key v) k) items) ++ (if mem k (map key items) then term_evs t else []).
Check C20_flatten : forall key items t, flattened (run_group_by key (mk items t)) = items.
Check C20_outer_term : forall key items t, outer_term (run_group_by key (mk items t)) = term_evs t.
Check C20_announced_first : forall key items t, announced_first [] (run_group_by key (mk items t)) = true.

Print Assumptions C20_announces.
Print Assumptions C20_group_trace.
Print Assumptions C20_flatten.
Print Assumptions C20_outer_term.
Print Assumptions C20_announced_first.

Example C20_example :
  run_group_by (fun v => match v with VZ z => VZ (z mod 2) | _ => v end)
               (mk [VZ 1; VZ 2; VZ 3] (TErr 7))
  = [Announce (VZ 1); GItem (VZ 1) (VZ 1); Announce (VZ 0); GItem (VZ 0) (VZ 2); GItem (VZ 1) (VZ 3);
     GTerm (VZ 1) (Err 7); GTerm (VZ 0) (Err 7); OuterTerm (Err 7)].
Proof. vm_compute. reflexivity. Qed.
