(* C19 — scheduled tasks run at most once, never early, and stay cancelled. *)
From RxModel Require Import Sched.
From RxSpec Require Import SchedSpec.
From RxProofs Require SchedLaws.
Open Scope N_scope.

(* One task followed through any sequence of polls, clock advances, cancellations and
   queries (`trun`); `cont` is an arbitrary answer function of a repeating task. *)

(* a one-shot task's function runs at most once *)
Theorem C19_once_at_most_once :
  forall cont j ls now t, t_body t = BOnce j -> (ran_count (trun cont now t ls) <= 1)%nat.
Proof. exact SchedLaws.once_at_most_once. Qed.

(* nothing runs before schedule time + delay, however the executor polls *)
Theorem C19_never_before_delay :
  forall cont ls now b d, runs_from (now + d) (trun cont now (spawn b (Some d)) ls) = true.
Proof. exact SchedLaws.never_before_delay. Qed.

(* a repeating task ticks with consecutive sequence numbers, the first at least one period after it
   was scheduled, each later one at least one period after the previous one, and never again once
   its function declined *)
Theorem C19_repeat_ticks :
  forall cont ls now j p delay,
    ticks_ok cont p 0 (now + p) (trun cont now (spawn (repeat_new now j p) delay) ls) = true.
Proof. exact SchedLaws.repeat_from_spawn. Qed.

(* after unsubscribe() on the handle, or once the handle has reported closed, the function never runs *)
Theorem C19_quiet_after_cancel_or_closed :
  forall cont ls now t, SchedLaws.value_inv t -> quiet_after_cancel (trun cont now t ls) = true.
Proof. exact SchedLaws.quiet_after_cancel_or_closed. Qed.

Check C19_once_at_most_once : forall cont j ls now t, t_body t = BOnce j -> (ran_count (trun cont now t ls) <= 1)%nat.
Check C19_never_before_delay : forall cont ls now b d, runs_from (now + d) (trun cont now (spawn b (Some d)) ls) = true.
Check C19_repeat_ticks : forall cont ls now j p delay,
    ticks_ok cont p 0 (now + p) (trun cont now (spawn (repeat_new now j p) delay) ls) = true.
Check C19_quiet_after_cancel_or_closed : forall cont ls now t, SchedLaws.value_inv t -> quiet_after_cancel (trun cont now t ls) = true.

Print Assumptions C19_once_at_most_once.
Print Assumptions C19_never_before_delay.
Print Assumptions C19_repeat_ticks.
Print Assumptions C19_quiet_after_cancel_or_closed.

(* the premise of the last theorem holds for every freshly scheduled task *)
Example C19_spawn_value_inv : forall b d, SchedLaws.value_inv (spawn b d).
Proof. intros b d H. discriminate. Qed.

Example C19_example :
  trun (fun seq => Nat.ltb seq 2) 0 (spawn (repeat_new 0 0 3) (Some 5))
       [TPoll 0; TPoll 3; TPoll 2; TPoll 1; TPoll 3; TClosed 0; TPoll 5; TClosed 0; TPoll 9]
  = [ORan 0 5; ORan 1 9; OClosed false 9; ORan 2 14; OClosed true 14].
Proof. vm_compute. reflexivity. Qed.
