(* C06 — subjects deliver each item once, in order, to exactly the current subscribers. *)
From RxModel Require Import Subject Ileave.
From RxSpec Require Import SubjectSpec IleaveSpec.
From RxProofs Require SubjectLaws IleaveBase IleaveInv IleaveOrder IleaveLaws IleaveComplete.

(* Every history of subscribe / unsubscribe-one / next / next-with-a-subscription-made-
   inside-a-callback / error / complete / clone / retain / unsubscribe-subject and of the
   queries, of any length and with any number of subscribers: the observers/chamber
   implementation produces exactly the deliveries and answers of the abstract multicast
   set (the current subscribers in subscription order). *)
Theorem C06_subject_refines :
  forall h : list sop, size_ok false h = true -> srun subj0 h = arun asub0 h.
Proof. exact SubjectLaws.subject_refines. Qed.

(* After a terminal or unsubscribe(): finished, closed, empty, and silent. *)
Theorem C06_closed_reports :
  forall s : subj, observers s = None ->
    snd (sstep s OpLen) = [RetN 0] /\ snd (sstep s OpIsEmpty) = [RetB true] /\
    snd (sstep s OpIsFinished) = [RetB true] /\ snd (sstep s OpIsClosed) = [RetB true] /\
    forall v, snd (sstep s (OpNext v)) = [].
Proof. exact SubjectLaws.closed_reports. Qed.

Theorem C06_closed_for_ever :
  forall (s : subj) (op : sop), observers s = None -> observers (fst (sstep s op)) = None.
Proof. exact SubjectLaws.closed_stays. Qed.

(* ---- SubjectThreads under concurrent use (lock-level model Ileave.v): any number of threads, any
   scripts, ANY schedule at the granularity of mutex acquisitions ---- *)

(* a delivered item is the value of the next() that broadcast it (nothing invented) *)
Theorem C06_threads_values :
  forall v0 setup scripts sched,
    let '(tr, e, fin) := run_case v0 setup scripts sched in values_ok scripts tr = true.
Proof. exact IleaveBase.il_values. Qed.

(* each subscriber gets each emission at most once, and all of them in one common order *)
Theorem C06_threads_once_in_common_order :
  forall v0 setup scripts sched,
    IleaveInv.names_ok setup scripts = true ->
    let '(tr, e, fin) := run_case v0 setup scripts sched in common_order_ok scripts tr = true.
Proof. exact IleaveOrder.il_common_order. Qed.

(* nothing reaches a subscriber after its terminal *)
Theorem C06_threads_terminal_is_last :
  forall v0 setup scripts sched,
    IleaveInv.names_ok setup scripts = true ->
    let '(tr, e, fin) := run_case v0 setup scripts sched in grammar_ok tr = true.
Proof. exact IleaveLaws.il_grammar. Qed.

(* nor after its unsubscribe() has returned *)
Theorem C06_threads_nothing_after_unsubscribe :
  forall v0 setup scripts sched,
    IleaveInv.names_ok setup scripts = true -> IleaveLaws.unsubs_ok setup scripts = true ->
    let '(tr, e, fin) := run_case v0 setup scripts sched in quiet_after_unsub tr = true.
Proof. exact IleaveLaws.il_quiet_after_unsub. Qed.

(* "to exactly those subscribers that subscribed before that emission began and have not unsubscribed": a subscriber
   that was there from the start and never left gets EVERY emission that reaches anybody - when all threads have returned
   (at any earlier moment: all but possibly the one emission still in progress, in which it is next in line) ... *)
Theorem C06_threads_current_subscriber_sees_everything :
  forall v0 setup scripts sched,
    IleaveInv.names_ok setup scripts = true -> IleaveInv.setup_completes v0 setup = true ->
    let '(tr, e, fin) := run_case v0 setup scripts sched in
    e = EFinished -> full_time_sees_all setup scripts tr = true.
Proof. exact IleaveComplete.il_full_time_sees_all. Qed.

Theorem C06_threads_current_subscriber_at_any_moment :
  forall v0 setup scripts sched,
    IleaveInv.names_ok setup scripts = true -> IleaveInv.setup_completes v0 setup = true ->
    let '(tr, e, fin) := run_case v0 setup scripts sched in
    IleaveComplete.full_time_sees_all_but_last setup scripts tr = true.
Proof. exact IleaveComplete.il_full_time_sees_all_but_last. Qed.

(* ... and no emission is lost: when every thread has returned and nobody terminated or unsubscribed the subject, every
   next() of every script has reached it *)
Theorem C06_threads_no_emission_lost :
  forall v0 setup scripts sched,
    IleaveInv.names_ok setup scripts = true -> IleaveInv.setup_completes v0 setup = true ->
    let '(tr, e, fin) := run_case v0 setup scripts sched in
    nothing_lost setup scripts tr e = true.
Proof. exact IleaveComplete.il_nothing_lost. Qed.

Check C06_threads_current_subscriber_sees_everything : forall v0 setup scripts sched,
    IleaveInv.names_ok setup scripts = true -> IleaveInv.setup_completes v0 setup = true ->
    let '(tr, e, fin) := run_case v0 setup scripts sched in
    e = EFinished -> full_time_sees_all setup scripts tr = true.
Check C06_threads_current_subscriber_at_any_moment : forall v0 setup scripts sched,
    IleaveInv.names_ok setup scripts = true -> IleaveInv.setup_completes v0 setup = true ->
    let '(tr, e, fin) := run_case v0 setup scripts sched in
    IleaveComplete.full_time_sees_all_but_last setup scripts tr = true.
Check C06_threads_no_emission_lost : forall v0 setup scripts sched,
    IleaveInv.names_ok setup scripts = true -> IleaveInv.setup_completes v0 setup = true ->
    let '(tr, e, fin) := run_case v0 setup scripts sched in
    nothing_lost setup scripts tr e = true.
Print Assumptions C06_threads_current_subscriber_sees_everything.
Print Assumptions C06_threads_current_subscriber_at_any_moment.
Print Assumptions C06_threads_no_emission_lost.
Check C06_threads_values : forall v0 setup scripts sched,
    let '(tr, e, fin) := run_case v0 setup scripts sched in values_ok scripts tr = true.
Check C06_threads_once_in_common_order : forall v0 setup scripts sched,
    IleaveInv.names_ok setup scripts = true ->
    let '(tr, e, fin) := run_case v0 setup scripts sched in common_order_ok scripts tr = true.
Check C06_threads_terminal_is_last : forall v0 setup scripts sched,
    IleaveInv.names_ok setup scripts = true ->
    let '(tr, e, fin) := run_case v0 setup scripts sched in grammar_ok tr = true.
Check C06_threads_nothing_after_unsubscribe : forall v0 setup scripts sched,
    IleaveInv.names_ok setup scripts = true -> IleaveLaws.unsubs_ok setup scripts = true ->
    let '(tr, e, fin) := run_case v0 setup scripts sched in quiet_after_unsub tr = true.
Print Assumptions C06_threads_values.
Print Assumptions C06_threads_once_in_common_order.
Print Assumptions C06_threads_terminal_is_last.
Print Assumptions C06_threads_nothing_after_unsubscribe.

Check C06_subject_refines : forall h, size_ok false h = true -> srun subj0 h = arun asub0 h.
Check C06_closed_reports : forall s, observers s = None ->
    snd (sstep s OpLen) = [RetN 0] /\ snd (sstep s OpIsEmpty) = [RetB true] /\
    snd (sstep s OpIsFinished) = [RetB true] /\ snd (sstep s OpIsClosed) = [RetB true] /\
    forall v, snd (sstep s (OpNext v)) = [].
Check C06_closed_for_ever : forall s op, observers s = None -> observers (fst (sstep s op)) = None.

Print Assumptions C06_subject_refines.
Print Assumptions C06_closed_reports.
Print Assumptions C06_closed_for_ever.

(* Non-vacuity: a subscriber added from inside a callback misses the in-flight item and
   sees the next one; a subscriber that left gets nothing more; one terminal each. *)
Example C06_example :
  srun subj0 [OpSubscribe; OpNextSubInside (VZ 1) 0; OpNext (VZ 2); OpUnsubOne 0; OpNext (VZ 3); OpError 7; OpNext (VZ 4); OpIsEmpty]
  = [Subscribed 0; Deliver 0 (Next (VZ 1)); Subscribed 1; Deliver 0 (Next (VZ 2)); Deliver 1 (Next (VZ 2));
     Deliver 1 (Next (VZ 3)); Deliver 1 (Err 7); RetB true].
Proof. vm_compute. reflexivity. Qed.

Example C06_example_premise :
  size_ok false [OpSubscribe; OpNextSubInside (VZ 1) 0; OpNext (VZ 2); OpUnsubOne 0; OpNext (VZ 3); OpError 7; OpNext (VZ 4); OpIsEmpty] = true.
Proof. reflexivity. Qed.

(* the concurrent theorems are not vacuous: a three-thread case within their hypotheses runs to its end
   and satisfies every predicate *)
Example C06_threads_example :
  (let '(tr, e, f) := run_case 0%Z IleaveLaws.ex_setup IleaveLaws.ex_scripts IleaveLaws.ex_sched in
   (ileave_ok IleaveLaws.ex_setup IleaveLaws.ex_scripts tr e, e, Nat.ltb 30 (length tr))) = (true, EFinished, true).
Proof. exact IleaveLaws.hyps_case_runs. Qed.

(* a schedule that stops in the middle of a broadcast: the subscriber next in line has not been served yet *)
Example C06_threads_mid_broadcast :
  let '(tr, e, fin) := run_case 0%Z [ISub 0; ISub 1] [[INext 1%Z]] [0; 0; 0; 0; 0]%nat in
  (e, full_time_sees_all [ISub 0; ISub 1] [[INext 1%Z]] tr, IleaveComplete.full_time_sees_all_but_last [ISub 0; ISub 1] [[INext 1%Z]] tr)
  = (EShort, false, true).
Proof. vm_compute. reflexivity. Qed.
