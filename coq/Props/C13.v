(* C13 — cold pipelines are lazy and every subscription is independent. *)
From Coq Require Import String.
From RxModel Require Import Indep.
From RxGen Require OpState Lazy.
From RxProofs Require IndepLaws.
Local Open Scope nat_scope.
Open Scope string_scope.

(* ---- tie to the source: no value a cold pipeline is built from carries a shared mutable cell.
   The table (every struct of /repo/src that implements Observable, with its field types) is
   regenerated on every run; a field counts as shared when its type mentions Rc / Arc / RefCell /
   Cell / Mutex / an atomic, or one of the crate's own types or aliases that (transitively) does:
   MutRc, MutArc, MultiSubscription, TaskHandle, Subscriber, the subjects, ...  The listed
   exceptions are hot by design: the subjects, share / publish, the status handle of
   complete_status, and the two sources of the test-only fake clock (they hold the clock). ---- *)
Definition hot_by_design : list string :=
  ["ops/complete_status.rs:StatusOp"; "ops/ref_count.rs:ShareOp"; "ops/ref_count.rs:ShareOpThreads";
   "subject/behavior_subject.rs:BehaviorSubject";
   "subject.rs:Subject"; "subject.rs:SubjectThreads"; "subject.rs:MutRefItemSubject"; "subject.rs:MutRefErrSubject";
   "subject.rs:MutRefItemErrSubject";
   "observable/fake_timer.rs:DelayObservable"; "observable/fake_timer.rs:IntervalObservable"].

Definition cold_value_ok (row : string * bool) : bool :=
  negb (snd row) || existsb (String.eqb (fst row)) hot_by_design.

Theorem C13_no_shared_cell_in_pipeline_values : forallb cold_value_ok OpState.table = true.
Proof. vm_compute. reflexivity. Qed.

(* ---- no state outside the values either: every `static` item of the crate (regenerated list) is one of these - the
   timer function that a program installs once, and the per-thread registers of the verification hooks (compiled under
   --cfg rxrust_verif only).  A static that an operator reads and writes is shared by every subscription of the process. ---- *)
Definition configuration_statics : list string :=
  ["scheduler.rs:NEW_TIMER_FN"; "scheduler.rs:SPAWNED"; "scheduler.rs:YIELD"; "scheduler.rs:LOCK_GATE"; "scheduler.rs:LOCKS"].

Theorem C13_no_process_wide_state :
  forallb (fun x => existsb (String.eqb x) configuration_statics) OpState.statics = true.
Proof. vm_compute. reflexivity. Qed.

(* ---- tie to the source: building a pipeline performs no work.  The table (regenerated on every run) lists every function
   a pipeline is built with - the source constructors of src/observable/*.rs, the default methods of ObservableExt, the
   `new` functions of src/ops and src/observable - with a flag: true when its body only constructs and returns a value, false
   when it calls a closure parameter, subscribes / polls / schedules something or calls an observer.  The two conversions
   that subscribe by definition (to_future and to_stream create their future / stream by subscribing the source) are the
   only exceptions. ---- *)
Definition subscribes_by_definition : list string := ["ops/future.rs:new"; "ops/stream.rs:new"].

Definition builds_only (row : string * bool) : bool :=
  snd row || existsb (String.eqb (fst row)) subscribes_by_definition.

Theorem C13_building_performs_no_work : forallb builds_only Lazy.table = true.
Proof. vm_compute. reflexivity. Qed.

(* the table is not empty and knows the deferred sources *)
Example C13_lazy_table_covers :
  (Nat.leb 120 (List.length Lazy.table),
   existsb (fun r => String.eqb (fst r) "observable/start.rs:start") Lazy.table,
   existsb (fun r => String.eqb (fst r) "observable/defer.rs:defer") Lazy.table,
   existsb (fun r => String.eqb (fst r) "observable.rs:ObservableExt::flat_map") Lazy.table) = (true, true, true, true).
Proof. vm_compute. reflexivity. Qed.

(* ---- with every operator's state created per subscription: one subscription leaves everything
   reachable from the pipeline value untouched and yields the pure run ---- *)
Theorem C13_subscription_is_pure :
  forall (h : heap) (pv : pval) (s : list ev), all_fresh pv = true -> sub_run h pv s = (h, run_cold (map fst pv) s).
Proof. exact IndepLaws.sub_run_pure. Qed.

Theorem C13_successive_subscriptions_agree :
  forall (pv : pval) (s : list ev), all_fresh pv = true ->
    forall (k : nat) (h : heap), sub_runs h pv s k = repeat (run_cold (map fst pv) s) k.
Proof. exact IndepLaws.successive_subscriptions_agree. Qed.

Theorem C13_nested_subscriptions_agree :
  forall (pv : pval) (s : list ev) (at_ : nat) (h : heap), all_fresh pv = true ->
    nested_run h pv s at_ = (run_cold (map fst pv) s, run_cold (map fst pv) s).
Proof. exact IndepLaws.nested_subscriptions_agree. Qed.

(* the hypothesis is what matters: one operator with its counter in a cell shared between clones
   and the second subscription differs *)
Theorem C13_shared_state_would_break_it :
  exists pv s, sub_runs [] pv s 2 <> repeat (run_cold (map fst pv) s) 2.
Proof. exact IndepLaws.shared_state_breaks_independence. Qed.

Check C13_no_shared_cell_in_pipeline_values : forallb cold_value_ok OpState.table = true.
Check C13_no_process_wide_state : forallb (fun x => existsb (String.eqb x) configuration_statics) OpState.statics = true.
Check C13_building_performs_no_work : forallb builds_only Lazy.table = true.
Print Assumptions C13_building_performs_no_work.
Check C13_subscription_is_pure : forall h pv s, all_fresh pv = true -> sub_run h pv s = (h, run_cold (map fst pv) s).
Check C13_successive_subscriptions_agree : forall pv s, all_fresh pv = true ->
    forall k h, sub_runs h pv s k = repeat (run_cold (map fst pv) s) k.
Check C13_nested_subscriptions_agree : forall pv s at_ h, all_fresh pv = true ->
    nested_run h pv s at_ = (run_cold (map fst pv) s, run_cold (map fst pv) s).
Check C13_shared_state_would_break_it : exists pv s, sub_runs [] pv s 2 <> repeat (run_cold (map fst pv) s) 2.

Print Assumptions C13_no_shared_cell_in_pipeline_values.
Print Assumptions C13_no_process_wide_state.
Print Assumptions C13_subscription_is_pure.
Print Assumptions C13_successive_subscriptions_agree.
Print Assumptions C13_nested_subscriptions_agree.
Print Assumptions C13_shared_state_would_break_it.

Example C13_example :
  sub_runs [] [(OScan (fun a v => match a, v with VZ x, VZ y => VZ (x + y) | _, _ => a end) (VZ 0), HFresh); (OTake 2, HFresh)]
           [Next (VZ 1); Next (VZ 2); Next (VZ 3); Done] 3
  = repeat [Next (VZ 1); Next (VZ 3); Done] 3.
Proof. vm_compute. reflexivity. Qed.
