(* C02 — after unsubscribe() returns the subscriber is never called again. *)
From RxModel Require Import Timed Chain Ops2 Flatten Ileave.
From RxSpec Require Import IleaveSpec.
From RxProofs Require TimedLaws UnsubLaws IleaveInv IleaveLaws.

(* Scheduler-using operators and time sources (delay, observe_on, delay_subscription,
   subscribe_on, debounce, throttle x 3 edges, buffer_with_time, buffer_with_count_and_time,
   interval, interval_at, timer): for EVERY label sequence before the unsubscription (input
   events, polls of any task in any order, clock advances, queries, earlier unsubscriptions)
   and EVERY label sequence after it, the part of the trace from the unsubscribe label on
   contains no call of the subscriber. *)
Theorem C02_timed :
  forall o ls1 ls2, TimedLaws.not_raw o ->
    exists before after,
      run_timed o (ls1 ++ LUnsub :: ls2) = before ++ TMark (length ls1) :: after /\
      before = run_timed o ls1 /\ TimedLaws.no_tout after.
Proof. exact TimedLaws.timed_unsubscribe_final. Qed.

(* Untimed pipelines: unsubscribing empties the Subscriber slots of the inputs, i.e. ends the
   delivery of input events; runs are incremental, so what was delivered before the cut is
   exactly the run of the prefix and nothing is added. *)
Theorem C02_chain_incremental :
  forall os a b, exists rest, run_hot os (a ++ b) = run_hot os a ++ rest.
Proof. exact UnsubLaws.run_hot_incremental. Qed.

Theorem C02_op2_incremental :
  forall o a s la lb b,
    run2 o s la lb (a ++ b) =
    run2 o s la lb a ++ (let '(s', la', lb') := final2 o s la lb a in run2 o s' la' lb' b).
Proof. exact UnsubLaws.run2_incremental. Qed.

Theorem C02_flatten_silent :
  forall n s live j r,
    downstream (frun n s live j (FUnsub :: r)) = [] /\
    forall x, In x (frun n s live j (FUnsub :: r)) -> exists k, x = FMark k.
Proof. exact UnsubLaws.flatten_unsub_silent. Qed.

(* The thread-safe subject: an unsubscribing thread against emitting, terminating and subscribing
   threads (lock-level model Ileave.v), any number of threads, any scripts, ANY schedule at the
   granularity of mutex acquisitions: once unsubscribe() of a subscriber's subscription has
   returned, that subscriber is never called again *)
Theorem C02_threads_subject :
  forall v0 setup scripts sched,
    IleaveInv.names_ok setup scripts = true -> IleaveLaws.unsubs_ok setup scripts = true ->
    let '(tr, e, fin) := run_case v0 setup scripts sched in quiet_after_unsub tr = true.
Proof. exact IleaveLaws.il_quiet_after_unsub. Qed.

Check C02_threads_subject : forall v0 setup scripts sched,
    IleaveInv.names_ok setup scripts = true -> IleaveLaws.unsubs_ok setup scripts = true ->
    let '(tr, e, fin) := run_case v0 setup scripts sched in quiet_after_unsub tr = true.
Print Assumptions C02_threads_subject.

Check C02_timed : forall o ls1 ls2, TimedLaws.not_raw o ->
    exists before after,
      run_timed o (ls1 ++ LUnsub :: ls2) = before ++ TMark (length ls1) :: after /\
      before = run_timed o ls1 /\ TimedLaws.no_tout after.
Check C02_chain_incremental : forall os a b, exists rest, run_hot os (a ++ b) = run_hot os a ++ rest.
Check C02_op2_incremental : forall o a s la lb b,
    run2 o s la lb (a ++ b) =
    run2 o s la lb a ++ (let '(s', la', lb') := final2 o s la lb a in run2 o s' la' lb' b).
Check C02_flatten_silent : forall n s live j r,
    downstream (frun n s live j (FUnsub :: r)) = [] /\
    forall x, In x (frun n s live j (FUnsub :: r)) -> exists k, x = FMark k.

Print Assumptions C02_timed.
Print Assumptions C02_chain_incremental.
Print Assumptions C02_op2_incremental.
Print Assumptions C02_flatten_silent.

(* Non-vacuity: a pending trailing item of throttle and a pending delayed item are not delivered
   once the subscription has been unsubscribed, although their tasks are polled after the window. *)
Example C02_example_throttle :
  run_timed (TThrottle 5 ETailing) [LSrc (Next (VZ 1)); LRun 0; LUnsub; LAdv 5; LRun 0]
  = [TMark 0; TMark 1; TMark 2; TMark 3; TMark 4].
Proof. vm_compute. reflexivity. Qed.

Example C02_example_delay :
  run_timed (TDelay 5) [LSrc (Next (VZ 1)); LRun 0; LSrc (Next (VZ 2)); LUnsub; LAdv 9; LRun 1; LRun 0; LSrc (Next (VZ 3)); LRun 2]
  = [TMark 0; TMark 1; TMark 2; TMark 3; TMark 4; TMark 5; TMark 6; TMark 7; TMark 8].
Proof. vm_compute. reflexivity. Qed.

(* the predicate is not vacuous: an emission in flight when the unsubscription starts is delivered
   before unsubscribe() returns (it waits for the subscriber's mutex), later ones are not *)
Example C02_example_threads :
  let '(tr, e, fin) := run_case 0%Z [ISub 0] [[INext 5%Z; INext 6%Z]; [IUnsub 0]] [0; 0; 0; 0; 1; 0; 1; 0; 0; 0; 0; 0; 0; 0; 0]%nat in
  (tr, e) = ([TAcq 0 LObs; TAcq 0 LCham; TAcq 0 LObs; TAcq 0 (LCell 0); TEv 0 (YItem 5%Z) 0 0; TAcq 1 (LCell 0); TUn 0 1 0;
              TAcq 0 LObs; TAcq 0 LCham; TAcq 0 LObs; TAcq 0 (LCell 0)]%nat, EFinished).
Proof. vm_compute. reflexivity. Qed.
