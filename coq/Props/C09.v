(* C09 — rate-limiting operators never invent, duplicate or reorder items.
   The window tasks of debounce / throttle are one-shot tasks with the window as delay, the
   flush task of buffer_with_time is a repeating task; what they can do under ANY order and
   timing of polls is given by the scheduler theorems below.  The operator-level statement
   (outputs are a sub-sequence of the input, buffers partition it) is evaluated by the
   extracted predicates subseq_ok / buffers_ok on every trace of the implementation and of
   the model, see the check. *)
From RxModel Require Import Sched.
From RxSpec Require Import SchedSpec.
From RxProofs Require SchedLaws.
Open Scope N_scope.

(* a window closes no earlier than its length after it was opened *)
Theorem C09_window_not_early :
  forall cont ls opened_at job w,
    runs_from (opened_at + w) (trun cont opened_at (spawn (BOnce job) (Some w)) ls) = true.
Proof. intros. apply SchedLaws.never_before_delay. Qed.

(* a window task fires at most once (at most one trailing delivery per window) *)
Theorem C09_window_fires_once :
  forall cont job ls now delay,
    (ran_count (trun cont now (spawn (BOnce job) delay) ls) <= 1)%nat.
Proof. intros. apply (SchedLaws.once_at_most_once cont job). reflexivity. Qed.

(* a cancelled window (debounce: a newer item arrived) never fires *)
Theorem C09_cancelled_window_silent :
  forall cont ls now job delay,
    quiet_after_cancel (trun cont now (spawn (BOnce job) delay) ls) = true.
Proof. intros. apply SchedLaws.quiet_after_cancel_or_closed. intros H. discriminate. Qed.

(* buffer_with_time flushes are at least one window apart, the first one at least one window
   after subscription *)
Theorem C09_flush_period :
  forall cont ls now j w,
    ticks_ok cont w 0 (now + w) (trun cont now (spawn (repeat_new now j w) None) ls) = true.
Proof. intros. apply SchedLaws.repeat_from_spawn. Qed.

Check C09_window_not_early : forall cont ls opened_at job w,
    runs_from (opened_at + w) (trun cont opened_at (spawn (BOnce job) (Some w)) ls) = true.
Check C09_window_fires_once : forall cont job ls now delay,
    (ran_count (trun cont now (spawn (BOnce job) delay) ls) <= 1)%nat.
Check C09_cancelled_window_silent : forall cont ls now job delay,
    quiet_after_cancel (trun cont now (spawn (BOnce job) delay) ls) = true.
Check C09_flush_period : forall cont ls now j w,
    ticks_ok cont w 0 (now + w) (trun cont now (spawn (repeat_new now j w) None) ls) = true.

Print Assumptions C09_window_not_early.
Print Assumptions C09_window_fires_once.
Print Assumptions C09_cancelled_window_silent.
Print Assumptions C09_flush_period.

Example C09_example :
  trun (fun _ => true) 0 (spawn (repeat_new 0 0 5) None) [TPoll 5; TPoll 3; TPoll 2; TPoll 7]
  = [ORan 0 5; ORan 1 10; ORan 2 17].
Proof. vm_compute. reflexivity. Qed.
