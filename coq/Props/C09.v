(* C09 — rate-limiting operators never invent, duplicate or reorder items.
   The operator-level statements (outputs are a sub-sequence of the input, buffers partition
   it) are theorems over the timed system for every label sequence; the same predicates
   (subseq_ok / final_item_ok / buffers_ok) judge every trace of the implementation.  The window
   tasks of debounce / throttle are one-shot tasks with the window as delay, the flush task of
   buffer_with_time is a repeating task; what they can do under ANY order and timing of polls
   is given by the scheduler theorems at the end. *)
From RxModel Require Import Sched Timed.
From RxSpec Require Import SchedSpec TimedSpec.
From RxProofs Require SchedLaws TimedLaws BufferLaws RateLaws ThrottleExact.
Open Scope N_scope.

(* debounce and throttle (all three edges), for EVERY sequence of labels (input notifications,
   polls of any task at any time and in any order, clock advances of any size, unsubscribe,
   queries, the downstream starting to report finished): what is delivered consists of input
   items only, each at most once, in input order (a sub-sequence of the accepted input), nothing
   after a terminal or after unsubscribe() returned; and when the output completes, the last
   input item has been delivered as the last item (debounce; throttle with a trailing edge) *)
Theorem C09_debounce :
  forall d ls, timed_ok (TDebounce d) ls (run_timed (TDebounce d) ls) = true.
Proof. exact RateLaws.debounce_meets_spec. Qed.

Theorem C09_throttle :
  forall d e ls, timed_ok (TThrottle d e) ls (run_timed (TThrottle d e) ls) = true.
Proof. exact RateLaws.throttle_meets_spec. Qed.

Theorem C09_debounce_subsequence :
  forall d ls, subseq_ok ls (run_timed (TDebounce d) ls) = true.
Proof. exact RateLaws.debounce_subseq. Qed.

Theorem C09_throttle_subsequence :
  forall d e ls, subseq_ok ls (run_timed (TThrottle d e) ls) = true.
Proof. exact RateLaws.throttle_subseq. Qed.

(* debounce delivers an item exactly when no newer item arrived within the window: items spaced
   by a full window are all delivered, each one window after it arrived (the executor polls a
   task when it is scheduled and when its timer is due) ... *)
Theorem C09_debounce_spaced :
  forall d vs, 0 < d ->
    TimedLaws.touts (run_timed (TDebounce d)
       (flat_map (fun '(i, v) => [LSrc (Next v); LRun i; LAdv d; LRun i]) (combine (seq 0 (length vs)) vs)))
    = map (fun '(i, v) => TOut (N.of_nat (S i) * d) (Next v)) (combine (seq 0 (length vs)) vs).
Proof. exact RateLaws.debounce_spaced. Qed.

(* ... and of a burst only the last item is delivered, one window after it arrived *)
Theorem C09_debounce_burst :
  forall d vs v, 0 < d ->
    TimedLaws.touts (run_timed (TDebounce d)
       (map (fun x => LSrc (Next x)) (vs ++ [v]) ++ [LRun (length vs); LAdv d; LRun (length vs)]))
    = [TOut d (Next v)].
Proof. exact RateLaws.debounce_burst. Qed.

(* throttle under an executor that runs as the timers fall due (it polls the window task when it is scheduled and when
   its timer is due): the first item of each window on the leading edge, the last one on the trailing edge.  v opens a
   window, vs arrive inside it, w arrives after it has closed. *)
Theorem C09_throttle_leading_exact :
  forall d v vs w, 0 < d ->
    TimedLaws.touts (run_timed (TThrottle d ELeading)
       (LSrc (Next v) :: LRun 0 :: ThrottleExact.feed vs ++ [LAdv d; LRun 0; LSrc (Next w); LRun 1]))
    = [TOut 0 (Next v); TOut d (Next w)].
Proof. exact ThrottleExact.throttle_leading_exact. Qed.

Theorem C09_throttle_trailing_exact :
  forall d v vs w, 0 < d ->
    TimedLaws.touts (run_timed (TThrottle d ETailing)
       (LSrc (Next v) :: LRun 0 :: ThrottleExact.feed vs ++ [LAdv d; LRun 0; LSrc (Next w); LRun 1]))
    = [TOut d (Next (last vs v))].
Proof. exact ThrottleExact.throttle_trailing_exact. Qed.

Theorem C09_throttle_both_edges_exact :
  forall d v vs w, 0 < d ->
    TimedLaws.touts (run_timed (TThrottle d EAll)
       (LSrc (Next v) :: LRun 0 :: ThrottleExact.feed vs ++ [LAdv d; LRun 0; LSrc (Next w); LRun 1]))
    = TOut 0 (Next v) :: (match vs with [] => [] | _ :: _ => [TOut d (Next (last vs v))] end) ++ [TOut d (Next w)].
Proof. exact ThrottleExact.throttle_all_exact. Qed.

(* completion flushes the pending trailing item before it is forwarded *)
Theorem C09_throttle_completion_flushes :
  forall d e v vs, 0 < d -> e <> ELeading ->
    TimedLaws.touts (run_timed (TThrottle d e) (LSrc (Next v) :: LRun 0 :: ThrottleExact.feed vs ++ [LSrc Done]))
    = match e with ETailing => [] | _ => [TOut 0 (Next v)] end ++
      match e, vs with EAll, [] => [] | _, _ => [TOut 0 (Next (last vs v))] end ++ [TOut 0 Done].
Proof. exact ThrottleExact.throttle_done_flushes. Qed.

(* buffer_with_time / buffer_with_count_and_time, for EVERY sequence of labels (input
   notifications, polls of any task at any time, clock advances, unsubscribe, queries, the
   downstream starting to report finished): every buffer is non-empty and within the count limit,
   the concatenation of the buffers is a prefix of the input, the whole input once the output
   has completed; nothing after a terminal or after unsubscribe() returned *)
Theorem C09_buffer_with_time :
  forall d ls, buffers_ok None ls (run_timed (TBufferTime d) ls) = true.
Proof. exact BufferLaws.buffer_time_meets_spec. Qed.

Theorem C09_buffer_with_count_and_time :
  forall n d ls, buffers_ok (Some n) ls (run_timed (TBufferCountTime n d) ls) = true.
Proof. exact BufferLaws.buffer_count_time_meets_spec. Qed.

(* when the executor runs as the flush timer falls due, each flush is exactly what arrived
   during its window (any number of consecutive windows) *)
Theorem C09_buffer_windows :
  forall d vss, TimedLaws.touts (run_timed (TBufferTime d) (BufferLaws.windows d vss)) = BufferLaws.expected_flushes d 0 vss.
Proof. exact BufferLaws.buffer_time_windows. Qed.

Theorem C09_buffer_count_windows :
  forall n d vss, Forall (fun vs => (length vs < n)%nat) vss ->
    TimedLaws.touts (run_timed (TBufferCountTime n d) (BufferLaws.windows d vss)) = BufferLaws.expected_flushes d 0 vss.
Proof. exact BufferLaws.buffer_count_time_windows. Qed.

(* a window closes no earlier than its length after it was opened *)
Theorem C09_window_not_early :
  forall cont ls opened_at job w,
    runs_from (opened_at + w) (trun cont opened_at (spawn (BOnce job) (Some w)) ls) = true.
Proof. intros. apply SchedLaws.never_before_delay. Qed.

(* a window task fires at most once (at most one trailing delivery per window) *)
Theorem C09_window_fires_once :
  forall cont job ls now delay,
    (ran_count (trun cont now (spawn (BOnce job) delay) ls) <= 1)%nat.
Proof. intros. apply (SchedLaws.once_at_most_once cont job). reflexivity. Qed.

(* a cancelled window (debounce: a newer item arrived) never fires *)
Theorem C09_cancelled_window_silent :
  forall cont ls now job delay,
    quiet_after_cancel (trun cont now (spawn (BOnce job) delay) ls) = true.
Proof. intros. apply SchedLaws.quiet_after_cancel_or_closed. intros H. discriminate. Qed.

(* buffer_with_time flushes are at least one window apart, the first one at least one window
   after subscription *)
Theorem C09_flush_period :
  forall cont ls now j w,
    ticks_ok cont w 0 (now + w) (trun cont now (spawn (repeat_new now j w) None) ls) = true.
Proof. intros. apply SchedLaws.repeat_from_spawn. Qed.

Check C09_window_not_early : forall cont ls opened_at job w,
    runs_from (opened_at + w) (trun cont opened_at (spawn (BOnce job) (Some w)) ls) = true.
Check C09_window_fires_once : forall cont job ls now delay,
    (ran_count (trun cont now (spawn (BOnce job) delay) ls) <= 1)%nat.
Check C09_cancelled_window_silent : forall cont ls now job delay,
    quiet_after_cancel (trun cont now (spawn (BOnce job) delay) ls) = true.
Check C09_flush_period : forall cont ls now j w,
    ticks_ok cont w 0 (now + w) (trun cont now (spawn (repeat_new now j w) None) ls) = true.

Check C09_debounce : forall d ls, timed_ok (TDebounce d) ls (run_timed (TDebounce d) ls) = true.
Check C09_throttle : forall d e ls, timed_ok (TThrottle d e) ls (run_timed (TThrottle d e) ls) = true.
Check C09_debounce_subsequence : forall d ls, subseq_ok ls (run_timed (TDebounce d) ls) = true.
Check C09_throttle_subsequence : forall d e ls, subseq_ok ls (run_timed (TThrottle d e) ls) = true.
Check C09_debounce_spaced : forall d vs, 0 < d ->
    TimedLaws.touts (run_timed (TDebounce d)
       (flat_map (fun '(i, v) => [LSrc (Next v); LRun i; LAdv d; LRun i]) (combine (seq 0 (length vs)) vs)))
    = map (fun '(i, v) => TOut (N.of_nat (S i) * d) (Next v)) (combine (seq 0 (length vs)) vs).
Check C09_debounce_burst : forall d vs v, 0 < d ->
    TimedLaws.touts (run_timed (TDebounce d)
       (map (fun x => LSrc (Next x)) (vs ++ [v]) ++ [LRun (length vs); LAdv d; LRun (length vs)]))
    = [TOut d (Next v)].
Check C09_throttle_leading_exact : forall d v vs w, 0 < d ->
    TimedLaws.touts (run_timed (TThrottle d ELeading)
       (LSrc (Next v) :: LRun 0 :: ThrottleExact.feed vs ++ [LAdv d; LRun 0; LSrc (Next w); LRun 1]))
    = [TOut 0 (Next v); TOut d (Next w)].
Check C09_throttle_trailing_exact : forall d v vs w, 0 < d ->
    TimedLaws.touts (run_timed (TThrottle d ETailing)
       (LSrc (Next v) :: LRun 0 :: ThrottleExact.feed vs ++ [LAdv d; LRun 0; LSrc (Next w); LRun 1]))
    = [TOut d (Next (last vs v))].
Check C09_throttle_both_edges_exact : forall d v vs w, 0 < d ->
    TimedLaws.touts (run_timed (TThrottle d EAll)
       (LSrc (Next v) :: LRun 0 :: ThrottleExact.feed vs ++ [LAdv d; LRun 0; LSrc (Next w); LRun 1]))
    = TOut 0 (Next v) :: (match vs with [] => [] | _ :: _ => [TOut d (Next (last vs v))] end) ++ [TOut d (Next w)].
Check C09_throttle_completion_flushes : forall d e v vs, 0 < d -> e <> ELeading ->
    TimedLaws.touts (run_timed (TThrottle d e) (LSrc (Next v) :: LRun 0 :: ThrottleExact.feed vs ++ [LSrc Done]))
    = match e with ETailing => [] | _ => [TOut 0 (Next v)] end ++
      match e, vs with EAll, [] => [] | _, _ => [TOut 0 (Next (last vs v))] end ++ [TOut 0 Done].
Check C09_buffer_with_time : forall d ls, buffers_ok None ls (run_timed (TBufferTime d) ls) = true.
Check C09_buffer_with_count_and_time : forall n d ls, buffers_ok (Some n) ls (run_timed (TBufferCountTime n d) ls) = true.
Check C09_buffer_windows : forall d vss,
    TimedLaws.touts (run_timed (TBufferTime d) (BufferLaws.windows d vss)) = BufferLaws.expected_flushes d 0 vss.
Check C09_buffer_count_windows : forall n d vss, Forall (fun vs => (length vs < n)%nat) vss ->
    TimedLaws.touts (run_timed (TBufferCountTime n d) (BufferLaws.windows d vss)) = BufferLaws.expected_flushes d 0 vss.

Print Assumptions C09_debounce.
Print Assumptions C09_throttle.
Print Assumptions C09_debounce_subsequence.
Print Assumptions C09_throttle_subsequence.
Print Assumptions C09_debounce_spaced.
Print Assumptions C09_debounce_burst.
Print Assumptions C09_throttle_leading_exact.
Print Assumptions C09_throttle_trailing_exact.
Print Assumptions C09_throttle_both_edges_exact.
Print Assumptions C09_throttle_completion_flushes.
Print Assumptions C09_buffer_with_time.
Print Assumptions C09_buffer_with_count_and_time.
Print Assumptions C09_buffer_windows.
Print Assumptions C09_buffer_count_windows.
Print Assumptions C09_window_not_early.
Print Assumptions C09_window_fires_once.
Print Assumptions C09_cancelled_window_silent.
Print Assumptions C09_flush_period.

Example C09_example :
  trun (fun _ => true) 0 (spawn (repeat_new 0 0 5) None) [TPoll 5; TPoll 3; TPoll 2; TPoll 7]
  = [ORan 0 5; ORan 1 10; ORan 2 17].
Proof. vm_compute. reflexivity. Qed.

Example C09_example_windows :
  TimedLaws.touts (run_timed (TBufferTime 5) (BufferLaws.windows 5 [[VZ 1; VZ 2]; []; [VZ 3]]))
  = [TOut 5 (Next (VL [VZ 1; VZ 2])); TOut 15 (Next (VL [VZ 3]))].
Proof. vm_compute. reflexivity. Qed.

(* throttle with the leading edge only drops the items arriving inside a window, also the last
   one: the final-item clause is not claimed for it *)
Example C09_example_leading_drops_last :
  final_item_ok [LSrc (Next (VZ 1)); LSrc (Next (VZ 2)); LSrc Done]
    (run_timed (TThrottle 2 ELeading) [LSrc (Next (VZ 1)); LSrc (Next (VZ 2)); LSrc Done]) = false.
Proof. vm_compute. reflexivity. Qed.
