(* C03, tie to the source by translation: the method bodies of the crate's single-input observers,
   parsed from /repo/src on this run (Gen/Bodies.v, translator T5) and run by the evaluator of
   Model/RustSem.v, compute exactly what the hand-written machines compute - and therefore the
   documented list functions.  This file holds only the property theorems, each closed by `exact`. *)
From RxModel Require Import BodyAbs BodyAbsExt.
From RxSpec Require Import Ops1Spec.
From RxGen Require Import Bodies.
From RxProofs Require Ops1Laws BodyTie BodyTieExt.

(* One call of next(): same new state (laid out in the struct's fields), same notifications sent on. *)
Theorem C03_source_next : forall o : op1, next_agrees bodies o.
Proof. exact BodyTie.next_all. Qed.

(* error(self) / complete(self): same notifications sent on. *)
Theorem C03_source_terminal : forall o : op1, terminal_agrees bodies o.
Proof. exact BodyTie.terminal_all. Qed.

(* actual_subscribe builds the machine's initial state and hands it to the source. *)
Theorem C03_source_subscribe : forall o : op1, init_agrees bodies o.
Proof. exact BodyTie.init_all. Qed.

(* Whole scripts: subscribing through the translated actual_subscribe and driving the translated observer
   with any sequence of calls yields the machine's output ... *)
Theorem C03_source_runs_like_the_machine :
  forall (o : op1) (s : list ev), src_run_op bodies o s = Some (run_op o s).
Proof. exact BodyTie.src_run_op_agrees. Qed.

(* ... and hence, on every well-formed script, the documented list function. *)
Theorem C03_source_meets_spec :
  forall (o : op1) (items : list val) (t : term), src_run_op bodies o (mk items t) = Some (spec1 o items t).
Proof. exact BodyTie.src_meets_spec. Qed.

(* The operators that observable.rs defines by composition (first, first_or, last_or, element_at, ignore_elements, all,
   reduce_initial, max, min): the translated default method of ObservableExt, evaluated on the upstream observable, builds
   exactly the operator values of Derived.expand, in that order and with those counts. *)
Theorem C03_source_derived_compositions : derived_agrees bodies.
Proof. exact BodyTieExt.derived_ok. Qed.

Check C03_source_next : forall o, next_agrees bodies o.
Check C03_source_derived_compositions : derived_agrees bodies.
Check C03_source_terminal : forall o, terminal_agrees bodies o.
Check C03_source_subscribe : forall o, init_agrees bodies o.
Check C03_source_runs_like_the_machine : forall o s, src_run_op bodies o s = Some (run_op o s).
Check C03_source_meets_spec : forall o items t, src_run_op bodies o (mk items t) = Some (spec1 o items t).

Print Assumptions C03_source_next.
Print Assumptions C03_source_derived_compositions.
Print Assumptions C03_source_terminal.
Print Assumptions C03_source_subscribe.
Print Assumptions C03_source_runs_like_the_machine.
Print Assumptions C03_source_meets_spec.

(* Non-vacuity: the translated take(2) run on a concrete script, inside Coq. *)
Example C03_example_source_take :
  src_run_op bodies (OTake 2) [Next (VZ 5); Next (VZ 6); Next (VZ 7); Done] = Some [Next (VZ 5); Next (VZ 6); Done].
Proof. vm_compute. reflexivity. Qed.

Example C03_example_source_element_at :
  ext_skeleton bodies "element_at" [VNat 3] = Some [("SkipOp", PNum 3); ("TakeOp", PNum 1)].
Proof. vm_compute. reflexivity. Qed.

(* the evaluator refuses what it does not understand: an unknown method has no meaning *)
Example C03_example_unknown_is_refused :
  call_method [("f:T", "m", ([], [SExpr (XMeth XSelf "frobnicate" []) false]))] "f" FUEL "T" "m" (VStruct "T" []) [] = None.
Proof. vm_compute. reflexivity. Qed.
