(* C02 (and the slot argument of C01 / C17), tie to the source by translation: Subscriber / SubscriberThreads - the slot
   that stands between every hot source and the observer it was given, and that `subscribe` on a Subject returns as the
   subscription - as parsed from /repo/src on this run (Gen/Bodies.v, translator T5; one macro body for both forms) and run by
   the evaluator of Model/RustSem.v, is the two-state slot machine.  This file holds only the property theorems, each
   closed by `exact`. *)
From RxModel Require Import BodyAbsSlot.
From RxGen Require Import Bodies.
From RxProofs Require BodyTieSlot.

(* next / error / complete / unsubscribe are the machine's steps; is_closed() is "the observer is gone" *)
Theorem C02_source_subscriber : subscriber_agrees bodies.
Proof. exact BodyTieSlot.subscriber_ok. Qed.

(* any history of calls (through any clone: they share the cell) *)
Theorem C02_source_subscriber_run :
  forall (os : list slot_op) (alive : bool), subscriber_run bodies (subscriber alive) os = Some (slot_run alive os).
Proof. exact BodyTieSlot.subscriber_run_ok. Qed.

(* once unsubscribe() has returned, whatever the source calls afterwards, nothing is delivered *)
Theorem C02_source_silent_after_unsubscribe :
  forall before after : list slot_op,
    subscriber_run bodies (subscriber true) (before ++ SUnsubscribe :: after) = Some (slot_run true before).
Proof. exact BodyTieSlot.silent_after_unsubscribe. Qed.

Check C02_source_subscriber : subscriber_agrees bodies.
Check C02_source_subscriber_run : forall os alive, subscriber_run bodies (subscriber alive) os = Some (slot_run alive os).
Check C02_source_silent_after_unsubscribe :
  forall before after, subscriber_run bodies (subscriber true) (before ++ SUnsubscribe :: after) = Some (slot_run true before).
Print Assumptions C02_source_subscriber.
Print Assumptions C02_source_subscriber_run.
Print Assumptions C02_source_silent_after_unsubscribe.

Example C02_example_source_subscriber :
  subscriber_run bodies (subscriber true) [SNotify (Next (VZ 1)); SUnsubscribe; SNotify (Next (VZ 2)); SNotify Done]
  = Some [Next (VZ 1)].
Proof. vm_compute. reflexivity. Qed.
