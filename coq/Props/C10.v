(* C10 — thread-safe variants serialise delivery and cannot deadlock. *)
From RxModel Require Import Conc Ileave.
From RxSpec Require Import IleaveSpec.
From RxProofs Require ConcLaws IleaveBase IleaveInv IleaveOrder IleaveLaws.
Local Open Scope nat_scope.

(* Threads whose work follows the crate's locking discipline — a mutex is locked only if it ranks
   above all the thread holds (upstream before downstream; a subject's observer list, then its
   chamber, then its subscribers' cells), mutexes are unlocked in reverse order, a callback runs
   under its subscriber's mutex — never deadlock: for every number of threads, every program of
   that kind, every schedule *)
Theorem C10_no_deadlock :
  forall (lock_of : nat -> nat) (ps : list prog) (sched : list nat),
    disciplined lock_of ps = true -> stuck (fst (exec (start ps) sched)) = false.
Proof. exact ConcLaws.disciplined_never_deadlocks. Qed.

(* ... and no subscriber's callback is ever running on two threads *)
Theorem C10_callbacks_are_exclusive :
  forall (lock_of : nat -> nat) (ps : list prog) (sched : list nat) (t1 t2 : nat) (p1 : prog) (st1 : list nat) (p2 : prog) (st2 : list nat) (o : nat),
    disciplined lock_of ps = true ->
    nth_error (fst (exec (start ps) sched)) t1 = Some (p1, st1) ->
    nth_error (fst (exec (start ps) sched)) t2 = Some (p2, st2) ->
    inside_cb o p1 = true -> inside_cb o p2 = true -> t1 = t2.
Proof. exact ConcLaws.callbacks_are_exclusive. Qed.

(* the crate's operations are such programs: a subject's next with any number of subscribers,
   subscribe, unsubscribe, and an input of a two-input operator that locks the shared cell *)
Theorem C10_subject_next_disciplined :
  forall (base v : nat) (subs : list nat), ok_prog ConcLaws.idl [] [] (next_prog base (probe_cell base) v subs) = true.
Proof. exact ConcLaws.subject_next_disciplined. Qed.

Theorem C10_subscribe_unsubscribe_disciplined :
  forall (base i : nat), ok_prog ConcLaws.idl [] [] (subscribe_prog base) = true /\ ok_prog ConcLaws.idl [] [] (unsubscribe_prog base i) = true.
Proof. intros base i. exact (conj (ConcLaws.subject_subscribe_disciplined base) (ConcLaws.subject_unsubscribe_disciplined base i)). Qed.

Theorem C10_two_input_disciplined :
  forall (base shared v : nat), base + 2 < shared -> ok_prog ConcLaws.idl [] [] (next_prog base (shared_tail shared) v [0]) = true.
Proof. exact ConcLaws.shared_input_disciplined. Qed.

(* task handles: unsubscribe() waits for a running poll — in each of the executions of poll against
   unsubscribe the body runs at most once and never after unsubscribe() has returned; letting go of
   the mutex during the body breaks it *)
Theorem C10_cancel_waits_for_running_poll :
  forallb (fun xs => negb (k_bad (krun xs)) && Nat.leb (k_body_runs (krun xs)) 1) (ConcLaws.executions true) = true.
Proof. exact ConcLaws.cancel_waits_for_running_poll. Qed.

Theorem C10_cancel_without_the_lock_refuted :
  existsb (fun xs => k_bad (krun xs)) (ConcLaws.executions false) = true.
Proof. exact ConcLaws.cancel_without_the_lock_refuted. Qed.

(* ---- SubjectThreads / BehaviorSubject over it, with the state the mutexes protect (Ileave.v) ----
   Any number of threads, each running any script of next / complete / error / subscribe /
   unsubscribe / unsubscribe-the-subject / BehaviorSubject next, subscribe, peek, after any
   sequential setup, under ANY schedule at the granularity of mutex acquisitions: *)

(* whenever some thread's script is not over, some thread can move: no deadlock, in any
   configuration *)
Theorem C10_subject_never_stuck :
  forall s ths, istuck s ths = false.
Proof. exact IleaveBase.no_stuck. Qed.

Theorem C10_subject_no_deadlock :
  forall v0 setup scripts sched,
    let '(tr, e, fin) := run_case v0 setup scripts sched in e <> EDeadlock.
Proof. exact IleaveBase.il_no_deadlock. Qed.

(* no call panics (load() never finds the observer list without the chamber) *)
Theorem C10_subject_no_panic :
  forall v0 setup scripts sched,
    let '(tr, e, fin) := run_case v0 setup scripts sched in no_panic tr = true.
Proof. exact IleaveBase.il_no_panic. Qed.

(* no subscriber callback ever runs on two threads at once *)
Theorem C10_subject_callbacks_exclusive :
  forall v0 setup scripts sched,
    IleaveInv.names_ok setup scripts = true -> IleaveInv.setup_completes v0 setup = true ->
    let '(tr, e, fin) := run_case v0 setup scripts sched in no_overlap tr = true.
Proof. exact IleaveInv.il_no_overlap. Qed.

(* all subscribers observe concurrent emissions in one common order, each at most once: what a
   subscriber sees is a sub-sequence of one duplicate-free global order of the broadcasts *)
Theorem C10_subject_common_order :
  forall v0 setup scripts sched,
    IleaveInv.names_ok setup scripts = true ->
    let '(tr, e, fin) := run_case v0 setup scripts sched in common_order_ok scripts tr = true.
Proof. exact IleaveOrder.il_common_order. Qed.

Check C10_no_deadlock : forall lock_of ps sched, disciplined lock_of ps = true -> stuck (fst (exec (start ps) sched)) = false.
Check C10_callbacks_are_exclusive : forall lock_of ps sched t1 t2 p1 st1 p2 st2 o,
    disciplined lock_of ps = true ->
    nth_error (fst (exec (start ps) sched)) t1 = Some (p1, st1) ->
    nth_error (fst (exec (start ps) sched)) t2 = Some (p2, st2) ->
    inside_cb o p1 = true -> inside_cb o p2 = true -> t1 = t2.
Check C10_subject_next_disciplined : forall base v subs, ok_prog ConcLaws.idl [] [] (next_prog base (probe_cell base) v subs) = true.
Check C10_subscribe_unsubscribe_disciplined : forall base i,
    ok_prog ConcLaws.idl [] [] (subscribe_prog base) = true /\ ok_prog ConcLaws.idl [] [] (unsubscribe_prog base i) = true.
Check C10_two_input_disciplined : forall base shared v, base + 2 < shared -> ok_prog ConcLaws.idl [] [] (next_prog base (shared_tail shared) v [0]) = true.
Check C10_cancel_waits_for_running_poll :
  forallb (fun xs => negb (k_bad (krun xs)) && Nat.leb (k_body_runs (krun xs)) 1) (ConcLaws.executions true) = true.
Check C10_cancel_without_the_lock_refuted : existsb (fun xs => k_bad (krun xs)) (ConcLaws.executions false) = true.

Check C10_subject_never_stuck : forall s ths, istuck s ths = false.
Check C10_subject_no_deadlock : forall v0 setup scripts sched,
    let '(tr, e, fin) := run_case v0 setup scripts sched in e <> EDeadlock.
Check C10_subject_no_panic : forall v0 setup scripts sched,
    let '(tr, e, fin) := run_case v0 setup scripts sched in no_panic tr = true.
Check C10_subject_callbacks_exclusive : forall v0 setup scripts sched,
    IleaveInv.names_ok setup scripts = true -> IleaveInv.setup_completes v0 setup = true ->
    let '(tr, e, fin) := run_case v0 setup scripts sched in no_overlap tr = true.
Check C10_subject_common_order : forall v0 setup scripts sched,
    IleaveInv.names_ok setup scripts = true ->
    let '(tr, e, fin) := run_case v0 setup scripts sched in common_order_ok scripts tr = true.

Print Assumptions C10_subject_never_stuck.
Print Assumptions C10_subject_no_deadlock.
Print Assumptions C10_subject_no_panic.
Print Assumptions C10_subject_callbacks_exclusive.
Print Assumptions C10_subject_common_order.
Print Assumptions C10_no_deadlock.
Print Assumptions C10_callbacks_are_exclusive.
Print Assumptions C10_subject_next_disciplined.
Print Assumptions C10_subscribe_unsubscribe_disciplined.
Print Assumptions C10_two_input_disciplined.
Print Assumptions C10_cancel_waits_for_running_poll.
Print Assumptions C10_cancel_without_the_lock_refuted.

(* non-vacuity: two threads emitting into one subject with two subscribers, one schedule; and a pair
   of programs locking in opposite orders does deadlock (and is rejected by the discipline) *)
Example C10_example_run :
  let ps := [next_prog 0 (probe_cell 0) 7 [0; 1]; next_prog 0 (probe_cell 0) 8 [0; 1]] in
  disciplined ConcLaws.idl ps = true /\
  finished (fst (exec (start ps) (repeat 0 3 ++ repeat 1 20 ++ repeat 0 20 ++ repeat 1 20))) = true.
Proof. vm_compute. split; reflexivity. Qed.

Example C10_opposite_orders_deadlock :
  let ps := [[Acq 0; Acq 1; Rel 1; Rel 0]; [Acq 1; Acq 0; Rel 0; Rel 1]] in
  disciplined ConcLaws.idl ps = false /\ stuck (fst (exec (start ps) [0; 1; 0; 1])) = true.
Proof. vm_compute. split; reflexivity. Qed.


(* non-vacuity of the hypotheses: three threads mixing subject and behavior operations, late
   subscriptions, unsubscriptions and a terminal *)
Example C10_subject_hypotheses_satisfiable :
  (IleaveInv.names_ok IleaveLaws.ex_setup IleaveLaws.ex_scripts,
   IleaveInv.setup_completes 0%Z IleaveLaws.ex_setup,
   IleaveLaws.unsubs_ok IleaveLaws.ex_setup IleaveLaws.ex_scripts) = (true, true, true).
Proof. exact IleaveLaws.hyps_satisfiable. Qed.

(* the names hypothesis is needed: a probe subscribed twice is entered twice *)
Example C10_subject_names_needed :
  (IleaveInv.names_ok [ISub 0] [[INext 1%Z]; [IBSub 0]], IleaveInv.setup_completes 0%Z [ISub 0],
   no_overlap (IleaveLaws.tr_of (run_case 0%Z [ISub 0] [[INext 1%Z]; [IBSub 0]] [0;0;0;0;1]))) = (false, true, false).
Proof. exact IleaveLaws.no_overlap_needs_names. Qed.
