//! The model's only assumption about the real timer (`new_timer(d)`, compiled with the crate's `timer` feature on):
//! it is not ready before `d` has elapsed.  A task is scheduled with the delay on a LocalPool that is polled for a
//! while; the observation is whether and when its body ran.  One line per case: `<id> ran-early | ran | not-run`.
use futures::executor::LocalPool;
use rxrust::ops::throttle::ThrottleEdge;
use rxrust::prelude::*;
use std::cell::Cell;
use std::rc::Rc;
use std::time::{Duration, Instant};

#[derive(Clone, Copy, PartialEq)]
enum Kind {
  Timer,
  Interval,
  Delay,
  DelaySubscription,
}

fn one(id: &str, delay: Duration, kind: Kind, window: Duration) {
  let mut pool = LocalPool::new();
  let sp = pool.spawner();
  let ran_at: Rc<Cell<Option<Duration>>> = Rc::new(Cell::new(None));
  let r = ran_at.clone();
  let t0 = Instant::now();
  let result = std::panic::catch_unwind(std::panic::AssertUnwindSafe(|| {
    let mark = move || {
      if r.get().is_none() {
        r.set(Some(t0.elapsed()))
      }
    };
    match kind {
      // interval: the first tick comes one period after the subscription
      Kind::Interval => {
        let _u = observable::interval(delay, sp.clone()).take(1).subscribe(move |_| mark());
      }
      Kind::Timer => {
        let _u = observable::timer((), delay, sp.clone()).subscribe(move |_| mark());
      }
      Kind::Delay => {
        let _u = observable::of(()).delay(delay, sp.clone()).subscribe(move |_| mark());
      }
      Kind::DelaySubscription => {
        let _u = observable::of(()).delay_subscription(delay, sp.clone()).subscribe(move |_| mark());
      }
    }
    while t0.elapsed() < window && ran_at.get().is_none() {
      pool.run_until_stalled();
      std::thread::sleep(Duration::from_millis(2));
    }
  }));
  let obs = match (result.is_err(), ran_at.get()) {
    (true, _) => "panic".to_string(),
    (_, None) => "not-run".to_string(),
    (_, Some(at)) if at < delay => format!("ran-early after {} ms", at.as_millis()),
    (_, Some(_)) => "ran".to_string(),
  };
  println!("{id} {obs}");
}

/// A scheduler that takes its time to accept a task (a loaded executor): `schedule` is entered, reported, and returns late.
#[derive(Clone)]
struct SlowScheduler {
  pool: FuturesThreadPoolScheduler,
  entered: std::sync::mpsc::Sender<()>,
  latency: Duration,
}

impl<T> Scheduler<T> for SlowScheduler
where
  T: std::future::Future,
  FuturesThreadPoolScheduler: Scheduler<T>,
{
  fn schedule(&self, task: T, delay: Option<Duration>) -> TaskHandle<T::Output> {
    let _ = self.entered.send(());
    std::thread::sleep(self.latency);
    self.pool.schedule(task, delay)
  }
}

/// `unsubscribe()` from one thread while an item of another thread is inside the operator, being handed to the scheduler:
/// unsubscribe() may wait for that call, but once it has returned - and a remaining handle says closed - nothing is delivered.
fn race(id: &str, op: &str) {
  use std::sync::{mpsc, Arc, Mutex};
  let (tx, rx) = mpsc::channel::<String>();
  let op = op.to_string();
  std::thread::spawn(move || {
    let (entered_tx, entered_rx) = mpsc::channel();
    let scheduler = SlowScheduler {
      pool: FuturesThreadPoolScheduler::new().unwrap(),
      entered: entered_tx,
      latency: Duration::from_millis(400),
    };
    let source = SubjectThreads::<i32, std::convert::Infallible>::default();
    let hits = Arc::new(Mutex::new(Vec::<i32>::new()));
    let h = hits.clone();
    let d = Duration::from_millis(200);
    let subscription = match op.as_str() {
      "debounce" => BoxSubscriptionThreads::new(source.clone().debounce(d, scheduler).subscribe(move |v| h.lock().unwrap().push(v))),
      "delay" => BoxSubscriptionThreads::new(source.clone().delay_threads(d, scheduler).subscribe(move |v| h.lock().unwrap().push(v))),
      "throttle" => BoxSubscriptionThreads::new(
        source.clone().throttle_time(d, ThrottleEdge::tailing(), scheduler).subscribe(move |v| h.lock().unwrap().push(v)),
      ),
      _ => BoxSubscriptionThreads::new(source.clone().observe_on_threads(scheduler).subscribe(move |v| h.lock().unwrap().push(v))),
    };
    let mut composite = MultiSubscriptionThreads::default();
    composite.append(subscription);
    let watcher = composite.clone();
    let producer = {
      let mut source = source.clone();
      std::thread::spawn(move || source.next(1))
    };
    if entered_rx.recv_timeout(Duration::from_secs(5)).is_err() {
      let _ = tx.send("the item never reached the scheduler".into());
      return;
    }
    std::thread::sleep(Duration::from_millis(50));
    composite.unsubscribe();
    let closed = watcher.is_closed();
    let seen_at_unsubscribe = hits.lock().unwrap().len();
    let _ = producer.join();
    std::thread::sleep(Duration::from_millis(900));
    let seen = hits.lock().unwrap().clone();
    let r = if !closed {
      "a remaining handle did not report closed after unsubscribe() had returned".to_string()
    } else if seen.len() != seen_at_unsubscribe {
      format!("delivered after unsubscribe() had returned: {:?}", &seen[seen_at_unsubscribe..])
    } else {
      "ok".to_string()
    };
    let _ = tx.send(r);
  });
  match rx.recv_timeout(Duration::from_secs(12)) {
    Ok(r) => println!("{id} {r}"),
    Err(_) => println!("{id} hang"),
  }
}

/// C09 on real threads and the real timer: a source item arrives while the window task of `throttle_time` is handing the
/// trailing item to a slow subscriber on a pool thread; one more item follows.  Whatever is delivered is a source item, at
/// most once, in source order.
fn throttle_order(id: &str, edge: &str) {
  use std::sync::{mpsc, Arc, Mutex};
  let (tx, rx) = mpsc::channel::<String>();
  let edge = edge.to_string();
  std::thread::spawn(move || {
    let pool = FuturesThreadPoolScheduler::new().unwrap();
    let mut source = SubjectThreads::<i32, std::convert::Infallible>::default();
    let hits = Arc::new(Mutex::new(Vec::<i32>::new()));
    let h = hits.clone();
    let (slow_tx, slow_rx) = mpsc::channel::<()>();
    let slow_tx = Mutex::new(slow_tx);
    let e = if edge == "all" { ThrottleEdge::all() } else { ThrottleEdge::tailing() };
    let _subscription = source.clone().throttle_time(Duration::from_millis(200), e, pool).subscribe(move |v| {
      h.lock().unwrap().push(v);
      if v == 2 {
        let _ = slow_tx.lock().unwrap().send(());
        std::thread::sleep(Duration::from_millis(400));
      }
    });
    source.next(1);
    source.next(2);
    if slow_rx.recv_timeout(Duration::from_secs(5)).is_err() {
      let _ = tx.send(format!("the trailing item of the first window never arrived: {:?}", hits.lock().unwrap()));
      return;
    }
    std::thread::sleep(Duration::from_millis(100));
    source.next(3);
    source.next(4);
    std::thread::sleep(Duration::from_millis(1200));
    let seen = hits.lock().unwrap().clone();
    let mut last = 0;
    let mut ok = true;
    for v in &seen {
      if *v <= last || *v > 4 {
        ok = false;
      }
      last = *v;
    }
    let _ = tx.send(if ok { "ok".to_string() } else { format!("not the source's items in the source's order, each at most once: {:?}", seen) });
  });
  match rx.recv_timeout(Duration::from_secs(12)) {
    Ok(r) => println!("{id} {r}"),
    Err(_) => println!("{id} hang"),
  }
}

fn main() {
  std::panic::set_hook(Box::new(|_| {}));
  if std::env::args().nth(1).as_deref() == Some("order") {
    let hs: Vec<_> = ["all", "tailing"]
      .iter()
      .map(|e| {
        let e = e.to_string();
        std::thread::spawn(move || throttle_order(&format!("order-throttle-{e}"), &e))
      })
      .collect();
    for h in hs {
      let _ = h.join();
    }
    return;
  }
  if std::env::args().nth(1).as_deref() == Some("races") {
    let hs: Vec<_> = ["debounce", "delay", "throttle", "observe_on"]
      .iter()
      .map(|op| {
        let op = op.to_string();
        std::thread::spawn(move || race(&format!("race-{op}"), &op))
      })
      .collect();
    for h in hs {
      let _ = h.join();
    }
    return;
  }
  // delays that must elapse within the run get a long window (the loop ends as soon as the task has run): a loaded machine
  // may serve a 120 ms timer late, never early
  let w = Duration::from_millis(350);
  let long = Duration::from_secs(8);
  for (kind, repeat) in [("timer", Kind::Timer), ("interval", Kind::Interval), ("delay", Kind::Delay), ("delay_subscription", Kind::DelaySubscription)] {
    one(&format!("{kind}-0ms"), Duration::from_millis(0), repeat, long);
    one(&format!("{kind}-30ms"), Duration::from_millis(30), repeat, long);
    one(&format!("{kind}-1500us"), Duration::from_micros(1500), repeat, long);
    one(&format!("{kind}-120ms"), Duration::from_millis(120), repeat, long);
    one(&format!("{kind}-2s"), Duration::from_secs(2), repeat, w);
    // beyond u32 milliseconds, u32 seconds, u64 microseconds
    one(&format!("{kind}-2^32ms+100ms"), Duration::from_millis((1u64 << 32) + 100), repeat, w);
    one(&format!("{kind}-2^32ms"), Duration::from_millis(1u64 << 32), repeat, w);
    one(&format!("{kind}-2^32s+1s"), Duration::from_secs((1u64 << 32) + 1), repeat, w);
    one(&format!("{kind}-2^64us+50ms"), Duration::from_micros(u64::MAX) + Duration::from_millis(51), repeat, w);
    // beyond what an Instant can hold: "never"
    one(&format!("{kind}-2^63s+1s"), Duration::from_secs(u64::MAX / 2 + 1), repeat, w);
    one(&format!("{kind}-max"), Duration::MAX, repeat, w);
  }
}
