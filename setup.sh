#!/bin/bash
# Offline build of the whole framework from files on disk.
set -e
cd "$(dirname "$0")"
export CARGO_NET_OFFLINE=true
mkdir -p work evidence replays
( cd coq && coq_makefile -f _CoqProject -o Makefile >/dev/null 2>&1 && timeout 3000 make -j16 >work_build.log 2>&1 || { tail -50 work_build.log; exit 1; } )
python3 - <<'PY'
import sys, os
sys.path.insert(0, os.path.join(os.getcwd(), "lib"))
import common
common.build_runner()
common.build_harness()
print("setup ok")
PY
