#!/bin/bash
# Offline build of the whole framework from files on disk.
set -e
cd "$(dirname "$0")"
export CARGO_NET_OFFLINE=true
mkdir -p work evidence replays
python3 tools/gen_isfinished.py /repo
python3 tools/gen_opstate.py /repo
python3 tools/gen_forms.py /repo
python3 tools/gen_lazy.py /repo
python3 tools/gen_bodies.py /repo
# -k: a property file that no longer checks is reported by that property's own check, not here
( cd coq && coq_makefile -f _CoqProject -o Makefile >/dev/null 2>&1 && { timeout 3000 make -k -j16 >work_build.log 2>&1 || grep -E "^File|Error" work_build.log | head -20; } )
python3 - <<'PY'
import sys, os
sys.path.insert(0, os.path.join(os.getcwd(), "lib"))
import common
common.build_runner()
common.build_harness()
common.build_harness_rt()
print("setup ok")
PY
