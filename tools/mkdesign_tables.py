#!/usr/bin/env python3
"""Regenerates the seeded-changes table of DESIGN.md (between the SEEDED-TABLE markers) from seeded/*/meta.json."""
import json, os, re
V = os.path.dirname(os.path.dirname(os.path.abspath(__file__)))
rows = []
for d in sorted(os.listdir(os.path.join(V, "seeded"))):
    meta = json.load(open(os.path.join(V, "seeded", d, "meta.json")))
    notes = os.path.join(V, "seeded", d, "notes.md")
    title = ""
    if os.path.exists(notes):
        for line in open(notes):
            line = line.strip().lstrip("#").strip()
            if line:
                title = re.sub(r"^(C\d+ )?(seeded change|Seeded change|MUTANT|Mutant|Change)\s*\d*\s*[-—:]*\s*", "", line)
                break
    det = meta.get("detected_by", {})
    cells = []
    for c, v in det.items():
        if c == "error":
            cells.append("patch no longer applies")
        elif v.get("violation"):
            cells.append("%s: caught (%s)" % (c, "failing input" if v.get("failing_input_found") else "model / proof mismatch only"))
        else:
            cells.append("%s: not caught" % c)
    rows.append("| %s | %s | %s |" % (d, title[:110].replace("|", "/"), "; ".join(cells)))
table = "| change | what it does | quick checks run against it |\n|---|---|---|\n" + "\n".join(rows)
p = os.path.join(V, "DESIGN.md")
s = open(p).read()
s = re.sub(r"<!-- SEEDED-TABLE-BEGIN -->.*?<!-- SEEDED-TABLE-END -->", "<!-- SEEDED-TABLE-BEGIN -->\n" + table + "\n<!-- SEEDED-TABLE-END -->", s, flags=re.S)
open(p, "w").write(s)
print(len(rows), "rows")
