#!/usr/bin/env python3
"""Tries seeded changes in isolation and in parallel: for each one a scratch worktree of /repo with the
change applied and a scratch copy of /verif pointing at it; runs the named quick checks there and records
in seeded/<id>/meta.json which of them reported a violation.  /repo and /verif themselves are not touched
(apart from meta.json).  usage: tools/mutant_iso.py [-j N] ID[:CHECK,CHECK...] ..."""
import json, os, re, shutil, subprocess, sys
from concurrent.futures import ThreadPoolExecutor
V = os.path.dirname(os.path.dirname(os.path.abspath(__file__)))
EXTRA = {"C01": ["C06"], "C07": ["C02"], "C19": ["C17", "C10"], "C04": ["C18"], "C02": ["C07", "C05", "C10"], "C15": [], "C16": [],
         "C10": ["C06", "C05"], "C11": ["C06"], "C18": ["C06", "C05", "C04"], "C14": [], "C06": ["C10", "C12"], "C12": ["C06", "C10"]}


def run_one(spec):
    sid, _, cl = spec.partition(":")
    metap = os.path.join(V, "seeded", sid, "meta.json")
    meta = json.load(open(metap))
    checks = cl.split(",") if cl else [meta["property"]] + EXTRA.get(meta["property"], [])
    base = "/tmp/rxv-iso-" + sid
    shutil.rmtree(base, ignore_errors=True)
    os.makedirs(base)
    repo = os.path.join(base, "repo")
    det = dict(meta.get("detected_by", {})) if cl else {}
    det.pop("error", None)
    try:
        subprocess.run(["git", "-C", "/repo", "worktree", "add", "--detach", repo, "HEAD"], check=True, capture_output=True)
        r = subprocess.run(["git", "-C", repo, "apply", os.path.join(V, "seeded", sid, "patch.diff")], capture_output=True, text=True)
        if r.returncode != 0:
            meta["detected_by"] = {"error": "patch does not apply to the current tree: " + r.stderr.strip()[:200]}
            json.dump(meta, open(metap, "w"), indent=1)
            return sid, "PATCH DOES NOT APPLY"
        ver = os.path.join(base, "verif")
        subprocess.run(["rsync", "-a", SNAP + "/", ver + "/"], check=True)
        for h in ("harness", "harness_rt"):
            ct = os.path.join(ver, h, "Cargo.toml")
            toml = open(ct).read().replace('path = "/repo"', 'path = "%s"' % repo)
            open(ct, "w").write(toml)
        env = dict(os.environ, RXV_REPO=repo)
        for c in checks:
            out = subprocess.run([os.path.join(ver, "check"), c, "--tier", "quick"], capture_output=True, text=True, cwd=ver, env=env).stdout
            m = re.search(r"VIOLATION property=(\S+) replay=(\S+)( no-failing-input-found)?", out)
            if m:
                rp = json.load(open(m.group(2)))
                det[c] = {"violation": True, "failing_input_found": not m.group(3), "example": rp.get("case", rp.get("obligation")), "what": rp.get("what", "")[:300]}
            else:
                det[c] = {"violation": False}
    finally:
        subprocess.run(["git", "-C", "/repo", "worktree", "remove", "--force", repo], capture_output=True)
        shutil.rmtree(base, ignore_errors=True)
    meta["detected_by"] = det
    json.dump(meta, open(metap, "w"), indent=1)
    return sid, {k: (v["violation"], v.get("failing_input_found")) for k, v in det.items()}


SNAP = "/tmp/rxv-iso-snapshot"


def main():
    # one snapshot of /verif for all runs: later edits of /verif do not reach them
    shutil.rmtree(SNAP, ignore_errors=True)
    subprocess.run(["rsync", "-a", "--exclude", "work", "--exclude", "replays", "--exclude", ".git", V + "/", SNAP + "/"], check=True)
    args = sys.argv[1:]
    jobs = 4
    if args and args[0] == "-j":
        jobs = int(args[1]); args = args[2:]
    with ThreadPoolExecutor(jobs) as ex:
        for sid, res in ex.map(run_one, args):
            print(sid, res, flush=True)
    shutil.rmtree(SNAP, ignore_errors=True)


if __name__ == "__main__":
    main()
