#!/usr/bin/env python3
"""Applies every seeded change to /repo in turn, runs the quick checks named for it, reverts, and
   records in seeded/<id>/meta.json which checks reported a violation (and with what kind of replay)."""
import json, os, re, subprocess, sys
V = os.path.dirname(os.path.dirname(os.path.abspath(__file__)))
EXTRA = {"C01": ["C06"], "C07": ["C02"], "C19": ["C17", "C10"], "C04": ["C18"], "C02": ["C07", "C05"], "C15": [], "C16": [],
         "C10": ["C06", "C05", "C04"], "C11": ["C06"], "C18": ["C06", "C05", "C04"], "C14": []}
only = sys.argv[1:]
import shutil, tempfile
# the evidence files describe the unchanged tree: keep them out of reach of these runs
SAVE = tempfile.mkdtemp()
shutil.copytree(os.path.join(V, "evidence"), os.path.join(SAVE, "evidence"))
for d in sorted(os.listdir(os.path.join(V, "seeded"))):
    if only and d not in only:
        continue
    patch = os.path.join(V, "seeded", d, "patch.diff")
    metap = os.path.join(V, "seeded", d, "meta.json")
    meta = json.load(open(metap))
    prop = meta["property"]
    checks = [prop] + EXTRA.get(prop, [])
    r = subprocess.run(["git", "-C", "/repo", "apply", patch], capture_output=True, text=True)
    if r.returncode != 0:
        meta["detected_by"] = {"error": "patch does not apply to the current tree: " + r.stderr.strip()[:200]}
        json.dump(meta, open(metap, "w"), indent=1)
        print(d, "PATCH DOES NOT APPLY")
        continue
    det = {}
    try:
        for c in checks:
            out = subprocess.run([os.path.join(V, "check"), c, "--tier", "quick"], capture_output=True, text=True, cwd=V).stdout
            m = re.search(r"VIOLATION property=(\S+) replay=(\S+)( no-failing-input-found)?", out)
            if m:
                rp = json.load(open(m.group(2)))
                det[c] = {"violation": True, "failing_input_found": not m.group(3), "example": rp.get("case", rp.get("obligation"))}
            else:
                det[c] = {"violation": False}
    finally:
        subprocess.run(["git", "-C", "/repo", "checkout", "--", "."])
    meta["detected_by"] = det
    json.dump(meta, open(metap, "w"), indent=1)
    print(d, {k: (v["violation"], v.get("failing_input_found")) for k, v in det.items()})

shutil.rmtree(os.path.join(V, "evidence"))
shutil.copytree(os.path.join(SAVE, "evidence"), os.path.join(V, "evidence"))
shutil.rmtree(SAVE)
