#!/bin/bash
# usage: tools/try_mutant.sh <patch.diff> <property>...   (applies to /repo, runs checks, reverts)
patch="$1"; shift
git -C /repo apply "$patch" || { echo "patch does not apply"; exit 2; }
for p in "$@"; do
  ./check "$p" --tier quick 2>&1 | grep -E "VIOLATION|KNOWN|violations" 
done
git -C /repo checkout -- .
git -C /repo status --short
