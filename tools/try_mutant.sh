#!/bin/bash
# usage: tools/try_mutant.sh <patch.diff> <property>...   (applies to /repo, runs checks, reverts)
patch="$1"; shift
# the evidence files describe the unchanged tree: keep them out of reach of these runs
save=$(mktemp -d); cp -a /verif/evidence/. "$save"/ 2>/dev/null
git -C /repo apply "$patch" || { echo "patch does not apply"; exit 2; }
for p in "$@"; do
  ./check "$p" --tier quick 2>&1 | grep -E "VIOLATION|KNOWN|violations" 
done
git -C /repo checkout -- .
cp -a "$save"/. /verif/evidence/ 2>/dev/null; rm -rf "$save"
git -C /repo status --short
