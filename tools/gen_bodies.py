#!/usr/bin/env python3
"""T5: translate the method bodies of the observer types of /repo/src/ops into Coq syntax trees.

For every `impl ... for TYPE { fn NAME(PARAMS) { BODY } ... }` (trait and inherent impls) in the listed
files a row  (file:TYPE, NAME, parameter names, body : list rs)  is written to coq/Gen/Bodies.v, in the
syntax of Model/RustAst.v.  The pass is purely syntactic (a tokenizer and a recursive-descent parser for
the expression / statement subset of Rust that these bodies use); it gives no meaning to anything: the
meaning is Model/RustSem.v, and the tie theorems of Proofs/BodyTie.v relate the evaluated bodies to the
hand-written machines.  What the parser does not understand becomes `XUnknown "..."`, which the
evaluator refuses, so the tie theorem of that method no longer checks."""
import os, re, sys

REPO = sys.argv[1] if len(sys.argv) > 1 else "/repo"
OUT = sys.argv[2] if len(sys.argv) > 2 else os.path.join(os.path.dirname(os.path.dirname(os.path.abspath(__file__))), "coq", "Gen", "Bodies.v")

FILES = ["ops/map.rs", "ops/map_to.rs", "ops/filter.rs", "ops/filter_map.rs", "ops/tap.rs", "ops/on_error_map.rs", "ops/take.rs", "ops/skip.rs",
         "ops/take_while.rs", "ops/skip_while.rs", "ops/take_last.rs", "ops/skip_last.rs", "ops/last.rs", "ops/scan.rs", "ops/default_if_empty.rs",
         "ops/distinct.rs", "ops/pairwise.rs", "ops/buffer.rs", "ops/contains.rs", "ops/collect.rs", "ops/start_with.rs",
         "ops/merge.rs", "ops/zip.rs", "ops/combine_latest.rs", "ops/with_latest_from.rs", "ops/take_until.rs", "ops/skip_until.rs", "ops/sample.rs",
         "ops/finalize.rs", "ops/group_by.rs", "ops/on_error.rs", "ops/on_complete.rs", "observer.rs", "subscriber.rs", "observable/subscribe_item.rs", "observable.rs", "subscription.rs"]

TOK = re.compile(r"""
   (?P<ws>\s+|//[^\n]*|/\*.*?\*/)
 | (?P<str>b?"(?:\\.|[^"\\])*")
 | (?P<chr>'(?:\\.|[^'\\])')
 | (?P<life>'[A-Za-z_]\w*)
 | (?P<num>\d[\d_]*(?:\.\d+)?(?:[iuf]\d+|usize|isize)?)
 | (?P<id>\$?[A-Za-z_]\w*)
 | (?P<op>::|->|=>|==|!=|<=|>=|&&|\|\||\+=|-=|\*=|/=|\.\.=|\.\.|[-+*/%!&|^=<>.,;:(){}\[\]?#@$])
""", re.X | re.S)


class ParseError(Exception):
    pass


def tokenize(src):
    out, i = [], 0
    while i < len(src):
        m = TOK.match(src, i)
        if not m:
            raise ParseError("cannot tokenize at %r" % src[i:i + 20])
        i = m.end()
        k = m.lastgroup
        if k == "ws":
            continue
        out.append((k, m.group(k)))
    return out


def q(s):
    return '"%s"' % s.replace('"', "'")


def clist(items):
    return "[" + "; ".join(items) + "]"


class P:
    """Recursive descent over a token list; produces Coq terms as text."""
    def __init__(self, toks):
        self.t, self.i = toks, 0

    def peek(self, k=0):
        return self.t[self.i + k][1] if self.i + k < len(self.t) else None

    def kind(self, k=0):
        return self.t[self.i + k][0] if self.i + k < len(self.t) else None

    def eat(self, s=None):
        if self.i >= len(self.t):
            raise ParseError("unexpected end")
        tok = self.t[self.i][1]
        if s is not None and tok != s:
            raise ParseError("expected %r, found %r" % (s, tok))
        self.i += 1
        return tok

    def at(self, s):
        return self.peek() == s

    # ---- types / generics are skipped, never interpreted
    def skip_generics(self):
        """at '<': skip to the matching '>'"""
        depth = 0
        while True:
            tok = self.eat()
            if tok == "<":
                depth += 1
            elif tok == ">":
                depth -= 1
                if depth == 0:
                    return
            elif tok == "->":
                pass

    def skip_type(self, stops):
        depth = 0
        while True:
            tok = self.peek()
            if tok is None:
                return
            if depth == 0 and tok in stops:
                return
            if tok in "<([":
                depth += 1
            elif tok in ">)]":
                if depth == 0:
                    return
                depth -= 1
            self.eat()

    # ---- patterns
    def pattern(self):
        tok = self.peek()
        if tok == "&":
            self.eat()
            if self.at("mut"):
                self.eat()
            return "(PRef %s)" % self.pattern()
        if tok in ("mut", "ref"):
            self.eat()
            return self.pattern()
        if tok == "_":
            self.eat()
            return "PWild"
        if tok == "(":
            self.eat()
            ps = []
            while not self.at(")"):
                ps.append(self.pattern())
                if self.at(","):
                    self.eat()
            self.eat(")")
            if len(ps) == 1:
                return ps[0]
            return "(PTup %s)" % clist(ps)
        if self.kind() == "num":
            return "(PNum %d)" % int(re.match(r"\d+", self.eat().replace("_", "")).group(0))
        if tok in ("true", "false"):
            self.eat()
            return "(PBool %s)" % tok
        if self.kind() == "id":
            name = self.eat()
            while self.at("::"):
                self.eat()
                name = self.eat()
            if self.at("("):
                self.eat()
                ps = []
                while not self.at(")"):
                    ps.append(self.pattern())
                    if self.at(","):
                        self.eat()
                self.eat(")")
                return "(PCtor %s %s)" % (q(name), clist(ps))
            if self.at("{"):
                self.eat()
                fs = []
                while not self.at("}"):
                    if self.at(".."):
                        self.eat()
                        continue
                    f = self.eat()
                    if self.at(":"):
                        self.eat()
                        fs.append("(%s, %s)" % (q(f), self.pattern()))
                    else:
                        fs.append("(%s, PVar %s)" % (q(f), q(f)))
                    if self.at(","):
                        self.eat()
                self.eat("}")
                return "(PStruct %s %s)" % (q(name), clist(fs))
            if name[0].isupper():
                return "(PCtor %s [])" % q(name)
            return "(PVar %s)" % q(name)
        raise ParseError("pattern at %r" % tok)

    # ---- expressions
    BIN = [["||"], ["&&"], ["==", "!=", "<", ">", "<=", ">="], ["+", "-"], ["*", "/", "%"]]

    def expr(self, nostruct=False):
        return self.binary(0, nostruct)

    def binary(self, lvl, nostruct):
        if lvl == len(self.BIN):
            return self.unary(nostruct)
        a = self.binary(lvl + 1, nostruct)
        while self.peek() in self.BIN[lvl]:
            # `|` of a closure never follows an operand here; `<` as generics only after `::`
            op = self.eat()
            b = self.binary(lvl + 1, nostruct)
            a = "(XBin %s %s %s)" % (q(op), a, b)
        return a

    def unary(self, nostruct):
        tok = self.peek()
        if tok == "!":
            self.eat()
            return "(XNot %s)" % self.unary(nostruct)
        if tok == "&":
            self.eat()
            if self.at("mut"):
                self.eat()
            return "(XRef %s)" % self.unary(nostruct)
        if tok == "&&":           # && as two reference operators
            self.eat()
            return "(XRef (XRef %s))" % self.unary(nostruct)
        if tok == "*":
            self.eat()
            return "(XRef %s)" % self.unary(nostruct)       # a dereference is as transparent as a reference
        if tok == "-":
            self.eat()
            return "(XUnknown %s)" % q("negation")
        return self.postfix(self.primary(nostruct), nostruct)

    def args(self):
        self.eat("(")
        out = []
        while not self.at(")"):
            out.append(self.expr())
            if self.at(","):
                self.eat()
        self.eat(")")
        return out

    def postfix(self, e, nostruct):
        while True:
            tok = self.peek()
            if tok == ".":
                if self.peek(1) == "await":
                    self.eat(); self.eat()
                    e = "(XMeth %s \"await\" [])" % e
                    continue
                self.eat()
                name = self.eat()
                if self.at("::"):
                    self.eat()
                    self.skip_generics()
                if self.at("("):
                    e = "(XMeth %s %s %s)" % (e, q(name), clist(self.args()))
                else:
                    # tuple fields of nested tuples arrive as one number token `0.1`
                    for part in name.split("."):
                        e = "(XField %s %s)" % (e, q(part))
            elif tok == "(":
                e = "(XCall %s %s)" % (e, clist(self.args()))
            elif tok == "as":
                self.eat()
                self.skip_type([",", ";", ")", "}", "]"])      # a cast changes no value the evaluator knows
            elif tok == "?":
                self.eat()
                e = "(XUnknown %s)" % q("question mark")
            elif tok == "[":
                self.eat()
                ix = self.expr()
                self.eat("]")
                e = "(XMeth %s \"index\" [%s])" % (e, ix)
            else:
                return e

    def block(self):
        """{ stmts } -> Coq list of rs"""
        self.eat("{")
        stmts = []
        while not self.at("}"):
            stmts.append(self.stmt())
        self.eat("}")
        return clist([s for s in stmts if s])

    def primary(self, nostruct):
        k, tok = self.kind(), self.peek()
        if tok == "(":
            self.eat()
            es = []
            trailing = False
            while not self.at(")"):
                es.append(self.expr())
                trailing = False
                if self.at(","):
                    self.eat()
                    trailing = True
            self.eat(")")
            if len(es) == 0:
                return "XUnit"
            if len(es) == 1 and not trailing:
                return es[0]
            return "(XTuple %s)" % clist(es)
        if tok == "{":
            return "(XBlock %s)" % self.block()
        if tok == "unsafe":
            self.eat()
            return "(XUnknown \"unsafe block\")" if not self.block() else "(XUnknown \"unsafe block\")"
        if tok == "if":
            self.eat()
            if self.at("let"):
                self.eat()
                p = self.pattern()
                self.eat("=")
                e = self.expr(nostruct=True)
                t = self.block()
                el = self.else_part()
                return "(XIfLet %s %s %s %s)" % (p, e, t, el)
            c = self.expr(nostruct=True)
            t = self.block()
            el = self.else_part()
            return "(XIf %s %s %s)" % (c, t, el)
        if tok == "match":
            self.eat()
            e = self.expr(nostruct=True)
            self.eat("{")
            arms = []
            while not self.at("}"):
                p = self.pattern()
                while self.at("|"):
                    self.eat()
                    p = "(POr %s %s)" % (p, self.pattern())
                if self.at("if"):
                    self.eat()
                    g = self.expr()
                    p = "(PGuard %s %s)" % (p, g)
                self.eat("=>")
                body = self.expr()
                if self.at(","):
                    self.eat()
                arms.append("(%s, %s)" % (p, body))
            self.eat("}")
            return "(XMatch %s %s)" % (e, clist(arms))
        if tok == "while":
            self.eat()
            if self.at("let"):
                self.eat()
                p = self.pattern()
                self.eat("=")
                e = self.expr(nostruct=True)
                return "(XWhileLet %s %s %s)" % (p, e, self.block())
            c = self.expr(nostruct=True)
            return "(XWhile %s %s)" % (c, self.block())
        if tok == "for":
            self.eat()
            p = self.pattern()
            self.eat("in")
            e = self.expr(nostruct=True)
            return "(XFor %s %s %s)" % (p, e, self.block())
        if tok == "loop":
            self.eat()
            self.block()
            return "(XUnknown \"loop\")"
        if tok == "return":
            self.eat()
            if self.peek() in (";", "}"):
                return "(XReturn XUnit)"
            return "(XReturn %s)" % self.expr()
        if tok in ("move", "|", "||"):
            if tok == "move":
                self.eat()
            ps = []
            if self.at("||"):
                self.eat()
            else:
                self.eat("|")
                while not self.at("|"):
                    ps.append(self.pattern())
                    if self.at(":"):
                        self.eat()
                        self.skip_type([",", "|"])
                    if self.at(","):
                        self.eat()
                self.eat("|")
            if self.at("->"):
                self.eat()
                self.skip_type(["{"])
            return "(XClosure %s %s)" % (clist(ps), self.expr())
        if tok == "..":
            self.eat()
            return "XRange"
        if k == "num":
            s = self.eat().replace("_", "")
            m = re.match(r"^(\d+)(usize|u\d+|i\d+|isize)?$", s)
            if not m:
                return "(XUnknown %s)" % q("number " + s)
            return "(XNum %s)" % m.group(1)
        if k == "str":
            return "(XUnknown %s)" % q("string literal") if self.eat() else ""
        if k == "chr":
            self.eat()
            return "(XUnknown \"char literal\")"
        if tok in ("true", "false"):
            self.eat()
            return "(XBool %s)" % tok
        if tok == "self":
            self.eat()
            return "XSelf"
        if k == "id":
            segs = [self.eat()]
            while self.at("::"):
                self.eat()
                if self.at("<"):
                    self.skip_generics()
                else:
                    segs.append(self.eat())
            if self.at("!"):                    # a macro invocation
                self.eat()
                close = {"(": ")", "[": "]", "{": "}"}[self.peek()]
                opn = self.eat()
                depth = 1
                inner = 0
                while depth:
                    tk = self.eat()
                    if tk == opn:
                        depth += 1
                    elif tk == close:
                        depth -= 1
                    inner += 1
                if segs == ["vec"] and inner == 1:        # vec![]: the empty vector
                    return "(XPath \"Vec::new\" [])"
                return "(XUnknown %s)" % q("macro " + "::".join(segs))
            name = "::".join(segs)
            if self.at("{") and not nostruct and (segs[-1][0].isupper() or segs[-1][0] == "$"):
                self.eat()
                fs = []
                while not self.at("}"):
                    if self.at(".."):
                        self.eat()
                        fs.append("(%s, %s)" % (q(".."), self.expr()))
                        continue
                    f = self.eat()
                    if self.at(":"):
                        self.eat()
                        v = self.expr()
                    else:
                        v = "(XVar %s)" % q(f)
                    fs.append("(%s, %s)" % (q(f), v))
                    if self.at(","):
                        self.eat()
                self.eat("}")
                return "(XStruct %s %s)" % (q(name), clist(fs))
            if len(segs) == 1 and not segs[0][0].isupper() and not self.at("("):
                return "(XVar %s)" % q(name)
            if self.at("("):
                return "(XPath %s %s)" % (q(name), clist(self.args()))
            return "(XPath %s [])" % q(name)
        raise ParseError("expression at %r" % tok)

    def else_part(self):
        if self.at("else"):
            self.eat()
            if self.at("if"):
                return "[SExpr %s false]" % self.primary(False)
            return self.block()
        return "[]"

    def stmt(self):
        tok = self.peek()
        if tok == ";":
            self.eat()
            return ""
        if tok == "#":                          # an attribute
            self.eat()
            self.eat("[")
            depth = 1
            while depth:
                tk = self.eat()
                depth += tk == "["
                depth -= tk == "]"
            return ""
        if tok == "fn":                         # a function item inside a body: bound like a closure
            self.eat()
            name = self.eat()
            while not self.at("{"):
                self.eat()
            self.block()
            return "(SLet (PVar %s) (XClosure [] XUnit))" % q(name)
        if tok == "let":
            self.eat()
            p = self.pattern()
            if self.at(":"):
                self.eat()
                self.skip_type(["=", ";"])
            if self.at(";"):
                self.eat()
                return "(SLet %s (XUnknown \"uninitialised\"))" % p
            self.eat("=")
            e = self.expr()
            self.eat(";")
            return "(SLet %s %s)" % (p, e)
        e = self.expr()
        if self.peek() in ("=", "+=", "-=", "*=", "/="):
            op = self.eat()
            r = self.expr()
            semi = self.at(";")
            if semi:
                self.eat()
            if op == "=":
                return "(SAssign %s %s)" % (e, r)
            return "(SOpAssign %s %s %s)" % (q(op), e, r)
        if self.at(";"):
            self.eat()
            return "(SExpr %s true)" % e
        return "(SExpr %s false)" % e


def strip_tests(src):
    # the test module at the end of the file (a `#[cfg(test)]` on a single `use` or item further up stays)
    i = src.find("#[cfg(test)]\nmod ")
    return src if i < 0 else src[:i]


def find_matching(toks, i, opn, close):
    depth = 0
    while True:
        t = toks[i][1]
        if t == opn:
            depth += 1
        elif t == close:
            depth -= 1
            if depth == 0:
                return i
        i += 1


def impls(toks):
    """yield (type name, [ (fn name, params, body tokens) ]) for every impl block outside macro_rules"""
    i, n = 0, len(toks)
    while i < n:
        t = toks[i][1]
        if t == "trait" and i + 1 < n and re.match(r"[A-Z]\w*$", toks[i + 1][1]):
            # the default methods of a trait: keyed by the trait's name
            j = i + 1
            while toks[j][1] != "{":
                j += 1
            end = find_matching(toks, j, "{", "}")
            yield toks[i + 1][1], "", list(fns_in(toks, j, end))
            i = end + 1
            continue
        if t == "impl":
            j = i + 1
            # header up to the opening brace of the impl body (where-clauses may contain no braces)
            while toks[j][1] != "{":
                j += 1
            head = [x[1] for x in toks[i + 1:j]]
            end = find_matching(toks, j, "{", "}")
            # the implementing type: after `for` when present, else the first path after the generics
            depth, k, for_at = 0, 0, None
            while k < len(head):
                if head[k] == "<":
                    depth += 1
                elif head[k] == ">":
                    depth -= 1
                elif head[k] == "->":
                    pass
                elif head[k] == "for" and depth == 0:
                    for_at = k
                elif head[k] == "where" and depth == 0:
                    break
                k += 1
            if for_at is not None:
                ty = head[for_at + 1]
                # `for $rc<MergeObserver<O>>`: the cell type is a macro parameter, the struct inside names the impl
                if ty.startswith("$") and for_at + 3 < len(head) and head[for_at + 2] == "<" and re.match(r"[A-Z]\w*$", head[for_at + 3]):
                    ty = "%s<%s>" % (ty, head[for_at + 3])
                trait = next((h for h in head[:for_at] if h[0].isupper() and h not in ()), "")
                # the trait is the last capitalised path segment before `for` at depth 0
                depth, trait = 0, ""
                for h in head[:for_at]:
                    if h == "<":
                        depth += 1
                    elif h == ">":
                        depth -= 1
                    elif depth == 0 and re.match(r"[A-Z]\w*$", h):
                        trait = h
            else:
                depth, ty, trait = 0, "?", ""
                for h in head:
                    if h == "<":
                        depth += 1
                    elif h == ">":
                        depth -= 1
                    elif depth == 0 and re.match(r"[A-Z$]\w*$", h):
                        ty = h
                        break
            yield ty, trait, list(fns_in(toks, j, end))
            i = end + 1
            continue
        i += 1


def fns_in(toks, j, end):
    """the fn items directly inside the braces toks[j] .. toks[end]: (name, parameter names, body tokens)"""
    k = j + 1
    while k < end:
        if toks[k][1] == "fn":
            name = toks[k + 1][1]
            m = k + 2
            if toks[m][1] == "<":
                d = 0
                while True:
                    d += toks[m][1] == "<"
                    d -= toks[m][1] == ">" and toks[m - 1][1] != "-"
                    m += 1
                    if d == 0:
                        break
            pe = find_matching(toks, m, "(", ")")
            params = param_names(toks[m + 1:pe])
            b = pe + 1
            while toks[b][1] not in ("{", ";"):
                b += 1
            if toks[b][1] == ";":
                k = b + 1
                continue
            be = find_matching(toks, b, "{", "}")
            yield name, params, toks[b:be + 1]
            k = be + 1
        else:
            k += 1


def param_names(toks):
    """names of the parameters (self excluded); a pattern parameter is named `_`"""
    out, depth, cur = [], 0, []
    for t in toks + [("op", ",")]:
        s = t[1]
        if s in "(<[":
            depth += 1
        elif s in ")>]":
            depth -= 1
        if s == "," and depth == 0:
            if cur:
                names = [c for c in cur if c not in ("mut", "&", "ref")]
                head = []
                for c in names:
                    if c == ":":
                        break
                    head.append(c)
                if "self" in head:
                    pass
                elif len(head) == 1:
                    out.append(head[0])
                else:
                    out.append("_")
            cur = []
        else:
            cur.append(s)
    return out


def main():
    rows, bad = [], []
    for rel in FILES:
        path = os.path.join(REPO, "src", rel)
        if not os.path.exists(path):
            continue
        try:
            toks = tokenize(strip_tests(open(path).read()))
        except ParseError as e:
            bad.append((rel, str(e)))
            continue
        seen = {}
        for ty, trait, fns in impls(toks):
            for name, params, body in fns:
                key = "%s:%s" % (rel, ty)
                n = seen.get((key, name), 0)
                seen[(key, name)] = n + 1
                if n:
                    key = "%s#%d" % (key, n + 1)
                try:
                    p = P(body)
                    term = p.block()
                    if p.i != len(body):
                        raise ParseError("trailing tokens")
                except (ParseError, IndexError, KeyError) as e:
                    term = "[SExpr (XUnknown %s) false]" % q("unparsed: %s" % e)
                    bad.append((key + "." + name, str(e)))
                rows.append((key, name, params, term))
    rows.sort(key=lambda r: (r[0], r[1]))
    text = "(* GENERATED by tools/gen_bodies.py from /repo/src on every run: do not edit. *)\n"
    text += "From Coq Require Import String List.\nFrom RxModel Require Import RustAst.\nImport ListNotations.\nOpen Scope string_scope.\n\n"
    text += "Definition bodies : list (string * string * (list string * list rs)) := [\n"
    text += ";\n".join("  (%s, %s, (%s,\n     %s))" % (q(k), q(n), clist([q(x) for x in ps]), t) for k, n, ps, t in rows)
    text += "\n].\n"
    if not (os.path.exists(OUT) and open(OUT).read() == text):
        os.makedirs(os.path.dirname(OUT), exist_ok=True)
        with open(OUT, "w") as f:
            f.write(text)
    print("method bodies: %d in %d files; not parsed: %s" % (len(rows), len(FILES), bad if bad else "none"))


main()
