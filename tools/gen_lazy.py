#!/usr/bin/env python3
"""T4: does BUILDING a pipeline do any work?  Every function a pipeline is built with - the source constructors of
   src/observable/*.rs, the default methods of `ObservableExt` (src/observable.rs), and the `new` functions they call in
   src/ops/*.rs - is classified by what its body does:
     KBuild    only constructs and returns a value (struct literal, tuple struct, `Type::new(..)`, `let` bindings of plain data,
               a chain of other building methods on `self`)
     KWork w   the body calls something that runs user code or a source: a parameter of closure type, actual_subscribe /
               subscribe, poll / await / block_on, Scheduler::schedule, an observer method (next / error / complete)
   Writes coq/Gen/Lazy.v : list (string * bool)  (true = KBuild).  The functions that subscribe by definition (subscribe*,
   to_future, to_stream, connect) are listed as such in Props/C13.v, not hidden here."""
import os, re, sys

REPO = sys.argv[1] if len(sys.argv) > 1 else "/repo"
OUT = sys.argv[2] if len(sys.argv) > 2 else os.path.join(os.path.dirname(os.path.dirname(os.path.abspath(__file__))), "coq", "Gen", "Lazy.v")

WORK = re.compile(r"\.actual_subscribe\s*\(|\.subscribe\w*\s*\(|\.poll\w*\s*\(|\.await\b|block_on\s*\(|\.schedule\s*\(|\.next\s*\(|\.error\s*\(|\.complete\s*\(|"
                  r"\.run\w*\s*\(|\.spawn\w*\s*\(|\.connect\s*\(|\.wait\w*\s*\(|\.send\s*\(")


def strip_comments(s):
    s = re.sub(r"//[^\n]*", "", s)
    return re.sub(r"/\*.*?\*/", "", s, flags=re.S)


def balanced(src, i, open_ch="{", close_ch="}"):
    depth, k = 0, i
    while True:
        if src[k] == open_ch:
            depth += 1
        elif src[k] == close_ch:
            depth -= 1
            if depth == 0:
                return k
        k += 1


def functions(body, indent_re):
    """yields (name, signature, body text) of every `fn` whose header matches indent_re"""
    for m in re.finditer(indent_re, body, re.M):
        name = m.group(1)
        # the header runs up to the opening brace of the body or a `;` (a required method without a body)
        k = m.end()
        depth = 0
        while k < len(body):
            c = body[k]
            if c in "(<[":
                depth += 1
            elif c in ")>]":
                depth -= 1 if not (c == ">" and body[k - 1] == "-") else 0
            elif c == ";" and depth <= 0:
                break
            elif c == "{" and depth <= 0:
                break
            k += 1
        if k >= len(body) or body[k] == ";":
            continue
        e = balanced(body, k)
        yield name, body[m.start():k], body[k + 1:e]


def closure_params(sig):
    """names of the parameters whose type is a generic bound by Fn / FnMut / FnOnce, or an `impl Fn..`"""
    gens = set(re.findall(r"\b(\w+)\s*:\s*(?:[\w:<>'\s+]*\b)?Fn(?:Mut|Once)?\s*\(", sig))
    names = set()
    for pm in re.finditer(r"\b(\w+)\s*:\s*(impl\s+Fn(?:Mut|Once)?\b|\w+)", sig):
        n, t = pm.group(1), pm.group(2)
        if t.startswith("impl") or t in gens:
            names.add(n)
    return names - gens


# method calls a building function may contain: the building methods of ObservableExt (filled in by main) and these
ALLOWED = {"clone", "unwrap", "into", "take", "new"}


def classify(sig, body):
    b = re.sub(r"\s+", " ", body).strip()
    m = WORK.search(b)
    if m:
        return False, "calls " + m.group(0).strip(" (.")
    # only the `_at` forms may look at the clock while the pipeline is built (they turn an instant into a duration there)
    fn = re.search(r"fn\s+(\w+)", sig)
    # what a nested function item or a closure does happens when it is called, not when the pipeline is built
    b_own = b
    while True:
        m2 = re.search(r"\bfn\s+\w+[^{;]*\{", b_own)
        if not m2:
            break
        b_own = b_own[:m2.start()] + b_own[balanced(b_own, m2.end() - 1) + 1:]
    b_own = re.sub(r"\|[^|]*\|\s*\{[^{}]*\}", "CLOSURE", b_own)
    b_own = re.sub(r"\|[^|]*\|\s*[^,;)]*", "CLOSURE", b_own)
    if re.search(r"\bInstant\s*::\s*now\b|\bSystemTime\s*::\s*now\b|\.elapsed\s*\(", b_own) and not (fn and re.search(r"_at(_threads)?$", fn.group(1))):
        return False, "reads the clock while the pipeline is built"
    for mm in re.finditer(r"\.(\w+)\s*(?:::<[^>]*>)?\s*\(", b):
        if mm.group(1) not in ALLOWED:
            return False, "calls the method " + mm.group(1) + " (not a building method)"
    for p in closure_params(sig):
        if re.search(r"(?<![\w.])%s\s*\(" % re.escape(p), b) or re.search(r"\(\s*%s\s*\)\s*\(" % re.escape(p), b):
            return False, "calls its closure parameter " + p
    return True, ""


def main():
    rows = []
    ext = strip_comments(open(os.path.join(REPO, "src", "observable.rs")).read())
    i0 = ext.find("pub trait ObservableExt")
    j0 = balanced(ext, ext.find("{", i0))
    for name, _, _ in functions(ext[i0:j0], r"^  fn (\w+)"):
        ALLOWED.add(name)
    # source constructors
    d = os.path.join(REPO, "src", "observable")
    for f in sorted(os.listdir(d)):
        if not f.endswith(".rs") or f == "fake_timer.rs":
            continue
        src = strip_comments(open(os.path.join(d, f)).read())
        t = src.find("#[cfg(test)]")
        src = src if t < 0 else src[:t]
        for name, sig, body in functions(src, r"^pub fn (\w+)"):
            ok, why = classify(sig, body)
            rows.append(("observable/%s:%s" % (f, name), ok, why))
        for name, sig, body in functions(src, r"^  pub fn (new|\w*new\w*)\b"):
            ok, why = classify(sig, body)
            rows.append(("observable/%s:%s" % (f, name), ok, why))
    # the building methods of ObservableExt
    src = strip_comments(open(os.path.join(REPO, "src", "observable.rs")).read())
    i = src.find("pub trait ObservableExt")
    j = balanced(src, src.find("{", i))
    for name, sig, body in functions(src[i:j], r"^  fn (\w+)"):
        ok, why = classify(sig, body)
        rows.append(("observable.rs:ObservableExt::%s" % name, ok, why))
    # the `new` functions of the operators
    d = os.path.join(REPO, "src", "ops")
    for f in sorted(os.listdir(d)):
        if not f.endswith(".rs"):
            continue
        s = strip_comments(open(os.path.join(d, f)).read())
        t = s.find("#[cfg(test)]")
        s = s if t < 0 else s[:t]
        for name, sig, body in functions(s, r"^\s*pub(?:\(crate\))? fn (new|\w*new\w*)\b"):
            ok, why = classify(sig, body)
            rows.append(("ops/%s:%s" % (f, name), ok, why))
    # several `new` in one file: number them
    seen = {}
    out = []
    for k, ok, why in rows:
        seen[k] = seen.get(k, 0) + 1
        out.append((k if seen[k] == 1 else "%s#%d" % (k, seen[k]), ok, why))
    out.sort()
    text = "(* GENERATED by tools/gen_lazy.py from /repo/src on every run: do not edit. *)\n"
    text += "From Coq Require Import String List.\nImport ListNotations.\nOpen Scope string_scope.\n\n"
    text += "Definition table : list (string * bool) := [\n"
    text += ";\n".join('  ("%s", %s)%s' % (k, "true" if ok else "false", ("  (* %s *)" % why) if why else "") for k, ok, why in out)
    text += "\n].\n"
    if not (os.path.exists(OUT) and open(OUT).read() == text):
        os.makedirs(os.path.dirname(OUT), exist_ok=True)
        with open(OUT, "w") as f:
            f.write(text)
    print("building functions: %d; doing work: %s" % (len(out), [(k, w) for k, ok, w in out if not ok]))


main()
