#!/usr/bin/env python3
"""Regenerates MANIFEST.json from the table below (claimed checks) and properties.jsonl."""
import json, os
V = os.path.dirname(os.path.dirname(os.path.abspath(__file__)))
props = [json.loads(l) for l in open(os.path.join(V, "properties.jsonl"))]

TECH = "Coq proof over the hand-written model + differential correspondence check (extracted model/spec vs the crate)"
NOTE = ("Trusted: Coq 8.16.1 kernel, ExtrOcamlBasic extraction + OCaml driver, Rust harness over the crate's public API, "
        "Python generators/diff. The operator machines are hand-transcribed (modelled, not verified) and tied to /repo by "
        "re-executing generated cases on every run.")

CLAIMS = {
 "C03": ("Theorems C03_operator / C03_derived / C03_cold_pipeline / C03_hot_pipeline: every operator machine, every composition "
         "defined in observable.rs, every basic source and every chain of them compute the documented list function, for all "
         "scripts, parameters and closures, cold and hot (no bound). Each run re-executes ~1e5 generated cases (every operator "
         "instance x all scripts <= 4 items x 3 terminals, cold and hot; every source; random chains of depth 2-4 with post-terminal "
         "calls) on the crate and on the extracted model and specification and compares full traces; counts far beyond any script (usize::MAX, "
         "usize::MAX - 1, 2^33) are among the parameters. Tie by TRANSLATION as well (Props/C03src.v): translator T5 parses the method "
         "bodies of every single-input observer (next / error / complete, the helper methods they call, and actual_subscribe of the "
         "operator) from /repo/src on every run into syntax trees; an evaluator written in Coq (Model/RustSem.v) gives them their meaning; "
         "C03_source_next / C03_source_terminal / C03_source_subscribe: for every operator, every state (take_last: every reachable state), "
         "every item and error value, the translated body computes exactly the machine's new state and output; "
         "C03_source_runs_like_the_machine / C03_source_meets_spec: subscribing through the translated actual_subscribe and driving the "
         "translated observer with ANY call sequence yields run_op, hence the documented list function; C03_source_derived_compositions: the "
         "default methods of ObservableExt that define first, first_or, last_or, element_at, ignore_elements, all, reduce_initial, max, min "
         "build exactly the operator values of Derived.expand, in that order and with those counts. A change to any of these bodies "
         "breaks a tie theorem (reported with the failing input when the case run finds one, else no-failing-input-found). A harness process "
         "that dies (failed allocation, stack overflow) is narrowed down to the case that kills it, which becomes the failing input. "
         "average's float multiply is modelled, not verified.", "DESIGN.md section 5 C03 and 11.11"),
 "C04": ("Theorem C04_combinators: each of merge, zip, combine_latest, with_latest_from, take_until, skip_until, sample, buffer, as a "
         "state machine over an arbitrary merged timeline, equals its streaming definition (what each arrival releases, where the output "
         "ends) and is silent afterwards (C04_silent_after_end); closed forms for merge and take_until. Each run executes all pairs of "
         "scripts <= 3 items x all interleavings x local and _threads forms, plus cold inputs in every position, on the crate; and the "
         "_threads forms driven by two or three real threads under every schedule with <= 2 context switches at mutex granularity: what is "
         "delivered must be the definition's output for some merge of the threads' calls (linearizability). Tie by TRANSLATION as well "
         "(Props/C04src.v): the method bodies of the observers handed to the two inputs of all eight operators - impl blocks inside the "
         "macros included - are parsed from /repo/src on every run (T5) and evaluated in Coq (Model/RustSem.v; shared cells modelled as "
         "their content, both observers holding the same); C04_source_step: for every shared state, either input and every notification, "
         "one call leaves exactly the machine's state in the cell and sends on exactly the machine's output; "
         "C04_source_runs_like_the_machine: any merged timeline.", "DESIGN.md section 5 C04 and 11.11"),
 "C06": ("Theorem C06_subject_refines: for every history (any length, any number of subscribers) of subscribe / unsubscribe-one / "
         "next / next-with-subscription-inside-a-callback / error / complete / clone / retain / unsubscribe-subject and queries, the "
         "observers+chamber implementation model yields exactly the deliveries and answers of the abstract multicast set (refinement with "
         "an abstraction function); C06_closed_reports / C06_closed_for_ever: after a terminal or unsubscribe the subject is finished, "
         "empty and silent for ever. One model serves Subject, SubjectThreads and the three MutRef subjects (one macro body); each run "
         "executes all histories <= 4 operations (18 kinds) plus 50k random longer ones on all five real types. Thread interleavings of "
         "SubjectThreads: a lock-level model with the shared state (Ileave.v) is run against real threads under explicit schedules - every "
         "schedule with <= 3 context switches for 15 sets of 2-3 thread scripts plus random ones, each thread parked before every mutex "
         "through a hook - compared acquisition by acquisition and judged by exactly-once / common order / nothing lost / nothing after "
         "unsubscribe. For ALL schedules, any number of threads and any scripts, over that model: C06_threads_values (nothing invented), "
         "C06_threads_once_in_common_order (each emission at most once per subscriber, all subscribers in one common order), "
         "C06_threads_terminal_is_last, C06_threads_nothing_after_unsubscribe (hypotheses: probe names subscribed once; an unsubscription "
         "names a probe subscribed by the setup or earlier in the same script - both evaluated on every generated case), and the "
         "completeness half: C06_threads_current_subscriber_sees_everything (a subscriber there from the start that never left gets every "
         "emission that reaches anybody), C06_threads_current_subscriber_at_any_moment (mid-run: all but the one emission in progress), "
         "C06_threads_no_emission_lost (every next() of every script arrives unless the subject was terminated).", "DESIGN.md section 5 C06"),
 "C12": ("Theorems C12_behavior_refines / C12_value_is_latest / C12_hands_latest: for every sequential history of next / next_by / clone / "
         "subscribe / unsubscribe / peek / complete / error (any length), the subject-plus-value-cell model equals the abstract 'multicast "
         "set + most recent value'; the stored value is the last one passed to next/next_by through any handle (or the initial one); a new "
         "subscriber is handed it first, peek returns it, next_by applies its function to it. Each run executes all histories <= 4 operations "
         "(15 kinds) and 30k random ones on BehaviorSubject over Subject and over SubjectThreads. Concurrent producers over the thread-safe "
         "subject: the lock-level model (Ileave.v) against real threads under every schedule with <= 3 context switches for 9 sets of "
         "scripts (two producers; a producer and a joining subscriber; peek) plus random ones, judged by 'the stored value is the one "
         "delivered last in the common order' and 'a joiner is handed the latest value and then every later item'. Both fail on the crate "
         "as it is - store and broadcast are separate critical sections - KNOWN FINDING C12-behavior-race (C12_concurrent_refuted is its "
         "witness in the model). Where the crate does satisfy the clauses, for ALL schedules: C12_latest_with_one_producer / "
         "C12_stored_value_with_one_producer (at most one thread calls next: the stored value is the one delivered last), "
         "C12_joiner_on_the_producer_thread.", "DESIGN.md section 5 C12"),
 "C20": ("Theorems C20_announces / C20_group_trace / C20_flatten / C20_outer_term / C20_announced_first: for every script, key function "
         "and terminal, the group_by machine announces one group per distinct key in order of first appearance, each before anything is "
         "delivered through it; the subscriber of group k sees exactly the items of key k in source order and then the source's terminal "
         "once; the stream of groups gets the terminal once; flattening reproduces the source. Each run executes all scripts <= 5 items over "
         "4 values x 4 key functions x Subject/SubjectThreads groups x hot/cold sources on the crate, judges the implementation's trace with "
         "the extracted predicates and compares it with the model's; plus a key function with a state of its own, take(N) on the stream of "
         "groups, and a consumer that leaves the group of one key without a subscriber (announced once all the same).", "DESIGN.md section 5 C20"),
 "C05": ("Theorems over every stimulus sequence (outer items that are synchronous or hot inner observables, terminals, hot inner "
         "notifications in any order) and every limit >= 1 or unbounded: C05_limit (never more than n inner observables subscribed at any "
         "instant, on the observable subscribe/complete trace), C05_downstream_wf, C05_done_not_early / C05_done_not_late (completion exactly "
         "when the outer stream and all inner observables have completed), C05_count_exact, C05_no_stuck (the nested subscription cascade "
         "started from an inner completion terminates; on the pinned tree that scenario panicked / dead-locked and was repaired by a fix: "
         "commit). Each run executes all stimulus sequences <= 5 steps with <= 3 inners for merge_all(1|2|3|MAX), concat_all, flatten, "
         "flat_map, concat_map in both forms plus 40k random longer ones, compares the full per-stimulus trace (inner subscriptions, "
         "completions, tagged items, terminal, panic/hang) with the model and judges it with the extracted predicates (limit, grammar, "
         "outer order, completion exactly when done / no starvation, items exactly once). C05_items_exactly_once (every notification of a subscribed "
         "hot inner observable owes exactly one item per subscription, a synchronous inner observable its whole script, and no item occurs that "
         "is not owed - walked with a state computed from stimuli and subscription events only), C05_subscribed_in_outer_order, "
         "C05_concat_keeps_outer_order (limit 1: no other inner observable's item inside an inner observable's turn). Two or three real threads "
         "driving the outer stream, hot inner observables and an unsubscription of merge_all_threads under every schedule with <= 2 context "
         "switches: no deadlock / panic / hang, grammar, every inner observable's items at most once and in order; with a sequential prologue "
         "(two running inner observables ending on two threads while synchronous ones wait for a slot): everything arrives and the output "
         "completes. Tie by TRANSLATION (Props/C05src.v): the default methods merge_all(n), concat_all, flatten, flat_map, concat_map and "
         "their _threads forms, parsed from /repo/src on every run (T5) and evaluated in Coq, build one MergeAllOp / MergeAllOpThreads - behind "
         "a MapOp for the map forms - with the limit the machine is run with (n; 1; usize::MAX): C05_source_limits.", "DESIGN.md section 5 C05 and 11.11"),
 "C19": ("Theorems on the scheduler bookkeeping model (Remote::poll, the delay/timer stages of Scheduler::schedule, RepeatTask, "
         "TaskHandle) for one task followed through EVERY sequence of polls, clock advances, cancellations and queries: C19_once_at_most_once, "
         "C19_never_before_delay, C19_repeat_ticks (consecutive sequence numbers, first tick >= one period after scheduling, later ticks >= "
         "one period apart, none after the function declined), C19_quiet_after_cancel_or_closed (never runs after unsubscribe(), and a handle "
         "reports closed only when the task cannot act). Each run schedules raw OnceTask / RepeatTask / subscribing tasks on the real "
         "Scheduler::schedule through the crate's hook scheduler under a virtual clock: every label sequence <= 6 for one task of each of 7 "
         "kinds plus 40k random multi-task interleavings; full trace compared with the model and judged by the extracted predicate raw_ok. "
         "PARTIAL: 'is not still running when unsubscribe() returns' across threads is not modelled (single-threaded polls only); the real "
         "LocalPool/ThreadPool are represented by the choice of poll labels. The model's one assumption about the real timer - new_timer(d) "
         "is not ready before d has elapsed - is run against the crate built WITH its timer feature (harness_rt): timer(d) and interval(d) on "
         "a LocalPool for 44 cases (timer, interval, delay, delay_subscription x 11 delays) from 0 to beyond 2^64 microseconds (beyond u32 milliseconds / u32 seconds included): never early.",
         "DESIGN.md section 5 C19"),
 "C07": ("Theorems over the timed system for EVERY label sequence (input notifications, polls of any task at any time and in any order, clock "
         "advances of any size, unsubscribe, queries): C07_delay / C07_observe_on (every delivery is the polled task's own notification, no "
         "earlier than arrival + delay, at most once, never after a terminal or after unsubscribe; delay forwards an error at once), "
         "C07_delay_subscription / C07_subscribe_on (the input's own notifications, none before the delay, none after unsubscribe), "
         "C07_delay_order / C07_observe_on_order (the t-th task carries the t-th relayed notification; whenever tasks are run in scheduling "
         "order - a FIFO executor - the deliveries are a sub-sequence of the input in input order), C07_delay_fifo_complete / "
         "C07_observe_on_fifo_complete (a FIFO executor polling as timers fall due delivers everything, in order, each exactly the delay "
         "late), C07_delay_complete / C07_observe_on_complete (under EVERY executor: a notification whose task is polled when it is due - no "
         "delay, or the timer its first poll created has elapsed - while the subscriber still listens is delivered by that very poll, and a "
         "directly forwarded error by the call that brought it: nothing is lost, whatever the polling order), "
         "C07_delay_subscription_complete / C07_subscribe_on_complete (once the subscribing task has been polled when due, every notification "
         "of the input reaches the subscriber in the call that brings it), "
         "C07_delay_error_prefix (a failing source: the error at once and nothing else), plus the single-task theorems "
         "C07_never_early / _at_most_once / _not_after_unsubscribe. The same predicates judge every implementation trace, and full traces are "
         "compared with the timed model: all label sequences <= 4 plus 4k random ones per operator and form on the crate's hook scheduler with a "
         "virtual clock, and the _at forms' requested durations. Order preservation is NOT claimed for executors that run ready tasks out of "
         "order: it does not hold (C07_example_unordered_polls_reorder), each notification being an independent task; the real ThreadPool is "
         "not run.", "DESIGN.md section 5 C07"),
 "C08": ("Theorems over EVERY label sequence (polls of any task at any time, clock advances of any size, unsubscribe, downstream finishing): "
         "C08_interval / C08_interval_at (consecutive integers, first not before one period / the given instant, later ones at least one period "
         "apart, never after unsubscribe), C08_interval_prompt / C08_interval_at_prompt / C08_interval_at_prompt_now (polled as the timers fall due: "
         "exactly one period apart, interval_at's first tick exactly at the given instant, or at the first poll when the instant has been reached), "
         "C08_prompt_case_exact (the exact observation the oracle demands on those label sequences is the model's), C08_timer_complete (the timer's "
         "task polled when due, before unsubscribe, delivers the item and the completion in that poll), C08_timer (the item "
         "once, not before the due time, then completion), C08_async_prefix / C08_async_complete / C08_future_complete / C08_async_silent_after_unsub (from_future / "
         "from_stream and the _result forms relay exactly what the scripted future / stream yields, then terminate). These predicates are proved "
         "of the timed model by simulation and evaluated on every implementation trace; full traces are compared with the model on 390k cases. "
         "The crate's real timer (feature on, harness_rt) is run on 44 cases (timer, interval, delay, delay_subscription x 11 delays) from 0 to beyond 2^64 microseconds: timer / interval never early.",
         "DESIGN.md section 5 C08"),
 "C09": ("Theorems over the timed system for EVERY label sequence (input notifications, polls of any task at any time and in any order, clock "
         "advances of any size, unsubscribe, queries): C09_debounce / C09_throttle (all three edges) / C09_*_subsequence (what is delivered "
         "is a sub-sequence of the accepted input: no invented, duplicated or reordered item, nothing after a terminal or unsubscribe; on "
         "completion the last input item is delivered last - debounce, throttle with a trailing edge), C09_buffer_with_time / "
         "C09_buffer_with_count_and_time (buffers non-empty, within the count limit, their concatenation a prefix of the input, the whole input "
         "once completed), exactness under an executor that runs as timers fall due: C09_debounce_spaced, C09_debounce_burst, "
         "C09_throttle_leading_exact / _trailing_exact / _both_edges_exact / _completion_flushes (first item of a window on the leading "
         "edge, last one on the trailing edge), C09_buffer_windows, C09_buffer_count_windows; plus the window-task theorems (fires at most once, never before the window has "
         "elapsed, never once cancelled, flushes a window apart). The same predicates judge every implementation trace and full traces are "
         "compared with the timed model (debounce, throttle x 3 edges, buffer_with_time, buffer_with_count_and_time; all label sequences <= 4 plus "
         "random ones with gaps <, =, > the window), two overlapping subscriptions of one operator value, zero-length windows; throttle_time on a real "
         "thread pool with the real timer, an item arriving while the window task hands over the trailing item (source order, at most once). "
         "sample(notifier) is decided under C04.", "DESIGN.md section 5 C09"),
 "C02": ("Theorem C02_timed: for each of delay, observe_on, delay_subscription, subscribe_on, debounce, throttle (3 edges), "
         "buffer_with_time, buffer_with_count_and_time, interval, interval_at, timer, for EVERY label sequence before the unsubscription (input "
         "events, polls of any task in any order, clock advances) and EVERY one after it, no subscriber call occurs from the unsubscribe "
         "label on (proved with an invariant 'every task that can still reach the subscriber is covered by the returned subscription' and "
         "its preservation by every label). C02_chain_incremental / C02_op2_incremental / C02_flatten_silent for the untimed pipelines, where "
         "unsubscribing empties the inputs' Subscriber slots. Each run injects unsubscribe() or a guard drop at every position of 66k cases: "
         "14 timed operators with all tasks polled in random orders afterwards, every single-input operator, the 8 combinators with all "
         "interleavings, the flattening operators with hot inner observables emitting afterwards; traces judged by 'nothing after the "
         "unsubscribe' and compared with the model. On the pinned tree throttle with a trailing edge delivered after unsubscribe (fixed, "
         "50c4f28). The _threads clause: C02_threads_subject (lock-level model of SubjectThreads, ANY schedule: no call of a subscriber after its "
         "unsubscribe() returned); an unsubscribing thread against emitting threads on SubjectThreads under every schedule with <= 3 "
         "context switches (lock-level model Ileave.v against real threads parked before every mutex), judged by 'no call of the subscriber "
         "after its unsubscribe() returned'; likewise an unsubscribing thread against emitting threads on the two-input _threads operators, "
         "merge_all_threads and finalize_threads. share()/ref_count is decided under C11. Tie by TRANSLATION as well (Props/C02src.v): Subscriber / SubscriberThreads - the slot that stands "
         "between every hot source and the observer it was given, and that subscribing to a Subject returns - parsed from /repo/src on every run "
         "(T5) and evaluated in Coq is the two-state slot machine (C02_source_subscriber); for every history of calls through any clone, "
         "once unsubscribe() has returned nothing is delivered (C02_source_silent_after_unsubscribe).",
         "DESIGN.md section 5 C02"),
 "C17": ("Theorems: C17_closed_sound (every scheduler-using operator / time source, every reachable state: is_closed() = true implies no "
         "subscriber call under any continuation); for the subscription algebra under EVERY history of append / unsubscribe / is_closed / leaf "
         "termination: C17_late_additions (a leaf appended to an unsubscribed composite is torn down at once), C17_algebra_closed_sound "
         "(closed implies every held leaf dead), C17_closed_stable (closed stays closed except for an append to a never-unsubscribed "
         "composite) and C17_monotone_refuted (that exception exists: an empty MultiSubscription reports closed and is re-opened by append: "
         "KNOWN FINDING C17-multi-reopen). On the pinned tree ZipSubscription::is_closed looked at one half only and MultiSubscription::append "
         "dropped late additions: both fixed (b95a8c5, b095778). Each run executes all composite histories <= 4 operations (22 kinds) on "
         "MultiSubscription/ZipSubscription and their _threads forms, and is_closed() sampled after every label on 12 timed operators, judged by "
         "the extracted predicates alg_ok / closed_sound_ok and compared with the model. PARTIAL: ref-count and finalizer subscriptions are "
         "decided under C11 / C15. A subscribing task on a pool thread while its handle is unsubscribed from another thread: nothing is "
         "delivered once unsubscribe() has returned; unsubscribe() against an item that another thread is handing to a slow scheduler "
         "(debounce, delay_threads, throttle_time, observe_on_threads with real timers). Tie by TRANSLATION (Props/C17src.v, PARTIAL): "
         "MultiSubscription parsed from /repo/src on every run (T5) and evaluated in Coq, its iterator closures run element by element, is "
         "the composite machine for composites of up to three members (C17_source_composite_partial); of the machine: a late addition is "
         "unsubscribed at once, an unsubscribed composite says closed.", "DESIGN.md section 5 C17 and 11.11"),
 "C01": ("Theorems: C01_pipeline_grammar (for every pipeline tree of any depth built from subjects - the same one possibly several times - cold "
         "sources, chains of single-input operators and two-input operators, and every sequence of calls on the subjects, calls after a terminal "
         "and repeated terminals included: the trace reaching the subscriber is items, at most one terminal, nothing after), with the "
         "compositionality equations C01_chain_on_subtree / C01_two_inputs_on_subtrees, C01_two_inputs_any_timeline (any state, any merged "
         "timeline), C01_flattening (merge_all family, any outer/inner behaviour), C01_groups (every group of group_by), C01_closure_idiom / "
         "_grammar (.on_error(f).on_complete(g).subscribe(h) sees exactly the trace). Each run executes ~2e4 (thorough 2.5e5) random trees of depth "
         "<= 3 (4) with adversarial call sequences on the real crate, with the probe and with the closure idiom, judges the implementation's "
         "trace with the grammar predicate and compares it with the model's execution of the same tree. Scheduler-using operators and time "
         "sources: C01_timed_grammar (delay, observe_on, delay_subscription, subscribe_on, debounce, throttle, buffer_with_time, "
         "buffer_with_count_and_time, interval, interval_at, timer between a hot input and the subscriber, EVERY label sequence - polls in any "
         "order, input events after its terminal, late timers) and C01_timed_predicates_imply_grammar (every trace accepted by the predicates "
         "that judge the implementation under C02 / C07-C09 has the shape), C01_timed_inside_a_pipeline (any pipeline tree in front of such an "
         "operator, any chain behind it); each run also executes ~400 (6000) pipelines with one operator in front of and one behind a "
         "scheduler-using operator and compares them with the composition of the chain model, the timed model and the back channel. The "
         "subscriber built from closures is tied to the source by TRANSLATION as well (Props/C01src.v): the three observers of "
         ".on_error(f).on_complete(g).subscribe(h), parsed from /repo/src on every run (T5) and evaluated in Coq, hand each notification to "
         "exactly the closure meant for it and call nothing else (C01_source_idiom_call), so that for any call sequence the closures see "
         "idiom_log of it (C01_source_idiom_run).", "DESIGN.md section 5 C01"),
 "C10": ("Theorems over the stateful lock-level model of SubjectThreads / BehaviorSubject (Ileave.v), any number of threads, any scripts, ANY "
         "schedule at mutex granularity: C10_subject_never_stuck / C10_subject_no_deadlock (in every configuration some unfinished thread can "
         "move), C10_subject_no_panic, C10_subject_callbacks_exclusive, C10_subject_common_order. Theorems over a discipline-level model (threads = programs of lock / unlock / enter-callback / leave-callback actions, any schedule): "
         "C10_no_deadlock (programs that lock only upwards in the rank order upstream -> downstream, observer list -> chamber -> subscriber "
         "cells, and unlock in reverse order never deadlock: any number of threads, any programs, any schedule), C10_callbacks_are_exclusive "
         "(no subscriber's callback is ever running on two threads), C10_subject_next_disciplined (for any number of subscribers) / "
         "_subscribe_unsubscribe_ / _two_input_disciplined (the crate's operations are such programs), C10_cancel_waits_for_running_poll over "
         "all executions of Remote::poll against TaskHandle::unsubscribe, with the refutation of the variant that lets go of the mutex. The "
         "programs are tied to the crate by recording, through a hook in MutArc, the mutexes every operation locks and comparing them with the "
         "model's acquisitions; real-thread stress runs check overlap, common order and termination on seven pipelines. Schedule enumeration "
         "on real threads: a stateful lock-level model of SubjectThreads / BehaviorSubject (Ileave.v: observer list, chamber, subscriber cells, "
         "value cell, who holds what) is run against real threads driven by a cooperative controller through the lock_gate hook: every "
         "schedule with <= 3 context switches (2 for three threads) for 24 sets of scripts (next, complete, error, subscribe, unsubscribe, "
         "unsubscribe the subject, peek) plus random schedules; every acquisition and callback is compared with the model and the trace is "
         "judged for deadlock, panic, overlapping callbacks, common order, exactly-once. The same controller drives merge_threads, "
         "zip_threads, combine_latest_threads, with_latest_from_threads, take_until_threads, skip_until_threads, sample_threads, "
         "merge_all_threads(1|2|unbounded), share_threads (subscribers joining and leaving) and finalize_threads pipelines with 2-3 threads, an unsubscribing one included (deadlock, panic, "
         "a call that does not return, overlap, grammar, silence after unsubscribe; two-input operators tied to the sequential model by "
         "linearizability). PARTIAL: the stateful model with theorems for all schedules covers the subjects; observe_on and delay "
         "pipelines (their tasks live in an executor) are covered by the stress runs and the general theorems only; the lost-wake-up clause "
         "is C14_no_lost_wakeup.", "DESIGN.md section 5 C10"),
 "C11": ("Theorems (share / publish built on the subject machine of C06, upstream a counted subscription and a tap): "
         "C11_source_subscribed_at_most_once (any history, any number of subscribers, hot or cold source), C11_nothing_before_connection "
         "(publish: nothing is subscribed, driven or delivered before connect(); share: before the first subscriber), C11_multicast (an "
         "emission reaches exactly the subscribers present, in joining order), C11_released_after_last_leaver (for the machine that lets go of "
         "its source when the last subscriber leaves, nothing flows afterwards whatever happens) and C11_still_driven_refuted: the code as it "
         "is does not let go (KNOWN FINDING C11-still-driven). Each run executes all histories <= 5 (thorough 6) of subscribe / unsubscribe / "
         "source calls / connect / is_closed for share and publish over a hot source, all histories <= 4 over six cold scripts and random longer "
         "ones with three subscribers, local and _threads forms, and compares every observation with the specification (ideal machine) and the "
         "model (code as it is); the 1% of cases where they differ are the recorded finding. share_threads with subscribers joining and "
         "leaving from two or three real threads while the source emits, under every schedule with <= 3 context switches at mutex "
         "granularity: the source is connected at most once, every subscriber sees a sub-sequence of what passed the upstream tap.", "DESIGN.md section 5 C11"),
 "C14": ("Theorems: C14_future_outcome_and_readiness (items interleaved with polls in any way, then the terminal: every earlier poll is pending, "
         "the first later poll is ready with the documented outcome - Empty, the item, MultipleValues, the source's error), "
         "C14_stream_yields_everything_then_ends, C14_status_flag, C14_no_lost_wakeup with C14_all_interleavings (each of the 10 interleavings of "
         "the producer's store / wake with the waiter's check / register / re-check leaves the waiter returned or woken), and the three "
         "refutations of the pinned code (a failed source never resolved the future, never ended the stream; wait_for_end could sleep for ever) - "
         "all three repaired by fix: commits. Each run executes every label sequence <= 6 (thorough 8) over {items, complete, error, poll} on "
         "to_future and to_stream and the completion-status cases with the terminal placed before / inside (through a hook) / after the waiter's "
         "check-then-register window; to_stream consumed by a task that runs whenever it is woken, also with somebody else polling in between "
         "with a waker of its own (the task's next poll must register the task's waker again; waking the earlier waker as well is allowed). "
         "PARTIAL: real two-thread schedules other than that window are sampled, not enumerated; the channel and "
         "AtomicWaker are modelled.", "DESIGN.md section 5 C14"),
 "C13": ("Theorems: C13_building_performs_no_work, C13_no_shared_cell_in_pipeline_values (a table of every struct of /repo/src that implements Observable, with its field "
         "types, regenerated on every run: none but subjects / share / complete_status carries Rc, Arc, RefCell, Cell, Mutex or an atomic), "
         "C13_subscription_is_pure, C13_successive_subscriptions_agree, C13_nested_subscriptions_agree (with every operator's state created "
         "per subscription - a model with an explicit heap of cells reachable from the pipeline value - any number of successive subscriptions "
         "of clones, and a subscription made from inside a callback of another, yield the pure run and leave the heap untouched), "
         "C13_shared_state_would_break_it (the hypothesis is necessary). Each run builds pipelines over counting sources (of_fn, start, defer, "
         "create, from_iter), reads the counters before any subscription (laziness) and after 2-3 successive or nested subscriptions of clones, "
         "and compares every subscription's trace with the model; two overlapping subscriptions of clones of one scheduler-using operator "
         "value (delay, observe_on, debounce, buffers, delayed subscription) are compared with two independent timed systems. The table's "
         "notion of 'shared cell' includes the crate's own sharing types and aliases (MultiSubscription, TaskHandle, RcHandler ...). "
         "C13_building_performs_no_work: a second table regenerated on every run classifies the body of every function a pipeline is built "
         "with (136: source constructors, ObservableExt's default methods, the operators' `new`): none calls a closure parameter, subscribes, "
         "polls, schedules or calls an observer, nor any method that is not itself a building method of ObservableExt (clone / into / new aside), "
         "except the two conversions that subscribe by definition (to_future, to_stream). C13_no_process_wide_state: the list of every "
         "`static` item of the crate (regenerated on every run) holds only the timer function installed once and the verification hooks' "
         "registers. The counting sources include from_iter over a collection whose into_iter() counts; throttle_time is among the operators "
         "subscribed twice. PARTIAL: futures are not exercised dynamically; the laziness table is syntactic.", "DESIGN.md section 5 C13"),
 "C18": ("Theorems: C18_same_notifications / C18_same_outcome_when_finished (a macro body seen as a sequence of cell acquisitions, releases and "
         "downstream calls delivers the same notifications with RefCell cells and with Mutex cells in one thread; both finish or both fail - the "
         "local form by a panic, the thread-safe one by never returning), C18_both_forms_share_one_body and C18_written_twice_is_reviewed (tables "
         "regenerated on every run from the macro instantiations of /repo/src: each two-form operator, the subjects, subscribers, boxed observables "
         "and composite subscriptions are two instantiations of one macro body; the thread-safe types written separately are the three reviewed "
         "ones). Each run executes the case sets of the other checks twice on the crate - local types and operators, then all of them replaced by "
         "their thread-safe counterparts - and compares the two observations item by item. The theorem is about cell discipline only: that the two "
         "instantiations compute the same function otherwise rests on their being one macro body (checked) and on the direct comparison.",
         "DESIGN.md section 5 C18"),
 "C16": ("Theorems: C16_source_agrees_single / _double and C16_no_constant_answers (the model's back channel equals a table regenerated on "
         "every run from every `fn is_finished` body of /repo/src; no observer but the final subscriber answers a constant), "
         "C16_every_observer_forwards, C16_cut_reaches_producer (an early end anywhere in any chain of single-input operators, or behind either "
         "input of any two-input operator, makes the producer's observer report finished), C16_finished_stays_finished, "
         "C16_iterator_stops_at_cut / C16_iterator_never_pulls_when_finished (from_iter pulls nothing after the item that ended the stream, for "
         "iterators of any length), C16_stream_stops_when_finished (from_stream stops polling and its task ends), "
         "C16_interval_retires_within_one_period (+ C16_task_finishes_when_function_declines from the scheduler model). Each run executes a "
         "counting iterator, a scripted stream and an interval (hook scheduler, virtual clock) in main position and as either input of each "
         "two-input operator, in front of chains made of 9 cutting operators x 30 intermediates (before / after) and random deeper chains, local "
         "and _threads forms, and compares pulls / task liveness / trace with the model; flat_map / concat_map over of(v) and group_by followed "
         "by flat_map are among the intermediates (identity nodes in the model: the back channel must pass through them). Scheduler-moving "
         "operators between producer and cutter are covered by the static table only (behind them the stream ends in a later task). A chain "
         "of single-input operators BETWEEN the iterator and its input of a two-input operator (skip, element_at, filter, take_last, ...), with "
         "the stream ended from the side by the other input: nothing more is pulled (run_iter_case_pre).", "DESIGN.md section 5 C16"),
 "C15": ("Theorems: C15_exactly_once_right_after (for every sequence of items, completes, errors and unsubscriptions, each repeated at will, "
         "with finalize alone or with take(n) before or after it: the callback runs in the segment of the first trigger - first unsubscription, "
         "first terminal reaching the operator, or the item completing an upstream take - as the last thing there, and nowhere else), "
         "C15_at_most_once, C15_once_when_unsubscribed, C15_once_when_terminated, C15_never_before; C15_race_once / C15_race_at_most_once: "
         "for finalize_threads, any interleaving of any number of threads each taking the shared cell runs the callback exactly once, in the "
         "first take. Each run executes every stimulus sequence <= 5 (thorough 7) over a subject and every create() script <= 4 (6), 7 "
         "shapes, finalize and finalize_threads, explicit unsubscribe and dropped guard, with the callback's position observed through "
         "per-stimulus markers, judged by the extracted predicate and compared with the model. The racing clause on real threads: "
         "finalize_threads with a terminating, an unsubscribing and a second terminating thread under every schedule with <= 2 context "
         "switches (threads parked before every mutex and inside the callbacks): the callback exactly once, not before the terminal it "
         "follows was delivered. The atomicity of the take (Mutex in MutArc) is modelled in the theorem, exercised by those schedules. Tie by "
         "TRANSLATION as well (Props/C15src.v): the bodies of FinalizerObserver and FinalizerSubscription parsed from /repo/src on every run "
         "(T5) and evaluated in Coq are the machine's steps, with the callback and the upstream subscription as observed calls: the terminal "
         "is handed on first and then the callback runs, the upstream subscription is unsubscribed first and then the callback runs, whoever "
         "takes the callback empties the cell (C15_source_observer, C15_source_unsubscribe).", "DESIGN.md section 5 C15 and 11.11"),
}

TECH_OF = {
 "C15": "Coq proof over the hand-written finalize machine, tied to the source by translation (the observer's and the subscription's method "
        "bodies parsed from /repo/src on every run and evaluated in Coq are the machine's steps, order of callback and hand-over included) "
        "and by differential correspondence (extracted model/spec vs the crate, real threads under enumerated schedules)",
 "C04": "Coq proof over a model tied to the source twice: by translation (the two-input observers' method bodies parsed from /repo/src on every "
        "run and evaluated in Coq equal the model's machines, for all states, inputs and notifications) and by differential correspondence "
        "(extracted model/spec vs the crate, real threads under enumerated schedules for the thread-safe forms)",
 "C03": "Coq proof over a model tied to the source twice: by translation (the observers' method bodies parsed from /repo/src on every run and "
        "evaluated in Coq equal the model's machines, for all states and inputs) and by differential correspondence (extracted model/spec vs the crate)",
 "C16": "Coq proof over the hand-written model, its back channel tied to a table translated from every `fn is_finished` of /repo/src on every "
        "run, + differential correspondence check (extracted model/spec vs the crate)",
 "C13": "Coq proof over the hand-written heap model, tied to tables translated from /repo/src on every run (fields of every observable struct, "
        "bodies of every building function, every static item) + differential correspondence check with counting sources",
 "C18": "Coq proof over the cell-discipline model, tied to a table of macro instantiations translated from /repo/src on every run, + both forms "
        "of every case of the other checks run on the crate and compared",
}

checks = []
for pid, (text, ref) in sorted(CLAIMS.items()):
    checks.append({
        "property_id": pid,
        "quick_cmd": "./check %s --tier quick" % pid,
        "thorough_cmd": "./check %s --tier thorough" % pid,
        "evidence_file": "/verif/evidence/%s.json" % pid,
        "replay_cmd_template": "./check %s --replay {path}" % pid,
        "engine": "coq-model+correspondence",
        "technique": TECH_OF.get(pid, TECH),
        "level_claimed": {"category": "proof", "text": text, "design_ref": ref},
        "level_note": NOTE,
    })

hooks_commits = [l.strip() for l in open(os.path.join(V, "hooks_commits.txt"))] if os.path.exists(os.path.join(V, "hooks_commits.txt")) else []
man = {
    "version": 1,
    "setup_cmd": "./setup.sh",
    "hooks": {"guard": "--cfg rxrust_verif",
              "enable": "RUSTFLAGS=\"--cfg rxrust_verif\" cargo build --release --offline in /verif/harness (path dependency on /repo)",
              "baseline_off_cmd": "cd /repo && cargo test --workspace --no-fail-fast --offline",
              "source_commits": hooks_commits, "add_only": True},
    "engines": [{"name": "coq-model+correspondence", "path": "/verif/coq", "serves_properties": sorted(CLAIMS),
                 "kind_free_text": "Coq 8.16 model, specifications and proofs (coq/); extracted OCaml runner (ocaml/); Rust harness on the real crate (harness/); Python generators and diff (lib/)"}],
    "checks": checks,
    "not_applicable": [{"property_id": p["id"], "reason": "no check registered at this commit: the model and harness for it are not built yet (plan in DESIGN.md section 5); no claim is made"}
                       for p in props if p["id"] not in CLAIMS],
    "notes": "See DESIGN.md. Known and fixed findings: known_findings.json. Seeded changes used to test the checks: seeded/.",
}
json.dump(man, open(os.path.join(V, "MANIFEST.json"), "w"), indent=1)
print("claimed:", sorted(CLAIMS))
