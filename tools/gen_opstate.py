#!/usr/bin/env python3
"""T2: which observable/operator *values* (the structs that implement Observable, i.e. what a
   pipeline is built from and what Clone copies) carry a shared mutable cell?  Writes
   coq/Gen/OpState.v : list (string * bool)  (key "<file>:<struct>", true = some field's type
   mentions Rc / Arc / MutRc / MutArc / RefCell / Cell / Mutex / RwLock / Atomic*)."""
import os, re, sys

REPO = sys.argv[1] if len(sys.argv) > 1 else "/repo"
OUT = sys.argv[2] if len(sys.argv) > 2 else os.path.join(os.path.dirname(os.path.dirname(os.path.abspath(__file__))), "coq", "Gen", "OpState.v")
SHARED = re.compile(r"\b(Rc|Arc|MutRc|MutArc|RefCell|Cell|Mutex|RwLock|Atomic\w*|\$rc)\b")


def strip_comments(s):
    s = re.sub(r"//[^\n]*", "", s)
    return re.sub(r"/\*.*?\*/", "", s, flags=re.S)


def balanced(src, i, open_ch, close_ch):
    depth, k = 0, i
    while True:
        if src[k] == open_ch:
            depth += 1
        elif src[k] == close_ch:
            depth -= 1
            if depth == 0:
                return k
        k += 1


def sharing_types():
    """names of the crate's own types that carry a shared mutable cell, directly or through another such type: structs
    whose fields mention one, and type aliases whose right-hand side does (RcHandler = MutArc<..>, MultiSubscription, TaskHandle,
    Subscriber, the subjects ...).  A field of such a type shares state between clones just as a bare Rc does."""
    defs = {}
    for root, _, files in os.walk(os.path.join(REPO, "src")):
        for f in sorted(files):
            if not f.endswith(".rs"):
                continue
            src = strip_comments(open(os.path.join(root, f)).read())
            t = src.find("#[cfg(test)]")
            body = src if t < 0 else src[:t]
            for m in re.finditer(r"\btype\s+(\w+)\s*(<[^=;]*>)?\s*=\s*([^;]*);", body):
                defs.setdefault(m.group(1), []).append(m.group(3))
            for m in re.finditer(r"\bstruct\s+(\w+)\s*(<[^{(;]*>)?\s*(where[^{(;]*)?([{(;])", body):
                name, opener = m.group(1), m.group(4)
                if opener == ";":
                    continue
                j = m.end() - 1
                k = balanced(body, j, opener, "}" if opener == "{" else ")")
                defs.setdefault(name, []).append(body[j + 1:k])
    sharing = set()
    changed = True
    while changed:
        changed = False
        for name, bodies in defs.items():
            if name in sharing:
                continue
            for b in bodies:
                if SHARED.search(b) or any(re.search(r"\b%s\b" % re.escape(s), b) for s in sharing):
                    sharing.add(name)
                    changed = True
                    break
    return sharing


def main():
    rows = []
    own = sharing_types()
    own_re = re.compile(r"\b(" + "|".join(sorted(re.escape(x) for x in own)) + r")\b") if own else None
    for root, _, files in os.walk(os.path.join(REPO, "src")):
        for f in sorted(files):
            if not f.endswith(".rs"):
                continue
            path = os.path.join(root, f)
            rel = os.path.relpath(path, os.path.join(REPO, "src"))
            src = strip_comments(open(path).read())
            # cut the test modules off
            t = src.find("#[cfg(test)]")
            body = src if t < 0 else src[:t]
            # names that implement Observable (directly or as a macro argument of an impl macro)
            impls = set(re.findall(r"Observable<[^{;]*?>\s*for\s+(\$?\w+)", body))
            macro_args = set()
            for m in re.finditer(r"\bimpl_\w+!\s*\(([^)]*)\)", body):
                # an argument may carry its generics (`ObserveOnOp<S,SD>`): the leading identifier names the struct
                for a in re.split(r",(?![^<]*>)", m.group(1)):
                    macro_args.add(a.strip())
                    w = re.match(r"\w+", a.strip())
                    if w:
                        macro_args.add(w.group(0))
            for m in re.finditer(r"\bstruct\s+(\w+)\s*(<[^{(;]*>)?\s*(where[^{(;]*)?([{(;])", body):
                name, opener = m.group(1), m.group(4)
                if name.endswith("Observer") or name.endswith("ObserverThreads"):
                    continue            # what a subscription creates, not what a pipeline is built from
                if name not in impls and not (("$name" in impls or "$op" in impls or "$ty" in impls) and name in macro_args):
                    continue
                if opener == ";":
                    fields = ""
                else:
                    j = m.end() - 1
                    k = balanced(body, j, opener, "}" if opener == "{" else ")")
                    fields = body[j + 1:k]
                fields_n = re.sub(r"\s+", " ", fields).strip()
                # a generic parameter may bear the name of one of the crate's types (`Subject`): it is the parameter then
                params = set(re.findall(r"\b(\w+)\b", m.group(2) or ""))
                hit_own = [x for x in (own_re.findall(fields_n) if own_re else []) if x not in params and x != name]
                rows.append((rel + ":" + name, bool(SHARED.search(fields_n)) or bool(hit_own), fields_n))
    # process-wide state: every `static` item outside the test modules (thread_local! / lazy_static! / Lazy / OnceCell
    # statics included: they are written `static NAME: ...` too).  State kept there is shared by ALL subscriptions.
    statics = []
    for root, _, files in os.walk(os.path.join(REPO, "src")):
        for f in sorted(files):
            if not f.endswith(".rs"):
                continue
            path = os.path.join(root, f)
            rel = os.path.relpath(path, os.path.join(REPO, "src"))
            src = strip_comments(open(path).read())
            t = src.find("#[cfg(test)]")
            body = src if t < 0 else src[:t]
            for m in re.finditer(r"(?<!')\bstatic\s+(?:ref\s+|mut\s+)?([A-Za-z_]\w*)\s*:", body):
                statics.append("%s:%s" % (rel, m.group(1)))
    statics.sort()
    rows.sort()
    text = "(* GENERATED by tools/gen_opstate.py from /repo/src on every run: do not edit. *)\n"
    text += "From Coq Require Import String List.\nImport ListNotations.\nOpen Scope string_scope.\n\n"
    text += "Definition table : list (string * bool) := [\n"
    text += ";\n".join('  ("%s", %s)  (* %s *)' % (k, "true" if b else "false", fl.replace("*)", "* )")[:160]) for k, b, fl in rows)
    text += "\n].\n\n"
    text += "Definition statics : list string := [\n" + ";\n".join('  "%s"' % x for x in statics) + "\n].\n"
    if not (os.path.exists(OUT) and open(OUT).read() == text):
        os.makedirs(os.path.dirname(OUT), exist_ok=True)
        with open(OUT, "w") as f:
            f.write(text)
    print("observable structs: %d; with a shared cell: %s; statics: %s" % (len(rows), [k for k, b, _ in rows if b], statics))


main()
