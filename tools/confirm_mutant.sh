#!/bin/bash
# usage: tools/confirm_mutant.sh <worktree> <k> <seed-id> <property>
# Confirms in the scratch worktree that the change compiles, the existing suite passes with it,
# the demonstration fails with it and passes without it; then stores it under /verif/seeded/<seed-id>/.
wt="$1"; k="$2"; sid="$3"; prop="$4"
m="$wt/MUTANT/$k"
export CARGO_NET_OFFLINE=true
cd "$wt" || exit 2
git checkout -q -- . ; rm -rf tests
git apply "$m/patch.diff" || { echo "$sid: patch does not apply"; exit 2; }
cargo test --offline --lib > /tmp/confirm-$sid.lib.log 2>&1
suite=$(grep "test result" /tmp/confirm-$sid.lib.log | head -1)
failed=$(grep -E "^test .* FAILED" /tmp/confirm-$sid.lib.log | tr '\n' ';')
if [ -n "$failed" ]; then
  # the baseline lists ops::delay::tests::shared_smoke as flaky: run once more
  cargo test --offline --lib > /tmp/confirm-$sid.lib.log 2>&1
  suite="$suite | rerun: $(grep "test result" /tmp/confirm-$sid.lib.log | head -1) | first-run failures: $failed"
fi
doc=$(cargo test --offline --doc 2>&1 | grep "test result" | tail -1)
mkdir -p tests; cp "$m/demo.rs" tests/demo.rs
demo_with=$(cargo test --offline --test demo 2>&1 | grep "test result" | head -1)
git checkout -q -- src
demo_without=$(cargo test --offline --test demo 2>&1 | grep "test result" | head -1)
rm -rf tests
out=/verif/seeded/$sid
mkdir -p "$out"
cp "$m/patch.diff" "$out/patch.diff"; cp "$m/demo.rs" "$out/demo.rs"; cp "$m/notes.md" "$out/notes.md" 2>/dev/null
python3 - "$out" "$prop" "$suite" "$doc" "$demo_with" "$demo_without" <<'PY'
import json, sys
out, prop, suite, doc, dw, dwo = sys.argv[1:7]
json.dump({"property": prop, "suite_with_change": suite, "doctests_with_change": doc,
           "demo_with_change": dw, "demo_without_change": dwo,
           "ran": "in a scratch worktree of /repo: git apply patch.diff; cargo test --offline --lib; cargo test --offline --doc; cp demo.rs tests/; cargo test --offline --test demo; git checkout -- src; cargo test --offline --test demo"},
          open(out + "/meta.json", "w"), indent=1)
PY
echo "$sid: suite[$suite] demo-with[$demo_with] demo-without[$demo_without]"
