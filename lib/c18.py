"""C18 - local and thread-safe variants are observationally equivalent (single-threaded histories)."""
import re
from common import *
import gen
import c01, c02, c03, c04, c05, c06, c11, c12, c13, c15, c16, c17
import tchain

BASE = {"chain": "chain", "chain_t": "chain", "hotchain": "hotchain", "hotchain_t": "hotchain", "op2": "op2", "op2_t": "op2"}


def both_forms(text):
    """(local text, threads text) of one case, or None when the case has no thread-safe twin"""
    if "append_chained" in text:
        return None          # a member whose teardown re-enters its composite: the harness has it for the thread-safe form only
    m = re.match(r"^\(case (\S+) (\S+) (.*)$", text)
    cid, kind, rest = m.group(1), m.group(2), m.group(3)
    if kind in BASE:
        b = BASE[kind]
        return "(case %s %s %s" % (cid, b, rest), "(case %s %s_t %s" % (cid, b, rest)
    w = rest.split(" ", 1)
    if w[0] in ("local", "threads") and len(w) == 2:
        return "(case %s %s local %s" % (cid, kind, w[1]), "(case %s %s threads %s" % (cid, kind, w[1])
    return None


def gather(tier, rng):
    """the case sets of the other checks, reduced, as pairs"""
    pool = []
    lim = 6000 if tier == "quick" else 60000

    def take(name, cases):
        step = max(1, len(cases) // lim)
        for cid, text, tags in cases[::step]:
            bf = both_forms(text)
            if bf:
                pool.append((name, bf[0], bf[1]))

    take("chains", c03.make_cases(tier, rng))
    take("two-input", c04.make_cases(tier, rng))
    take("flatten", c05.make_cases(tier, rng))
    take("subjects", c06.make_cases(tier, rng))
    # (without the histories in which a callback reads the subject back: re-entering a thread-safe subject from a callback is
    #  outside the claim, see C12)
    take("behavior", [c for c in c12.make_cases(tier, rng) if "peekcb" not in c[1]])
    take("unsubscribe-chains", c02.chain_cases(tier, rng))
    take("unsubscribe-two-input", c02.op2_cases(tier, rng))
    take("unsubscribe-flatten", c02.flatten_cases(tier, rng))
    take("timed", c02.timed_cases(tier, rng))
    take("finalize", c15.hot_cases(tier) + c15.cold_cases(tier))
    take("subscriptions", c17.alg_cases(tier, rng))
    take("trees", c01.cases_for(tier, rng))
    take("timed-in-a-chain", tchain.cases(tier, rng))
    take("two-subscriptions-of-a-timed-operator", tchain.two_cases(tier, rng))
    take("share-publish", c11.histories(tier, rng))
    take("independent-subscriptions", c13.cases_for(tier, rng))
    take("producers-retire", c16.iter_cases(tier, rng) + c16.stream_cases(tier, rng) + c16.interval_cases(tier, rng))
    take("finalize-twice", [c for c in c15.twice_cases(tier)])
    out = []
    for i, (name, a, b) in enumerate(pool):
        cid = "f%d" % i
        a = re.sub(r"^\(case \S+", "(case " + cid, a)
        b = re.sub(r"^\(case \S+", "(case " + cid, b)
        out.append((cid, name, a, b))
    return out


def run(tier, seed, replay=None):
    rep = Report("C18", tier, seed)
    rng = Rng(seed)
    proof_stage(rep, "C18")
    # tie by translation (T5): merge_all / concat_all / flatten / flat_map / concat_map and the _threads forms build one operator with the limit the model assumes
    proof_stage(rep, "C05src", limit=400)
    if not build_stage(rep):
        return rep.finish()
    if replay:
        r = json.load(open(replay))
        pairs = [("r1", r.get("tags", {}).get("family", "replay"), r["case"], r["case_threads"])]
    else:
        pairs = gather(tier, rng)
    os.makedirs(WORK, exist_ok=True)
    fa = os.path.join(WORK, "C18.%s.local.cases" % tier)
    fb = os.path.join(WORK, "C18.%s.threads.cases" % tier)
    with open(fa, "w") as f:
        f.write("\n".join(p[2] for p in pairs) + "\n")
    with open(fb, "w") as f:
        f.write("\n".join(p[3] for p in pairs) + "\n")
    try:
        ra = run_impl(fa)
        rb = run_impl(fb)
        mres = run_model(fa)
        model = mres[0]
    except CheckFailure as e:
        rep.violations.append(("correspondence cannot be established: " + e.what, {"obligation": e.what, "detail": e.detail, "failing_input_found": False}))
        return rep.finish()
    hist = {}
    for cid, fam, a, b in pairs:
        hist[fam] = hist.get(fam, 0) + 1
        rep.coverage["evaluations"] += 2
        x, y = ra.get(cid), rb.get(cid)
        if x is None or y is None:
            rep.fail("a form produced no answer", {"case": a, "case_threads": b, "local": x, "threads": y, "failing_input_found": True})
            continue
        # a re-entrant acquisition fails as a panic in the local form and as a hang in the thread-safe one
        fx = "FAIL" if x.startswith("PANIC") else x
        fy = "FAIL" if y == "HANG" or y.startswith("PANIC") else y
        if fx != fy:
            rep.fail("the local and the thread-safe form differ on this history",
                     {"case": a, "case_threads": b, "local": x, "threads": y, "model": model.get(cid), "theorem": "C18_same_notifications",
                      "tags": {"family": fam}, "failing_input_found": True}, {"family": fam})
    c = rep.coverage
    c["distinct_nontrivial"] = len(set(p[2].split(" ", 2)[2] for p in pairs))
    c["generator_distribution"] = hist
    c["exhaustive"] = False
    c["rule"] = ("the case sets of C01-C06, C11-C13, C15-C17, the unsubscription / scheduler cases of C02, scheduler-using operators inside chains and "
                 "subscribed twice (thinned to <= %d per family), every case "
                 "executed twice on the crate, once with the local types and operators and once with every one of them replaced by its thread-safe "
                 "counterpart (SubjectThreads, *_threads operators, BoxOpThreads, MultiSubscriptionThreads, finalize_threads ...), on one thread; the two "
                 "observations must be equal item by item (a panic of the local form and a hang or panic of the thread-safe one count as the same "
                 "failure)" % (6000 if tier == "quick" else 60000))
    rep.assumptions = ["histories are single-threaded; concurrent histories are C10's subject",
                       "the conversions (C14) are compared under their own check"]
    return rep.finish()
