"""Shared machinery of every check: builds, proof re-check, correspondence runs,
violation / known-finding reporting, evidence."""
import fcntl
import hashlib
import json
import os
import re
import subprocess
import sys
import time

VERIF = os.path.dirname(os.path.dirname(os.path.abspath(__file__)))
REPO = os.environ.get("RXV_REPO", "/repo")   # a scratch copy when a seeded change is tried in isolation
COQ = os.path.join(VERIF, "coq")
OCAML = os.path.join(VERIF, "ocaml")
HARNESS = os.path.join(VERIF, "harness")
WORK = os.path.join(VERIF, "work")
EVIDENCE = os.path.join(VERIF, "evidence")
REPLAYS = os.path.join(VERIF, "replays")
RUSTFLAGS = "--cfg rxrust_verif"
NPROC = 16

COQ_Q = ["-Q", "Model", "RxModel", "-Q", "Spec", "RxSpec", "-Q", "Proofs", "RxProofs",
         "-Q", "Props", "RxProps", "-Q", "Gen", "RxGen", "-w", "-notation-overridden"]

# Axioms of the standard library that a proof may depend on (none expected; anything
# else printed by Print Assumptions fails the check).
AXIOM_ALLOW = {
    "functional_extensionality_dep", "proof_irrelevance", "classic", "Eqdep.Eq_rect_eq.eq_rect_eq",
    "JMeq_eq",
}

FORBIDDEN = re.compile(
    r"\b(Admitted|admit|Axiom|Axioms|Parameter|Parameters|Conjecture|Conjectures|Hypothesis|Hypotheses|Variable|Variables)\b"
    r"|Unset\s+Guard|Unset\s+Positivity|Unset\s+Universe|bypass_check|Admit\s+Obligations|type-in-type|impredicative-set")


class CheckFailure(Exception):
    """A build step or proof obligation failed (not a property verdict by itself)."""
    def __init__(self, what, detail):
        super().__init__(what)
        self.what = what
        self.detail = detail


def sh(cmd, cwd=None, env=None, timeout=None, check=False):
    e = dict(os.environ)
    e.update({"CARGO_NET_OFFLINE": "true"})
    if env:
        e.update(env)
    p = subprocess.run(cmd, cwd=cwd, env=e, stdout=subprocess.PIPE, stderr=subprocess.STDOUT,
                       text=True, timeout=timeout)
    if check and p.returncode != 0:
        raise CheckFailure(" ".join(cmd[:3]), p.stdout[-4000:])
    return p.returncode, p.stdout


class Lock:
    def __init__(self, name):
        os.makedirs(WORK, exist_ok=True)
        self.path = os.path.join(WORK, name + ".lock")
    def __enter__(self):
        self.f = open(self.path, "w")
        fcntl.flock(self.f, fcntl.LOCK_EX)
        return self
    def __exit__(self, *a):
        fcntl.flock(self.f, fcntl.LOCK_UN)
        self.f.close()


# ---------------------------------------------------------------- Coq side

def strip_comments(src):
    out, depth, i = [], 0, 0
    while i < len(src):
        if src.startswith("(*", i):
            depth += 1; i += 2
        elif src.startswith("*)", i) and depth > 0:
            depth -= 1; i += 2
        else:
            if depth == 0:
                out.append(src[i])
            i += 1
    return "".join(out)


def grep_gate():
    """No Admitted / Axiom / Parameter / ... anywhere in the development."""
    bad = []
    for root, _, files in os.walk(COQ):
        for f in files:
            if not f.endswith(".v"):
                continue
            p = os.path.join(root, f)
            body = strip_comments(open(p).read())
            in_section = 0
            for ln, line in enumerate(body.split("\n"), 1):
                if re.match(r"\s*Section\b", line):
                    in_section += 1
                if re.match(r"\s*End\b", line) and in_section:
                    in_section -= 1
                m = FORBIDDEN.search(line)
                if m:
                    word = m.group(0)
                    if word.startswith(("Variable", "Hypothes")) and in_section:
                        continue
                    bad.append("%s:%d: %s" % (os.path.relpath(p, VERIF), ln, line.strip()))
    if bad:
        raise CheckFailure("grep-gate", "\n".join(bad))
    return True


def coq_make(targets, limit=1500):
    """Incremental full .vo build of the given targets (and everything they need)."""
    with Lock("coq"):
        # translators: the generated tables are rebuilt from /repo/src before every build
        sh(["python3", os.path.join(VERIF, "tools", "gen_isfinished.py"), REPO], check=True)
        sh(["python3", os.path.join(VERIF, "tools", "gen_opstate.py"), REPO], check=True)
        sh(["python3", os.path.join(VERIF, "tools", "gen_forms.py"), REPO], check=True)
        sh(["python3", os.path.join(VERIF, "tools", "gen_lazy.py"), REPO], check=True)
        sh(["python3", os.path.join(VERIF, "tools", "gen_bodies.py"), REPO], check=True)
        mk = os.path.join(COQ, "Makefile")
        if not os.path.exists(mk) or os.path.getmtime(mk) < os.path.getmtime(os.path.join(COQ, "_CoqProject")):
            sh(["coq_makefile", "-f", "_CoqProject", "-o", "Makefile"], cwd=COQ, check=True)
        rc, out = sh(["timeout", str(limit), "make", "-j%d" % NPROC] + targets, cwd=COQ)
        if rc == 124:
            raise CheckFailure("coq-build", "make %s did not finish within %d s (a proof script no longer terminates on what the translators produced)\n%s"
                               % (" ".join(targets), limit, out[-3000:]))
        if rc != 0:
            raise CheckFailure("coq-build", out[-6000:])
    return out


def recheck_props(prop_file):
    """Re-run coqc on a Props file against the compiled development; parse the pinned
    statements and Print Assumptions output.  Returns dict(obligations, discharged, theorems, axioms)."""
    os.makedirs(WORK, exist_ok=True)
    src = os.path.join(COQ, "Props", prop_file + ".v")
    text = strip_comments(open(src).read())
    theorems = re.findall(r"^\s*(?:Theorem|Lemma)\s+(\w+)", text, re.M)
    pins = re.findall(r"^\s*Check\s+(\w+)\s*:", text, re.M)
    pa = re.findall(r"^\s*Print Assumptions\s+(\w+)", text, re.M)
    examples = re.findall(r"^\s*Example\s+(\w+)", text, re.M)
    missing = [t for t in theorems if t not in pins or t not in pa]
    if missing:
        raise CheckFailure("props-pin", "theorems without Check pin / Print Assumptions: %s" % missing)
    os.makedirs(os.path.join(WORK, "recheck"), exist_ok=True)
    outvo = os.path.join(WORK, "recheck", prop_file + ".vo")
    rc, out = sh(["timeout", "600", "coqc"] + COQ_Q + ["-o", outvo, os.path.join("Props", prop_file + ".v")], cwd=COQ)
    if rc != 0:
        raise CheckFailure("props-recheck", out[-6000:])
    closed = len(re.findall(r"Closed under the global context", out))
    axioms = []
    for blk in re.findall(r"Axioms:\n((?:.+\n?)+?)(?:\n|$)", out):
        for line in blk.split("\n"):
            m = re.match(r"^(\S+)\s*:", line)
            if m:
                axioms.append(m.group(1))
    bad_ax = [a for a in axioms if a.split(".")[-1] not in AXIOM_ALLOW and a not in AXIOM_ALLOW]
    if bad_ax:
        raise CheckFailure("assumptions", "axioms outside the allow-list: %s" % bad_ax)
    if closed + (1 if axioms else 0) < 1 or closed < len(pa) - len(re.findall(r"Axioms:", out)):
        raise CheckFailure("assumptions", "Print Assumptions output incomplete:\n" + out[-3000:])
    n = len(theorems) + len(examples)
    return {"obligations": n, "discharged": n, "theorems": theorems, "examples": examples,
            "axioms": sorted(set(axioms)),
            "print_assumptions": "Closed under the global context" if not axioms else "Axioms: " + ", ".join(sorted(set(axioms)))}


def coqchk_props(prop_file):
    """Thorough tier: re-check the compiled property file and everything it depends on with Coq's
    independent checker; its context summary must list no axiom (nor type-in-type, unsafe fixpoints,
    assumed positivity)."""
    rc, out = sh(["timeout", "1500", "coqchk", "-o", "-silent"] + COQ_Q[:-2] + ["RxProps." + prop_file], cwd=COQ)
    if rc != 0:
        raise CheckFailure("coqchk", out[-4000:])
    summary = out[out.find("CONTEXT SUMMARY"):]
    facts = dict(re.findall(r"\* ([^:\n]+):\s*(.*)", summary))
    bad = {k: v for k, v in facts.items() if k != "Theory" and v.strip() != "<none>"}
    ax = [a for a in re.findall(r"^\s+(\S+)\s*$", summary[summary.find("* Axioms"):summary.find("* Constants")], re.M)]
    bad_ax = [a for a in ax if a.split(".")[-1] not in AXIOM_ALLOW and a not in AXIOM_ALLOW]
    if bad_ax or any(k != "Axioms" for k in bad):
        raise CheckFailure("coqchk-context", summary[-3000:])
    return "coqchk -o: " + "; ".join("%s: %s" % (k.strip(), v.strip()) for k, v in facts.items() if k != "Theory")


def build_runner():
    """Extract the model and build the OCaml runner when any Model/Spec .vo is newer."""
    # everything Extract.v imports must be compiled consistently first
    ex = open(os.path.join(COQ, "Extract.v")).read()
    mods = []
    for kind, d in (("RxModel", "Model"), ("RxSpec", "Spec"), ("RxProofs", "Proofs")):
        for m in re.findall(r"From %s Require Import ([^.]*)\." % kind, ex):
            mods += ["%s/%s.vo" % (d, x) for x in m.split()]
    coq_make(mods)
    with Lock("ocaml"):
        runner = os.path.join(OCAML, "runner")
        deps = [os.path.join(COQ, "Extract.v"), os.path.join(OCAML, "driver.ml"), os.path.join(OCAML, "cases.ml")]
        for d in ("Model", "Spec"):
            for f in os.listdir(os.path.join(COQ, d)):
                if f.endswith(".vo"):
                    deps.append(os.path.join(COQ, d, f))
        deps += [os.path.join(COQ, m) for m in mods if m.startswith("Proofs/")]
        if os.path.exists(runner) and all(os.path.getmtime(d) <= os.path.getmtime(runner) for d in deps):
            return
        gen = os.path.join(OCAML, "build")
        os.makedirs(gen, exist_ok=True)
        q = ["-Q", os.path.join(COQ, "Model"), "RxModel", "-Q", os.path.join(COQ, "Spec"), "RxSpec", "-Q", os.path.join(COQ, "Proofs"), "RxProofs"]
        sh(["timeout", "600", "coqc"] + q + ["-o", os.path.join(gen, "Extract.vo"), os.path.join(COQ, "Extract.v")],
           cwd=gen, check=True)
        for f in ("driver.ml", "cases.ml"):
            sh(["cp", os.path.join(OCAML, f), gen], check=True)
        sh(["ocamlfind", "ocamlopt", "-O3", "-w", "-a", "model.mli", "model.ml", "driver.ml", "cases.ml",
            "-o", runner], cwd=gen, check=True)


# ---------------------------------------------------------------- Rust side

def build_harness():
    """Rebuild the harness (and rxrust itself) from /repo's current working tree."""
    with Lock("cargo"):
        lock_src = os.path.join(REPO, "Cargo.lock")
        lock_dst = os.path.join(HARNESS, "Cargo.lock")
        if not os.path.exists(lock_dst):
            sh(["cp", lock_src, lock_dst], check=True)
        rc, out = sh(["timeout", "1500", "cargo", "build", "--release", "--offline", "-q"], cwd=HARNESS,
                     env={"RUSTFLAGS": RUSTFLAGS})
        if rc != 0:
            errs = [l for l in out.split("\n") if l.startswith("error")]
            raise CheckFailure("harness-build", "\n".join(errs[:5]) + "\n---\n" + out[-3000:])
    return os.path.join(HARNESS, "target", "release", "rxverif-harness")


HARNESS_RT = os.path.join(VERIF, "harness_rt")


def build_harness_rt():
    """The small second harness: the crate built WITH its `timer` feature (the real timer)."""
    with Lock("cargo-rt"):
        lock_dst = os.path.join(HARNESS_RT, "Cargo.lock")
        if not os.path.exists(lock_dst):
            sh(["cp", os.path.join(REPO, "Cargo.lock"), lock_dst], check=True)
        rc, out = sh(["timeout", "1500", "cargo", "build", "--release", "--offline", "-q"], cwd=HARNESS_RT)
        if rc != 0:
            errs = [l for l in out.split("\n") if l.startswith("error")]
            raise CheckFailure("harness-rt-build", "\n".join(errs[:5]) + "\n---\n" + out[-3000:])


def real_timer_cases(rep, theorem, which="timers"):
    """The timed models assume of the real timer only that `new_timer(d)` is not ready before d has elapsed (all the
    checks on the virtual clock replace it).  This runs the crate's own timer: timer(d) / interval(d) on a LocalPool polled
    for 350 ms; delays up to 120 ms must run and not early, 2 s and the delays beyond u32 milliseconds / u32 seconds / u64
    microseconds must not have run."""
    try:
        build_harness_rt()
        rc, out = sh(["timeout", "120", os.path.join(HARNESS_RT, "target", "release", "rxverif-harness-rt")] + ([which] if which != "timers" else []))
        if rc != 0:
            raise CheckFailure("harness-rt-run", "exit %d\n%s" % (rc, out[-2000:]))
    except CheckFailure as e:
        rep.violations.append(("correspondence cannot be established: " + e.what,
                               {"obligation": e.what, "detail": e.detail, "failing_input_found": False}))
        return
    n = 0
    for line in out.split("\n"):
        if not line.strip():
            continue
        cid, obs = line.split(" ", 1)
        n += 1
        if cid.startswith("race-"):
            # unsubscribe() from one thread while an item of another thread is being handed to a slow scheduler (debounce, delay_threads,
            # throttle_time, observe_on_threads with real timers): nothing is delivered once it has returned and a handle says closed
            if obs != "ok":
                rep.fail("unsubscribe() while an item was inside the operator on another thread: " + obs,
                         {"case": "(real-timer %s)" % cid, "impl": obs, "spec": "ok", "theorem": theorem, "failing_input_found": True,
                          "replay": "harness_rt/target/release/rxverif-harness-rt races"}, {})
            continue
        if cid.startswith("order-"):
            # an item arriving while the window task hands the trailing item to a slow subscriber on a pool thread
            if obs != "ok":
                rep.fail("throttle_time on a thread pool, an item arriving while the trailing item is being delivered: " + obs,
                         {"case": "(real-timer %s)" % cid, "impl": obs, "spec": "ok", "theorem": theorem, "failing_input_found": True,
                          "replay": "harness_rt/target/release/rxverif-harness-rt order"}, {})
            continue
        small = any(cid.endswith(x) for x in ("-0ms", "-30ms", "-1500us", "-120ms"))     # every other delay is far beyond the window
        want = "ran" if small else "not-run"
        if obs != want:
            rep.fail("the real timer: a task scheduled with this delay %s" % ("ran before the delay had elapsed" if obs.startswith("ran") else "did not run in time: " + obs),
                     {"case": "(real-timer %s)" % cid, "impl": obs, "spec": want, "theorem": theorem, "failing_input_found": True,
                      "replay": "harness_rt/target/release/rxverif-harness-rt"}, {})
    c = rep.coverage
    c["evaluations"] = c.get("evaluations", 0) + n
    c["real_timer_cases"] = n


def _parse_impl(out, res):
    for line in out.split("\n"):
        if not line:
            continue
        i = line.find(" ")
        if i < 0:
            res[line] = ""
        else:
            res[line[:i]] = line[i + 1:]


def run_impl(case_file, threads=NPROC, timeout=900):
    """Run the cases on the crate.  When the harness process dies (an abort cannot be caught inside it: failed
    allocation, stack overflow, double panic), the case that kills it is searched for by bisection and gets the
    observation `ABORT <last words>`; the others are run again without it."""
    exe = os.path.join(HARNESS, "target", "release", "rxverif-harness")
    rc, out = sh(["timeout", str(timeout), exe, case_file, str(threads)])
    res = {}
    if rc == 0:
        _parse_impl(out, res)
        return res
    if rc == 124:
        raise CheckFailure("harness-run", "exit %d\n%s" % (rc, out[-3000:]))
    lines = [l for l in open(case_file).read().split("\n") if l.strip()]

    def runs(sub, tag):
        part = "%s.bisect%s" % (case_file, tag)
        with open(part, "w") as f:
            f.write("\n".join(sub) + "\n")
        r, o = sh(["timeout", "300", exe, part, str(threads if len(sub) > 1 else 1)])
        os.unlink(part)
        return r, o

    # shards first: most of them survive; then bisection inside a few of the shards that die
    nsh = 32
    shards = [lines[k::nsh] for k in range(nsh)]
    dead = []
    for k, sub in enumerate(shards):
        if not sub:
            continue
        r, o = runs(sub, "s%d" % k)
        if r == 0:
            _parse_impl(o, res)
        else:
            dead.append(sub)
    if not dead:
        raise CheckFailure("harness-run", "exit %d on the whole case file, but on none of its shards\n%s" % (rc, out[-3000:]))
    killers = 0
    for sub in dead:
        if killers >= 3:
            for l in sub:
                res[l.split(" ", 2)[1]] = "NOTRUN"
            continue
        lo, hi = 0, len(sub)          # a killing case lies in sub[lo:hi]
        while hi - lo > 1:
            mid = (lo + hi) // 2
            r, o = runs(sub[lo:mid], "h")
            if r != 0:
                hi = mid
            else:
                lo = mid
        r, o = runs(sub[lo:hi], "one")
        for l in sub:
            res[l.split(" ", 2)[1]] = "NOTRUN"
        if r != 0:
            words = [l for l in o.split("\n") if l.strip() and not l.startswith(("stack backtrace", "skipping backtrace"))]
            res[sub[lo].split(" ", 2)[1]] = "ABORT " + (words[0][:200] if words else "exit %d" % r)
            killers += 1
    if not killers:
        raise CheckFailure("harness-run", "exit %d\n%s" % (rc, out[-3000:]))
    return res


def run_model(case_file, shards=NPROC, timeout=900, impl=None):
    """Run the extracted model + spec on the case file (sharded).  When the implementation's
    results are given, the runner also evaluates the predicate oracles on them."""
    runner = os.path.join(OCAML, "runner")
    lines = [l for l in open(case_file).read().split("\n") if l.strip()]
    n = max(1, min(shards, (len(lines) + 1999) // 2000))
    procs = []
    for k in range(n):
        part = case_file + ".part%d" % k
        sub = lines[k::n]
        with open(part, "w") as f:
            f.write("\n".join(sub) + "\n")
        cmd = ["timeout", str(timeout), runner, part]
        ipart = None
        if impl is not None:
            ipart = part + ".impl"
            with open(ipart, "w") as f:
                for l in sub:
                    cid = l.split(" ", 2)[1]
                    f.write("%s %s\n" % (cid, impl.get(cid, "")))
            cmd.append(ipart)
        procs.append((part, ipart, subprocess.Popen(cmd, stdout=subprocess.PIPE, stderr=subprocess.STDOUT, text=True)))
    model, spec, orc, selfrej = {}, {}, {}, {}
    for part, ipart, p in procs:
        out, _ = p.communicate()
        os.unlink(part)
        if ipart:
            os.unlink(ipart)
        if p.returncode != 0:
            raise CheckFailure("model-run", "exit %d\n%s" % (p.returncode, out[-3000:]))
        for line in out.split("\n"):
            if not line:
                continue
            cid, tag, *rest = line.split(" ", 2)
            {"M": model, "S": spec, "O": orc, "X": selfrej}[tag][cid] = rest[0] if rest else ""
    if selfrej:
        k = sorted(selfrej)[0]
        raise CheckFailure("oracle-rejects-model", "the predicate oracle rejects the model's own trace on case %s: %s" % (k, selfrej[k]))
    if impl is not None:
        return model, spec, orc
    return model, spec


# ---------------------------------------------------------------- reporting

class Rng:
    """SplitMix64: every random choice of a check derives from VERIF_SEED."""
    def __init__(self, seed):
        self.s = seed & 0xFFFFFFFFFFFFFFFF
    def next(self):
        self.s = (self.s + 0x9E3779B97F4A7C15) & 0xFFFFFFFFFFFFFFFF
        z = self.s
        z = ((z ^ (z >> 30)) * 0xBF58476D1CE4E5B9) & 0xFFFFFFFFFFFFFFFF
        z = ((z ^ (z >> 27)) * 0x94D049BB133111EB) & 0xFFFFFFFFFFFFFFFF
        return z ^ (z >> 31)
    def below(self, n):
        return self.next() % n
    def choice(self, l):
        return l[self.below(len(l))]
    def chance(self, num, den):
        return self.below(den) < num


def load_known():
    p = os.path.join(VERIF, "known_findings.json")
    if not os.path.exists(p):
        return {"known": [], "fixed": []}
    return json.load(open(p))


class Report:
    def __init__(self, pid, tier, seed):
        self.pid, self.tier, self.seed = pid, tier, seed
        self.t0 = time.time()
        self.violations = []      # (what, replay dict)
        self.known_seen = {}      # finding id -> count
        self.known = [k for k in load_known().get("known", []) if k["property"] == pid]
        self.coverage = {"evaluations": 0, "distinct_nontrivial": 0, "samples": [], "rule": "",
                         "obligations": 0, "discharged": 0, "checker_cmd": "", "trusted_base": []}
        self.assumptions = []
        self.extra = {}

    def match_known(self, tags):
        """tags: dict describing a failing case; a known finding matches when all its
        `match` keys are equal in tags."""
        for k in self.known:
            if all(tags.get(a) == b for a, b in k["match"].items()):
                return k
        return None

    def fail(self, what, replay, tags=None):
        k = self.match_known(tags or {})
        if k:
            self.known_seen[k["id"]] = self.known_seen.get(k["id"], 0) + 1
            self.extra.setdefault("known_examples", {}).setdefault(k["id"], replay)
            return False
        self.violations.append((what, replay))
        return True

    def finish(self):
        os.makedirs(EVIDENCE, exist_ok=True)
        os.makedirs(REPLAYS, exist_ok=True)
        for k in self.known:
            if self.known_seen.get(k["id"]):
                print("KNOWN-FINDING: property=%s %s (%d cases this run)" % (self.pid, k["what"], self.known_seen[k["id"]]))
        rc = 0
        if self.violations:
            rc = 1
            # smallest replay first
            # a violation with a concrete failing input first, then the smallest replay
            self.violations.sort(key=lambda v: (0 if v[1].get("failing_input_found", True) else 1, len(json.dumps(v[1]))))
            what, replay = self.violations[0]
            h = hashlib.sha1(json.dumps(replay, sort_keys=True).encode()).hexdigest()[:10]
            path = os.path.join(REPLAYS, "%s-%s.json" % (self.pid, h))
            replay = dict(replay)
            replay.update({"property": self.pid, "what": what, "seed": self.seed, "tier": self.tier,
                           "other_violations": len(self.violations) - 1})
            json.dump(replay, open(path, "w"), indent=1)
            suffix = "" if replay.get("failing_input_found", True) else " no-failing-input-found"
            print("VIOLATION property=%s replay=%s%s" % (self.pid, path, suffix))
        ev = {
            "property_id": self.pid, "tier": self.tier, "seed": self.seed, "level": "proof",
            "coverage": self.coverage, "assumptions": self.assumptions,
            "wall_s": round(time.time() - self.t0, 2), "violations": len(self.violations),
        }
        ev["coverage"]["known_findings_seen"] = self.known_seen
        ev["coverage"].update(self.extra)
        json.dump(ev, open(os.path.join(EVIDENCE, self.pid + ".json"), "w"), indent=1)
        print("%s %s: %d evaluations, %d violations, %.1fs" % (self.pid, self.tier, self.coverage["evaluations"],
                                                             len(self.violations), time.time() - self.t0))
        return rc


TRUSTED_BASE = [
    "Coq 8.16.1 kernel (coqc); vm_compute used for witness/example lemmas; native_compute not used",
    "extraction to OCaml with ExtrOcamlBasic only (bool, option, unit, list, prod, sumbool, sumor mapped; andb/orb inlined); ocamlfind ocamlopt",
    "hand-written OCaml driver (S-expression parser, number conversion, printers)",
    "Rust harness crate (pipeline builder over rxrust's public API, recording probe) and the Python case generators / diff",
    "operator state machines are hand-transcribed from the Rust source (modelled, not verified); tied to /repo by differential execution on every run",
]


def proof_stage(report, prop_file, limit=1500):
    """Grep gate, incremental build, re-check of the property file.  A failure here is
    reported as a violation without failing input (the theorem no longer checks).
    Called a second time for a further property file, it adds to what the first call recorded."""
    try:
        grep_gate()
        coq_make(["Props/%s.vo" % prop_file], limit)
        info = recheck_props(prop_file)
        if report.tier == "thorough":
            info["coqchk"] = coqchk_props(prop_file)
    except CheckFailure as e:
        report.violations.append(("proof obligation no longer checks: " + e.what,
                                  {"obligation": e.what, "detail": e.detail, "failing_input_found": False}))
        return None
    c = report.coverage
    first = not c.get("theorems")
    c["obligations"] = (0 if first else c["obligations"]) + info["obligations"]
    c["discharged"] = (0 if first else c["discharged"]) + info["discharged"]
    cmd = "make -C coq Props/%s.vo && coqc Props/%s.v (Print Assumptions parsed)" % (prop_file, prop_file)
    c["checker_cmd"] = cmd if first else c["checker_cmd"] + "; " + cmd
    tb = ["Print Assumptions: " + info["print_assumptions"]] + ([info["coqchk"]] if info.get("coqchk") else [])
    c["trusted_base"] = (TRUSTED_BASE + tb) if first else c["trusted_base"] + ["%s: %s" % (prop_file, t) for t in tb]
    c["theorems"] = (c.get("theorems") or []) + info["theorems"]
    c["examples"] = (c.get("examples") or []) + info["examples"]
    return info


def build_stage(report):
    """Build the model runner and the harness against /repo's working tree."""
    try:
        build_runner()
        build_harness()
        return True
    except CheckFailure as e:
        report.violations.append(("correspondence cannot be established: %s failed" % e.what,
                                  {"obligation": e.what, "detail": e.detail, "failing_input_found": False}))
        return False


def correspond(rep, name, cases, theorem, compare_model=True, impl_timeout=900):
    """Run the cases on the implementation and on the extracted model/spec; report every
    case where the implementation's observation differs from the specification's (failing
    input found) or, failing that, from the model's (correspondence broken).
    cases: list of (id, text, tags).  Returns dict id -> (impl, model, spec)."""
    os.makedirs(WORK, exist_ok=True)
    path = os.path.join(WORK, "%s.%s.cases" % (name, rep.tier))
    with open(path, "w") as f:
        for _, text, _ in cases:
            f.write(text + "\n")
    try:
        # the thorough tiers run millions of real-thread schedules: give both sides the time
        lim = impl_timeout if rep.tier == "quick" else max(impl_timeout, 2700)
        impl = run_impl(path, timeout=lim)
        model, spec, orc = run_model(path, impl=impl, timeout=lim)
    except CheckFailure as e:
        rep.violations.append(("correspondence cannot be established: " + e.what,
                               {"obligation": e.what, "detail": e.detail, "failing_input_found": False}))
        return None
    distinct = set()
    out = {}
    dis = 0
    for cid, text, tags in cases:
        i, m, sp = impl.get(cid), model.get(cid), spec.get(cid)
        out[cid] = (i, m, sp)
        if i == "NOTRUN":       # in a shard that died with another case's abort
            rep.coverage["not_run_after_abort"] = rep.coverage.get("not_run_after_abort", 0) + 1
            continue
        if i:
            distinct.add(text.split(" ", 2)[2])
        o = orc.get(cid)
        if o is not None and o.startswith("known:"):
            # a deviation that the oracle itself classifies as a recorded finding
            tags = dict(tags); tags["known"] = o.split(" ", 1)[0][6:]
            rep.fail("the implementation's trace violates the specification: " + o,
                     {"case": text, "impl": i, "model": m, "oracle": o, "tags": tags,
                      "theorem": theorem, "failing_input_found": True}, tags)
            if i != m:
                dis += 1
                rep.fail("model differs from implementation", {"case": text, "impl": i, "model": m, "tags": tags,
                                                               "correspondence": theorem, "failing_input_found": False}, {})
        elif o is not None and o.startswith("nocorr:"):
            # the tie to the model is broken on this case; no property predicate is violated by it
            dis += 1
            rep.fail("model differs from implementation: " + o[7:],
                     {"case": text, "impl": i, "oracle": o, "tags": tags, "correspondence": theorem, "failing_input_found": False}, tags)
        elif o is not None and o != "ok":
            rep.fail("the implementation's trace violates the specification: " + o,
                     {"case": text, "impl": i, "model": m, "oracle": o, "tags": tags,
                      "theorem": theorem, "failing_input_found": True}, tags)
        elif sp != "UNSPECIFIED" and i != sp:
            rep.fail("implementation differs from the specification on this input",
                     {"case": text, "impl": i, "spec": sp, "model": m, "tags": tags,
                      "theorem": theorem, "failing_input_found": True}, tags)
        elif compare_model and m != "-" and i != m:      # "-": this case kind has no model trace, the oracle is its tie
            dis += 1
            rep.fail("model differs from implementation" + ("" if sp == "UNSPECIFIED" else " although both meet the specification's observation"),
                     {"case": text, "impl": i, "spec": sp, "model": m, "tags": tags,
                      "correspondence": theorem, "failing_input_found": False}, tags)
    c = rep.coverage
    c["evaluations"] = c.get("evaluations", 0) + len(cases)
    c["distinct_nontrivial"] = c.get("distinct_nontrivial", 0) + len(distinct)
    c["traces_validated_against_impl"] = c.get("traces_validated_against_impl", 0) + len(cases)
    c["full_trace_disagreements"] = c.get("full_trace_disagreements", 0) + dis
    if cases:
        c["samples"] = c.get("samples", []) + [cases[k][1] for k in sorted({0, len(cases) // 2, len(cases) - 1})]
    return out


def load_replay_case(replay):
    r = json.load(open(replay))
    return [("r1", re.sub(r"^\(case \S+", "(case r1", r["case"]), r.get("tags", {}))]
