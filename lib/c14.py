"""C14 - conversions and completion status report the real outcome and never hang."""
import itertools
from common import *


def label_seqs(maxlen, alphabet):
    for k in range(maxlen + 1):
        for h in itertools.product(alphabet, repeat=k):
            yield h


def cases_for(tier, rng):
    cases = []
    n = 0
    L = 6 if tier == "quick" else 8
    alpha = ["(n 1)", "(n 2)", "c", "(e 7)", "poll"]
    for kind in ("tofuture", "tostream"):
        for h in label_seqs(L, alpha):
            # keep: at most one terminal followed by anything (post-terminal calls are delivered to nobody)
            if sum(1 for x in h if x in ("c", "(e 7)")) > 2:
                continue
            n += 1
            cases.append(("k%d" % n, "(case k%d %s (labels %s))" % (n, kind, " ".join(h)), {"kind": kind, "len": len(h)}))
    # long sources: an outcome computed from a wrapping count of notifications changes at 2^8 / 2^16 (seeded C14-14)
    for kind in ("tofuture", "tostream"):
        for length in (255, 256, 257, 258, 511, 512, 513) + ((65535, 65536, 65537) if kind == "tofuture" else ()):
            for term in ("c", "(e 7)"):
                n += 1
                h = ["(n %d)" % (1 + i % 2) for i in range(length)] + [term, "poll", "poll"]
                cases.append(("k%d" % n, "(case k%d %s (labels %s))" % (n, kind, " ".join(h)), {"kind": kind + "-long", "len": len(h)}))
    # complete_status: flags after every label; one waiter per case, in each of the three windows
    for pre in label_seqs(2, ["(n 1)", "c", "(e 7)"]):
        for when in ("before", "at_yield", "after"):
            for t in ("c", "(e 7)"):
                n += 1
                labs = []
                for x in pre:
                    labs += [x, "flags"]
                labs += ["(wait %s %s)" % (when, t), "flags"]
                cases.append(("k%d" % n, "(case k%d status (labels flags %s))" % (n, " ".join(labs)), {"kind": "status", "when": when, "len": len(pre)}))
    # to_stream consumed by a task that runs whenever it is woken - also in the middle of the producer's error()
    for h in label_seqs(5 if tier == "quick" else 7, ["(n 1)", "c", "(e 7)", "poll"]):
        if sum(1 for x in h if x in ("c", "(e 7)")) > 2:
            continue
        n += 1
        cases.append(("k%d" % n, "(case k%d tostream_wake (labels %s))" % (n, " ".join(h)), {"kind": "tostream-woken", "len": len(h)}))
    # ... and polled once in between by somebody else, with a waker of its own (a lost select! arm): the consumer task's next poll
    # must register the task's waker again
    for h in label_seqs(5 if tier == "quick" else 6, ["(n 1)", "c", "(e 7)", "poll", "poll0"]):
        if "poll0" not in h or sum(1 for x in h if x in ("c", "(e 7)")) > 1:
            continue
        n += 1
        cases.append(("k%d" % n, "(case k%d tostream_wake (labels %s))" % (n, " ".join(h)), {"kind": "tostream-two-wakers", "len": len(h)}))
    # complete_status above an operator that finishes early (take N), over a create() source: the status follows the source
    for h in label_seqs(4, ["(n 1)", "c", "(e 7)"]):
        for k in (0, 1, 2):
            n += 1
            cases.append(("k%d" % n, "(case k%d status2 %d (script %s))" % (n, k, " ".join(h)), {"kind": "status-above-take", "len": len(h)}))
    return cases


def run(tier, seed, replay=None):
    rep = Report("C14", tier, seed)
    rng = Rng(seed)
    proof_stage(rep, "C14")
    if not build_stage(rep):
        return rep.finish()
    cases = load_replay_case(replay) if replay else cases_for(tier, rng)
    correspond(rep, "C14", cases, "C14_future_outcome_and_readiness / C14_stream_yields_everything_then_ends / C14_no_lost_wakeup / C14_status_flag")
    c = rep.coverage
    hist = {}
    for _, _, t in cases:
        key = "%s/%s" % (t.get("kind"), t.get("when", t.get("len")))
        hist[key] = hist.get(key, 0) + 1
    c["generator_distribution"] = hist
    c["exhaustive"] = True
    c["rule"] = ("to_future and to_stream over a subject: every sequence of <= %d labels over {next 1, next 2, complete, error, poll} with at most two "
                 "terminals, the polls placed before, between and after the source's calls, and sources of 255..258, 511..513 (to_future also 65535..65537) items then a terminal; observation: every Poll result; to_stream consumed by a task that polls until Pending whenever it is woken, the wake-ups arriving "
                 "synchronously inside the producer's calls (error() sends the error and then the end marker: the consumer runs in between); complete_status: the "
                 "three flag queries after every call (also with take(0..2) below it over a create() source: the flags follow the source's terminal), and one thread in wait_for_end with the terminal issued before it starts, between its look at "
                 "the flag and its registering the waker (through the hook: the lost-wake-up window), or after it has gone to sleep; observation: "
                 "returned or hang (4 s watchdog)" % (6 if tier == "quick" else 8))
    rep.assumptions = ["collect is the single-input operator OCollect of C03", "the channel is an unbounded FIFO with a closed bit; AtomicWaker a one-slot register / wake (modelled, not verified)",
                       "the at_yield case plays the producer's store and wake on the waiter's own thread at the hooked point: the same order of steps as the two-thread interleaving"]
    return rep.finish()
