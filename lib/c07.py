"""C07 - scheduler-moving operators preserve the source's sequence."""
from common import *
import xcheck
import timedcheck

OPS = [("(delay 5)", 5), ("(delay 0)", 2), ("observe_on", 2), ("(delay_subscription 5)", 5), ("subscribe_on", 2)]


def at_cases():
    cases = []
    n = 0
    for op in ("delay_at", "delay_at_threads", "delay_subscription_at", "timer_at", "interval_at"):
        for off in (3600, 30, 5, 0, -5, -3600):
            n += 1
            cases.append(("t%d" % n, "(case t%d atform %s %d)" % (n, op, off), {"opfull": op, "form": "at", "class": "at-forms"}))
    return cases


def pool_cases(tier):
    """observe_on_threads / delay_threads on a real thread pool (also under C10): two items handed over while the delivery of the first
    is still running on a pool thread - both arrive, next() returns"""
    k = 5 if tier == "quick" else 40
    return [("x96", "(case x96 handshake observe_on %d)" % k, {"kind": "threads", "op": "observe_on-pool"}),
            ("x97", "(case x97 handshake delay %d)" % k, {"kind": "threads", "op": "delay-pool"}),
            # a pulling source asks is_finished() while a delivery runs on a pool thread (seeded C07-13)
            ("x98", "(case x98 handshake iter_observe_on %d)" % k, {"kind": "threads", "op": "observe_on-pool-iter"}),
            ("x99", "(case x99 handshake iter_delay %d)" % k, {"kind": "threads", "op": "delay-pool-iter"})]


def run(tier, seed, replay=None):
    rep = Report("C07", tier, seed)
    rng = Rng(seed)
    proof_stage(rep, "C07")
    if not build_stage(rep):
        return rep.finish()
    cases = load_replay_case(replay) if replay else at_cases() + timedcheck.op_cases(OPS, tier, rng) + pool_cases(tier)
    res = correspond(rep, "C07", cases, "C07 (relay_ok, relay_complete / passthru_ok on the timed model; remaining for the _at forms)")
    xcheck.cross_check(rep, "C07", cases, res, 40 if tier == "quick" else 400)
    if not replay:
        real_timer_cases(rep, "C07_never_early (the model's assumption about new_timer; delay / delay_subscription on the real timer)")
    c = rep.coverage
    hist = {}
    for _, _, t in cases:
        key = "%s/%s/%s" % (t.get("opfull"), t.get("form"), t.get("class"))
        hist[key] = hist.get(key, 0) + 1
    c["generator_distribution"] = hist
    c["exhaustive"] = True
    c["rule"] = ("delay(5), delay(0), observe_on, delay_subscription(5), subscribe_on in local and _threads forms over a Subject input: every label "
                 "sequence of <= 4 labels over {next 1, next 2, complete, error, poll task 0/1/2, advance by w-1/w/w+1, unsubscribe, is_closed} and "
                 "random sequences of 8-21 labels in which the tasks are usually polled after each event, sometimes late, not at all, or in a random "
                 "order; observation = per label the notifications delivered with their virtual time, and is_closed answers; the _at forms "
                 "(delay_at, delay_at_threads, delay_subscription_at, timer_at, interval_at) with instants 1 h / 30 s / 5 s ahead, now, 5 s / 1 h ago: "
                 "observation = the first duration requested from the timer, in whole seconds")
    rep.assumptions = ["the executor is represented by explicit poll labels on the crate's hook scheduler: ANY task may be polled at ANY time, so every run "
                       "order of a FIFO pool or of a k-worker pool is a label sequence; the real LocalPool / ThreadPool are not run by this check",
                       "virtual timer through NEW_TIMER_FN (crate built without the `timer` feature); time in whole milliseconds; the real timer is run "
                       "separately (harness_rt, feature on): delay / delay_subscription / timer / interval x 11 delays from 0 to Duration::MAX never early",
                       "the _at forms use the real Instant::now(); durations are compared in whole seconds"]
    return rep.finish()
