"""C16 - ending a stream early retires the producers that feed it."""
import itertools
import subprocess
from common import *
import gen
import timedcheck

CUTTERS = ["(take 1)", "(take 2)", "(first)", "(first_or 9)", "(element_at 1)", "(take_while (lt 2))", "(take_while_inclusive (lt 1))",
           "(contains 1)", "(all (lt 2))"]
# every single-input operator appears as an intermediate
INTER = ["(map (add 1))", "(map_to 1)", "(filter even)", "(filter_map (add 1))", "(tap)", "(on_error_map 100)", "(skip 1)", "(skip_while (lt 1))",
         "(take_last 2)", "(skip_last 1)", "(last)", "(scan add 0)", "(default_if_empty 9)", "(distinct)", "(distinct_key (mod 2))",
         "(distinct_until_changed)", "(distinct_until_key_changed (mod 2))", "(pairwise)", "(buffer_with_count 2)", "(collect)",
         "(start_with 8)", "(take 3)", "(ignore_elements)", "(reduce_initial add 0)", "(count)", "(sum)", "(max)", "(min)", "(average)", "(last_or 9)",
         # higher-order stages that hand every item on unchanged (identity nodes in the model): the back channel has to pass through them
         "(flat_map_of)", "(concat_map_of)", "(group_flat (mod 2))", "(group_flat id)"]
OP2 = ["merge", "zip", "(combine_latest add)", "with_latest_from", "take_until", "skip_until", "sample", "buffer"]
OTHER_SCRIPTS = ["", "(n 7)", "(n 7) (n 8)", "(n 7) c", "c", "(e 3)", "(n 7) (n 8) (n 9) c"]


def chains(tier, rng):
    """operator chains: intermediates before the cutter, optionally one after it"""
    out = []
    for c in CUTTERS:
        out.append([c])
        for i in INTER:
            out.append([i, c])
            out.append([c, i])
    n2 = 300 if tier == "quick" else 3000
    for _ in range(n2):
        k = 2 + rng.below(2 if tier == "quick" else 3)
        ch = [rng.choice(INTER) for _ in range(k)]
        ch.insert(rng.below(len(ch) + 1), rng.choice(CUTTERS))
        out.append(ch)
    # chains without any cutter: the producer must run to its end
    for i in INTER[:8]:
        out.append([i])
    out.append([])
    return out


def positions_cold():
    pos = ["main"]
    for o in OP2:
        for s in OTHER_SCRIPTS:
            pos.append("(b %s (cold %s))" % (o, s))
            pos.append("(a %s (cold %s))" % (o, s))
    return pos


def iter_cases(tier, rng):
    cases = []
    n = 0
    chs = chains(tier, rng)
    pos = positions_cold()
    for ch in chs:
        for N in (0, 1, 3, 6):
            n += 1
            form = "local" if n % 2 else "threads"
            cases.append(("i%d" % n, "(case i%d retire %s (iter %d) main (ops %s))" % (n, form, N, " ".join(ch)),
                          {"kind": "iter", "pos": "main", "depth": len(ch)}))
    # notifier / second-input positions: shorter chain list, every two-input operator, both inputs
    short = [c for c in chs if len(c) <= 2]
    for p in pos[1:]:
        for ch in (short if tier == "thorough" else [short[rng.below(len(short))] for _ in range(12)]):
            n += 1
            form = "local" if n % 2 else "threads"
            cases.append(("i%d" % n, "(case i%d retire %s (iter %d) %s (ops %s))" % (n, form, 4, p, " ".join(ch)),
                          {"kind": "iter", "pos": p.split()[0].strip("(") + "/" + gen.opname(p.split()[1]) if p != "main" else "main", "depth": len(ch)}))
    # the stream is ended from the SIDE (the other input satisfies the cutter) while an operator between the iterator and the
    # two-input operator is still holding items back: nothing more is pulled
    PRE = ["(skip 2)", "(skip big)", "(element_at 3)", "(skip_while (lt 2))", "(filter (const #f))", "(ignore_elements)", "(take_last 2)", "(last)",
           "(skip_last 2)", "(map (add 1))", "(skip 1) (map (add 1))", "(buffer_with_count 3)", "(distinct)", "(scan add 0)"]
    for pre in PRE:
        for o in ("merge", "zip", "(combine_latest add)", "with_latest_from", "take_until", "sample"):
            for sd in ("a", "b"):
                for other in ("(n 7)", "(n 7) (n 8)", "(n 7) c", "c", ""):
                    for cut in ("(take 1)", "(first)", "(take_while (lt 0))", "(contains 7)"):
                        if tier == "quick" and rng.below(4):
                            continue
                        n += 1
                        form = "local" if n % 2 else "threads"
                        cases.append(("i%d" % n, "(case i%d retire %s (iter 5) (%s %s (cold %s)) (ops %s) (pre %s))" % (n, form, sd, o, other, cut, pre),
                                      {"kind": "iter", "pos": "pre/" + sd + "/" + gen.opname(o), "depth": 1}))
    return cases


def stream_cases(tier, rng):
    cases = []
    n = 0
    scripts = ["(poll 0 1 2 3 4 end)", "(poll 0 1) (poll 2 3) (poll 4 end)", "(poll) (poll 0 1 2) (poll) (poll 3 end)",
               "(poll 0) (poll 1) (poll 2) (poll 3)", "(poll end)", "(poll 0 1 2) (poll 3 4 5)"]
    chs = chains(tier, rng)
    for ch in (chs if tier == "thorough" else chs[:len(CUTTERS) * (1 + 2 * len(INTER))][::3] + chs[-9:]):
        for s in scripts:
            n += 1
            form = "local" if n % 2 else "threads"
            cases.append(("s%d" % n, "(case s%d retire %s (stream %s) main (ops %s))" % (n, form, s, " ".join(ch)),
                          {"kind": "stream", "pos": "main", "depth": len(ch)}))
    return cases


def interval_cases(tier, rng):
    cases = []
    n = 0
    chs = chains(tier, rng)
    # main position: ticks only
    for ch in chs:
        for k in (2, 5):
            n += 1
            form = "local" if n % 2 else "threads"
            cases.append(("v%d" % n, "(case v%d retire %s (interval) main (ops %s) (stims %s))" % (n, form, " ".join(ch), " ".join(["tick"] * k)),
                          {"kind": "interval", "pos": "main", "depth": len(ch)}))
    # one input of a two-input operator, the other one a subject
    short = [c for c in chs if len(c) <= 2]
    nper = 40 if tier == "quick" else 400
    for o in OP2:
        for side in ("a", "b"):
            for _ in range(nper):
                ch = short[rng.below(len(short))]
                L = 3 + rng.below(6)
                st = []
                for _ in range(L):
                    r = rng.below(10)
                    if r < 5:
                        st.append("tick")
                    elif r < 8:
                        st.append("(o (n %d))" % rng.below(3))
                    elif r < 9:
                        st.append("(o c)")
                    else:
                        st.append("(o (e 3))")
                st += ["tick", "tick"]
                n += 1
                form = "local" if n % 2 else "threads"
                cases.append(("v%d" % n, "(case v%d retire %s (interval) (%s %s hot) (ops %s) (stims %s))" % (n, form, side, o, " ".join(ch), " ".join(st)),
                              {"kind": "interval", "pos": side + "/" + gen.opname(o), "depth": len(ch)}))
    return cases


def run(tier, seed, replay=None):
    rep = Report("C16", tier, seed)
    rng = Rng(seed)
    proof_stage(rep, "C16")
    if not build_stage(rep):
        return rep.finish()
    # the periodic flush task of buffer_with_time works on the subscriber's behalf too: once the downstream reports finished it
    # must retire at its next tick, whatever is in the buffer (observed through is_closed() of the subscription)
    flush = timedcheck.op_cases([("(buffer_with_time 5)", 5), ("(buffer_with_count_and_time 2 5)", 5)], tier, rng,
                                exh_len=3, nrand=1500, finish=True)
    # a subject does not hand its terminal to an observer that reports finished (it filters them): the timed model has no
    # such input, so label sequences with an input terminal after `finish` are left out
    def term_after_finish(text):
        i = text.find(" finish")
        return i >= 0 and ("(src c)" in text[i:] or "(src (e" in text[i:])
    flush = [c for c in flush if not term_after_finish(c[1])]
    cases = load_replay_case(replay) if replay else iter_cases(tier, rng) + stream_cases(tier, rng) + interval_cases(tier, rng) + flush
    correspond(rep, "C16", cases, "C16_cut_reaches_producer / C16_iterator_stops_at_cut / C16_stream_stops_when_finished / "
                                  "C16_interval_retires_within_one_period / C16_source_agrees_*")
    c = rep.coverage
    hist = {}
    for _, _, t in cases:
        key = "%s/%s/depth%s" % (t.get("kind"), t.get("pos"), t.get("depth"))
        hist[key] = hist.get(key, 0) + 1
    c["generator_distribution"] = hist
    c["exhaustive"] = False
    c["rule"] = ("producers: a counting iterator behind from_iter (observation: number of items pulled), a scripted stream behind from_stream on "
                 "the hook scheduler (items pulled, whether its task has finished), interval on the hook scheduler under a virtual clock (whether its "
                 "task is still alive after the last tick); positions: main input, and either input of each of the 8 two-input operators with the other "
                 "input a create() script (iterator) or a subject driven by the case (interval); chains: each of 9 cutting operators alone, with each "
                 "of 34 intermediates (the single-input operators, and flat_map / concat_map over of(v) and group_by followed by flat_map as higher-order "
                 "stages) before it and after it, and random chains of depth 3-5; plus chains without a cutter; local and _threads forms; "
                 "judged by the specification (the model with every observer forwarding: pulls / liveness / trace must agree exactly); the flush task "
                 "of buffer_with_time / buffer_with_count_and_time under label sequences in which the downstream starts to report finished, its "
                 "liveness read through is_closed()")
    rep.assumptions = ["the table of `fn is_finished` bodies is regenerated from /repo/src by tools/gen_isfinished.py (syntactic classification) on every run",
                       "throttle / debounce / delay / observe_on observers forward is_finished too (see the generated table) but are not placed between "
                       "producer and cutter by the dynamic cases: behind them the end of the stream happens in a later task, after a synchronous producer has run"]
    return rep.finish()
