"""C12 - BehaviorSubject hands every new subscriber the current value first (sequential histories)."""
import itertools
from common import *
import ileave

OPS = ["sub", "(unsub 0)", "(unsub 1)", "(next 1)", "(next 2)", "(next_by (add 1))", "(next_by (mul 2))",
       "(next_sub_inside 3 0)", "clone", "peek", "complete", "(error 7)", "unsub_subject", "is_closed", "(sub_closed 0)"]
TAIL = "peek sub (next 9) peek is_finished (sub_closed 0) (sub_closed 1)"


def make_cases(tier, rng):
    cases = []
    n = 0
    def add(variant, init, ops, klass):
        nonlocal n
        n += 1
        cases.append(("k%d" % n, "(case k%d behavior %s %d (ops %s))" % (n, variant, init, " ".join(ops)),
                      {"variant": variant, "class": klass}))
    L = 4 if tier == "quick" else 5
    for k in range(L + 1):
        for h in itertools.product(OPS, repeat=k):
            if k < L:
                add("local", 0, list(h) + [TAIL], "exhaustive")
                add("threads", 0, list(h) + [TAIL], "exhaustive")
            else:
                add("local" if n % 2 else "threads", n % 3, list(h) + [TAIL], "exhaustive")
    # every callback reads the subject back (peek) while the delivery is in progress: all histories one shorter, and random ones.
    # Local form only: over SubjectThreads a callback that re-enters the subject is outside the claim (C10), and the crate's
    # actual_subscribe does hold the value mutex while it hands the current value to a new subscriber.
    for k in range(L):
        for h in itertools.product(OPS, repeat=k):
            add("local", n % 3, ["peekcb"] + list(h) + [TAIL], "peek-in-callback")
    for _ in range(3000 if tier == "quick" else 30000):
        ln = 5 + rng.below(6)
        h = [rng.choice(OPS + ["sub", "(next 0)", "(next_sub_inside 5 1)"]) for _ in range(ln)]
        add("local", rng.below(3), ["peekcb"] + h + [TAIL], "peek-in-callback")
    nrand = 30000 if tier == "quick" else 300000
    for _ in range(nrand):
        ln = 6 + rng.below(8)
        h = [rng.choice(OPS + ["len", "is_empty", "sub", "(next 0)", "(unsub 2)", "(next_sub_inside 5 1)"]) for _ in range(ln)]
        add(rng.choice(["local", "threads"]), rng.below(3), h + [TAIL], "random")
    return cases


def run(tier, seed, replay=None):
    rep = Report("C12", tier, seed)
    rng = Rng(seed)
    proof_stage(rep, "C12")
    if not build_stage(rep):
        return rep.finish()
    cases = load_replay_case(replay) if replay else make_cases(tier, rng) + ileave.cases("behavior", tier, rng, "ib", judge="c12")
    correspond(rep, "C12", cases, "C12_behavior_refines")
    c = rep.coverage
    hist = {}
    for _, _, t in cases:
        key = "%s/%s" % (t.get("variant"), t.get("class")) if "variant" in t else "interleavings/%d threads" % t.get("threads", 0)
        hist[key] = hist.get(key, 0) + 1
    c["generator_distribution"] = hist
    c["exhaustive"] = True
    c["rule"] = ("all histories of <= %d operations from 15 kinds (subscribe, unsubscribe x2, next x2, next_by x2, next with a "
                 "subscription made inside a callback, clone, peek, complete, error, unsubscribe-subject, is_closed, subscriber.is_closed), "
                 "each followed by a fixed observation tail (peek, a late subscriber, an emission), on BehaviorSubject over Subject and "
                 "over SubjectThreads; random histories of 6-13 operations; observation = all deliveries in order, peek values, API answers"
                 % (4 if tier == "quick" else 5)) + "; and " + ileave.RULE
    rep.assumptions = ["concurrent producers over the thread-safe subject: schedules with a bounded number of context switches (and random ones) of two producers / a producer and a late subscriber; the clause fails on the crate as it is (KNOWN FINDING C12-behavior-race)",
                       "len()/is_empty() while open are compared with the model only"]
    return rep.finish()
