"""C04 - multi-input combinators follow the interleaving of their inputs."""
from common import *
import ileave2
import gen

OPS = ["merge", "zip", "(combine_latest add)", "(combine_latest snd)", "with_latest_from", "take_until",
       "skip_until", "sample", "buffer"]


def side_scripts(maxlen, base, malformed):
    """Scripts of one input: items base+1.., then a terminal or none; optionally one event after the terminal."""
    out = []
    for n in range(maxlen + 1):
        items = [base + k + 1 for k in range(n)]
        for t in (None, "c", ("e", 7 + base)):
            s = items + ([t] if t is not None else [])
            out.append(s)
            if t is not None and malformed:
                out.append(s + [base + 9])
                out.append(s + ["c"])
    return out


def interleavings(a, b):
    if not a:
        yield [("b", e) for e in b]; return
    if not b:
        yield [("a", e) for e in a]; return
    for rest in interleavings(a[1:], b):
        yield [("a", a[0])] + rest
    for rest in interleavings(a, b[1:]):
        yield [("b", b[0])] + rest


def tl_text(tl):
    return "(tl %s)" % " ".join("(%s %s)" % (s, gen.ev(e)) for s, e in tl)


def make_cases(tier, rng):
    cases = []
    n = 0
    L = 3 if tier == "quick" else 4
    def add(kind, body, tags):
        nonlocal n
        n += 1
        cases.append(("k%d" % n, "(case k%d %s %s)" % (n, kind, body), tags))
    sa = side_scripts(L, 0, False)
    sb = side_scripts(L, 10, False)
    # A. hot x hot: all pairs of scripts x all interleavings, both forms
    for op in OPS:
        name = gen.opname(op)
        for a in sa:
            for b in sb:
                for tl in interleavings(a, b):
                    form = "op2" if (n % 2 == 0) else "op2_t"
                    # both forms on a deterministic half each in quick, both on everything in thorough
                    forms = ["op2", "op2_t"] if tier == "thorough" or len(tl) <= 4 else [form]
                    for f in forms:
                        add(f, "%s (ina hot) (inb hot) %s" % (op, tl_text(tl)),
                            {"op": name, "form": "threads" if f.endswith("_t") else "local", "inputs": "hot-hot"})
    # B. events after an input's own terminal (issued through cloned subject handles)
    ma = side_scripts(2, 0, True)
    mb = side_scripts(2, 10, True)
    for op in OPS:
        name = gen.opname(op)
        for a in ma:
            for b in mb:
                if len(a) + len(b) > 6:
                    continue
                tls = list(interleavings(a, b))
                for tl in tls:
                    if rng.chance(1, 3) or tier == "thorough":
                        f = "op2" if rng.chance(1, 2) else "op2_t"
                        add(f, "%s (ina hot) (inb hot) %s" % (op, tl_text(tl)),
                            {"op": name, "form": "threads" if f.endswith("_t") else "local", "inputs": "hot-hot-malformed"})
    # C. cold inputs: subscription order effects (cold x hot, hot x cold, cold x cold)
    cs = side_scripts(2, 0, False)
    cb = side_scripts(2, 10, False)
    for op in OPS:
        name = gen.opname(op)
        for a in cs:
            for b in cb:
                ea = " ".join(gen.ev(e) for e in a)
                eb = " ".join(gen.ev(e) for e in b)
                for f in ("op2", "op2_t"):
                    form = "threads" if f.endswith("_t") else "local"
                    add(f, "%s (ina cold %s) (inb cold %s) (tl)" % (op, ea, eb), {"op": name, "form": form, "inputs": "cold-cold"})
                    add(f, "%s (ina cold %s) (inb hot) %s" % (op, ea, tl_text([("b", e) for e in b])),
                        {"op": name, "form": form, "inputs": "cold-hot"})
                    add(f, "%s (ina hot) (inb cold %s) %s" % (op, eb, tl_text([("a", e) for e in a])),
                        {"op": name, "form": form, "inputs": "hot-cold"})
    return cases


def run(tier, seed, replay=None):
    rep = Report("C04", tier, seed)
    rng = Rng(seed)
    proof_stage(rep, "C04")
    # tie by translation (T5) for merge, zip, combine_latest: the observers' bodies parsed from /repo/src compute the machines
    proof_stage(rep, "C04src", limit=400)
    if not build_stage(rep):
        return rep.finish()
    cases = load_replay_case(replay) if replay else make_cases(tier, rng) + ileave2.cases(tier, rng, kinds=("op2",))
    correspond(rep, "C04", cases, "C04_combinators")
    c = rep.coverage
    hist = {}
    for _, _, t in cases:
        key = "%s/%s/%s" % (t.get("op"), t.get("form"), t.get("inputs"))
        hist[key] = hist.get(key, 0) + 1
    c["generator_distribution"] = hist
    c["exhaustive"] = True
    c["rule"] = ("8 combinators x all pairs of input scripts (0..%d numbered items, then none/complete/error) x ALL interleavings, "
                 "Subject-driven inputs, local and _threads forms; plus scripts with an event after the input's own terminal; plus "
                 "cold (create) inputs on either or both sides for subscription-order effects; non-trivial = implementation trace "
                 "non-empty; distinct = distinct case text" % (3 if tier == "quick" else 4))
    rep.assumptions = ["combine_latest is exercised with pair-returning binary operators only (the crate's impl bounds admit no other)",
                       "skip_until opening its gate on the notifier's empty completion is code behaviour recorded in the specification, outside the stated property"]
    return rep.finish()
