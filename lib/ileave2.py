"""Cases for the interleaving harness on pipelines of thread-safe operators (ileave2.rs): two-input
combinators over two SubjectThreads inputs and merge_all over hot / synchronous inner observables."""
import ileave

OP2 = ["merge", "zip", "(combine_latest add)", "with_latest_from", "take_until", "skip_until", "sample", "buffer"]

OP2_SCRIPTS = [
    ["(a (n 1)) (a (n 2))", "(b (n 5)) (b (n 6))"],
    ["(a (n 1)) (a c)", "(b (n 5)) (b c)"],
    ["(a (n 1)) (a (n 2))", "(b (n 5)) u"],
    ["(a (n 1)) (a (e 7))", "(b (n 5)) (b (n 6))"],
    ["(a (n 1))", "(b (n 5))", "u"],
    ["(a (n 1)) (a (n 2))", "(b (n 5))", "(a (n 3))"],
]

FLAT_LIMITS = ["1", "2", "inf"]
FLAT_SCRIPTS = [
    # one thread hands over the inner observables and completes the outer stream, the other drives the hot ones to their end:
    # everything must arrive and the output must complete (the limit makes the second one wait for the first)
    ("(o (hoti 0))", ["(o (coldi (n 7) c)) (o c)", "(i 0 (n 1)) (i 0 c)"]),
    ("(o (hoti 0)) (o (hoti 1))", ["(o (coldi (n 7) c)) (o c)", "(i 0 (n 1)) (i 0 c) (i 1 (n 5)) (i 1 c)"]),
    # two running inner observables end on two threads while synchronous ones wait for a slot: the one that hands its slot on
    # starts a waiting one (which runs to its end at once) while the other one's completion arrives
    ("(o (hoti 0)) (o (hoti 1)) (o (coldi (n 7) c)) (o c)", ["(i 0 c)", "(i 1 c)"]),
    ("(o (hoti 0)) (o (hoti 1)) (o (coldi (n 7) c)) (o (coldi (n 8) c)) (o c)", ["(i 0 (n 1)) (i 0 c)", "(i 1 (n 5)) (i 1 c)"]),
    ["(o (hoti 0)) (i 0 (n 1))", "(o (hoti 1)) (i 1 (n 5))"],
    ["(o (hoti 0)) (i 0 (n 1)) (i 0 c)", "(o (coldi (n 7) (n 8) c)) (o c)"],
    ["(o (hoti 0)) (i 0 (n 1))", "u"],
    ["(o (hoti 0)) (o (coldi (n 7) c))", "(i 0 (n 1)) (i 0 c)", "u"],
    ["(o (coldi (n 7) c)) (o (coldi (n 8) c))", "(o (hoti 0)) (i 0 (n 1)) (i 0 (e 3))"],
]


HOT_SCRIPTS = [
    ["(a (n 1)) (a c)", "closed closed"],
    ["(a (n 1)) (a (e 3))", "closed", "closed"],
    ["(a (n 1)) (a (n 2))", "u closed", "closed closed"],
    ["(a c)", "u", "closed closed"],
]

SHARE_SCRIPTS = [
    # two subscribers from the prologue; one leaves from another thread while the source emits: the other one keeps receiving
    ("(sub 0) (sub 1)", ["(a (n 1)) (a (n 2))", "(unsub 0)"]),
    ("(sub 0) (sub 1) (a (n 5))", ["(a (n 1)) (a (n 2))", "(unsub 1)", "(sub 2)"]),
    ["(sub 0) (a (n 1)) (unsub 0)", "(sub 1) (a (n 2))"],
    ["(sub 0) (a (n 1))", "(sub 1) (unsub 1)", "(a (n 2))"],
    ["(sub 0) (unsub 0) (sub 2)", "(sub 1) (a (n 1)) (a c)"],
    ["(sub 0) (a (n 1)) (a (e 3))", "(sub 1) (unsub 1) (sub 2)"],
]

FIN_SCRIPTS = [
    ["(a (n 1)) (a c)", "u"],
    ["(a (e 3))", "u"],
    ["(a c)", "(a (e 3))"],
    ["(a (n 1)) (a c)", "u", "(a (e 3))"],
]


def cases(tier, rng, prefix="j", kinds=("op2", "flat", "fin", "hot", "share"), only_unsub=False):
    cs = []
    n = 0
    def add(pipe, threads, klass):
        nonlocal n
        setup = ""
        if isinstance(threads, tuple):
            setup, threads = threads
        nt = len(threads)
        maxrun = (6 if tier == "quick" else 12) if nt == 2 else (5 if tier == "quick" else 8)
        sw = 3 if nt == 2 else (2 if tier == "quick" else 3)
        scheds = ileave.schedules(nt, maxrun, sw)
        for _ in range(60 if tier == "quick" else 800):
            scheds.append([rng.below(nt) for _ in range(40)])
        seen = set()
        for sc in scheds:
            key = tuple(sc)
            if key in seen:
                continue
            seen.add(key)
            n += 1
            full = sc + ileave.tail(nt)
            cs.append(("%s%d" % (prefix, n),
                       "(case %s%d ileave2 %s (threads %s) (sched %s)%s)" % (prefix, n, pipe, " ".join("(%s)" % t for t in threads), " ".join(map(str, full)),
                                                                           (" (setup %s)" % setup) if setup else ""),
                       {"kind": klass, "pipe": pipe, "threads": nt, "scripts": " | ".join(threads)}))
    def want(th):
        th = th[1] if isinstance(th, tuple) else th
        return (not only_unsub) or any("u" in t.split() for t in th)
    if "op2" in kinds:
        for o in OP2:
            for th in OP2_SCRIPTS:
                if want(th):
                    add("(op2 %s)" % o, th, "op2")
    if "flat" in kinds:
        for lim in FLAT_LIMITS:
            for th in FLAT_SCRIPTS:
                # a hot inner observable that waits for a slot misses what happens to it meanwhile (it is a Subject): with two of
                # them handed over in the prologue the limit has to admit both
                # (and with no limit the synchronous ones would run inside the prologue, whose deliveries are not part of the trace)
                if lim != "2" and isinstance(th, tuple) and th[0].count("hoti") > 1 and "coldi" in th[0]:
                    continue
                if want(th):
                    add("(flat %s)" % lim, th, "flat")
    if "fin" in kinds:
        for th in FIN_SCRIPTS:
            add("(fin)", th, "fin")
    if "share" in kinds and not only_unsub:
        for th in SHARE_SCRIPTS:
            add("(share)", th, "share")
    if "hot" in kinds and not only_unsub:
        for th in HOT_SCRIPTS:
            add("(hot)", th, "hot")
    return cs


RULE = ("real threads on pipelines of thread-safe operators under explicit schedules (the controller of the subject interleavings): merge, zip, "
        "combine_latest, with_latest_from, take_until, skip_until, sample over two SubjectThreads inputs x %d sets of thread scripts, and "
        "merge_all_threads(1 | 2 | unbounded) over hot and synchronous inner observables x %d sets, share_threads with subscribers joining "
        "and leaving while the source emits (connected at most once, each item at most once per subscriber), finalize_threads with a terminating "
        "and an unsubscribing thread, an unsubscribing thread included throughout; every "
        "schedule with <= 2 (thorough 3) context switches plus random ones; judged for deadlock, panic, a call that does not return, overlapping "
        "callbacks, the notification grammar, silence after unsubscribe() returned, every inner observable's items at most once and in order, "
        "the finalize callback exactly once and not before its trigger, is_closed() of a subject's subscription asked by other threads while "
        "it is being terminated or unsubscribed (true means nothing is delivered afterwards); the two-input operators are tied to the sequential model: the "
        "delivered sequence must be what Ops2.run_op2 gives for SOME merge of the threads' operations that keeps each thread's order (a "
        "difference is reported as a broken correspondence, not as a failing input)" % (len(OP2_SCRIPTS), len(FLAT_SCRIPTS)))
