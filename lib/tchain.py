"""Cases that put a scheduler-using operator between two chains of single-input operators (the composition
theorem C01_timed_inside_a_pipeline; model: the three models composed in the OCaml runner)."""
import tgen

OPS = [("(delay 5)", 5), ("observe_on", 2), ("(debounce 5)", 5), ("(throttle 5 leading)", 5), ("(throttle 5 tailing)", 5), ("(throttle 5 all)", 5),
       ("(buffer_with_time 5)", 5), ("(buffer_with_count_and_time 2 5)", 5), ("(delay_subscription 5)", 5), ("subscribe_on", 2)]
PRE = ["", "(map (add 1))", "(filter even)", "(take 2)", "(skip 1)", "(scan add 0)", "(distinct_until_changed)", "(pairwise)", "(take_while (lt 3))", "(last)",
       "(buffer_with_count 2)", "(on_error_map 100)"]
POST = ["", "(take 1)", "(take 2)", "(map (add 1))", "(skip 1)", "(last)", "(count)", "(first)", "(take_last 2)", "(default_if_empty 9)", "(collect)",
        "(take_while (lt 3))"]


def cases(tier, rng, prefix="y"):
    cs = []
    n = 0
    per = 40 if tier == "quick" else 600
    for op, w in OPS:
        for _ in range(per):
            pre = rng.choice(PRE)
            post = rng.choice(POST)
            # buffers deliver lists: the chain behind them must not do arithmetic
            if "buffer" in op and post in ("(map (add 1))", "(take_while (lt 3))"):
                post = "(take 2)"
            if pre == "(buffer_with_count 2)" and ("throttle" in op or "debounce" in op or True):
                pass
            seq = [l for l in tgen.random_seq(rng, True, max(2, w), 6 + rng.below(12)) if l != "closed"]
            n += 1
            form = "local" if n % 2 else "threads"
            cs.append(("%s%d" % (prefix, n), "(case %s%d timedchain %s %s (pre %s) (post %s) (labels %s))" % (prefix, n, form, op, pre, post, " ".join(seq)),
                       {"kind": "timedchain", "op": op, "opfull": op, "form": form, "class": "composed", "how": "composed"}))
    return cs


RULE = ("a scheduler-using operator (delay, observe_on, debounce, throttle x 3, buffer_with_time, buffer_with_count_and_time, delay_subscription, "
        "subscribe_on) with a single-input operator in front of it and one behind it (12 x 12 choices), over a subject, on the hook scheduler "
        "with a virtual clock, random label sequences of 6-17 labels; compared with the composition of the chain model, the timed model and the "
        "back channel (the chain behind reporting finished), and judged for the grammar and the silence after unsubscribe")


OPS2 = [("(delay 5)", 5), ("observe_on", 2), ("(debounce 5)", 5), ("(buffer_with_time 5)", 5), ("(buffer_with_count_and_time 2 5)", 5),
        ("(delay_subscription 5)", 5), ("subscribe_on", 2), ("(throttle 5 leading)", 5), ("(throttle 5 all)", 5), ("(throttle 2 tailing)", 2)]


def two_cases(tier, rng, prefix="z"):
    """two subscriptions made from clones of one scheduler-using operator value"""
    cs = []
    n = 0
    per = 150 if tier == "quick" else 2500
    for op, w in OPS2:
        for _ in range(per):
            seq = []
            ntasks = 4
            unsubbed = set()
            item = 0
            for _ in range(6 + rng.below(12)):
                r = rng.below(100)
                if r < 30:
                    k = rng.below(10)
                    if k < 7:
                        item += 1
                        seq.append("(src (n %d))" % item)
                    elif k < 9:
                        seq.append("(src c)")
                    else:
                        seq.append("(src (e 7))")
                    ntasks += 2
                elif r < 50:
                    seq.append("(adv %d)" % rng.choice([1, w - 1 if w > 1 else 1, w, w, w + 1, 2 * w + 1]))
                elif r < 60 and len(unsubbed) < 2:
                    k = rng.below(2)
                    if k not in unsubbed:
                        unsubbed.add(k)
                        seq.append("(unsub %d)" % k)
                else:
                    seq.append("(run %d)" % rng.below(ntasks))
                if rng.below(100) < 50:
                    order = list(range(ntasks))
                    if rng.chance(1, 4):
                        for i in range(len(order) - 1, 0, -1):
                            j = rng.below(i + 1)
                            order[i], order[j] = order[j], order[i]
                    seq += ["(run %d)" % t for t in order]
            n += 1
            form = "local" if n % 2 else "threads"
            cs.append(("%s%d" % (prefix, n), "(case %s%d timed2 %s %s (labels %s))" % (prefix, n, form, op, " ".join(seq)),
                       {"kind": "timed2", "op": op, "opfull": op, "form": form, "class": "two-subscriptions"}))
    return cs


RULE2 = ("two subscriptions made from clones of ONE operator value (delay, observe_on, debounce, throttle_time, buffer_with_time, buffer_with_count_and_time, "
         "delay_subscription, subscribe_on) over a subject, on the hook scheduler with a virtual clock: random label sequences (input events, "
         "polls of any of the tasks of either subscription, clock advances, unsubscription of either one); compared with two independent timed "
         "systems fed the same input")
