"""Shared driver of the checks that use the timed system (C07, C08, C09, later C02/C16)."""
from common import *
import xcheck
import tgen


def op_cases(ops, tier, rng, forms=("local", "threads"), exh_len=4, nrand=4000, finish=False, has_src=True):
    cases = []
    n = 0
    def add(form, op, seq, klass):
        nonlocal n
        n += 1
        cases.append(("k%d" % n, "(case k%d timed %s %s (labels %s))" % (n, form, op, " ".join(seq)),
                      {"op": op.strip("()").split(" ")[0], "opfull": op, "form": form, "class": klass, "len": len(seq)}))
    for op, window in ops:
        alpha = tgen.alphabet(op, has_src=has_src, ntasks=3, advs=(max(1, window - 1), window, window + 1) if window > 1 else (1, 2))
        if finish:
            alpha = alpha + ["finish"]
        for seq in tgen.exhaustive(alpha, exh_len if tier == "quick" else exh_len + 1):
            add(forms[n % len(forms)], op, seq, "exhaustive")
        for _ in range(nrand if tier == "quick" else nrand * 10):
            seq = tgen.random_seq(rng, has_src, max(2, window), 8 + rng.below(14), finish=finish)
            add(forms[rng.below(len(forms))], op, seq, "random")
    return cases


def run_timed_check(pid, prop_file, theorem, ops, rule, assumptions, tier, seed, replay, extra=None, post=None, **kw):
    rep = Report(pid, tier, seed)
    rng = Rng(seed)
    proof_stage(rep, prop_file)
    if not build_stage(rep):
        return rep.finish()
    cases = load_replay_case(replay) if replay else op_cases(ops, tier, rng, **kw) + (extra(tier, rng) if extra else [])
    res = correspond(rep, pid, cases, theorem)
    xcheck.cross_check(rep, pid, cases, res, 40 if tier == "quick" else 400)
    if post and not replay:
        post(rep)
    c = rep.coverage
    hist = {}
    for _, _, t in cases:
        key = "%s/%s/%s" % (t.get("opfull"), t.get("form"), t.get("class"))
        hist[key] = hist.get(key, 0) + 1
    c["generator_distribution"] = hist
    c["exhaustive"] = True
    c["rule"] = rule
    rep.assumptions = assumptions + [
        "the executor is represented by explicit poll labels on the crate's hook scheduler: ANY task may be polled at ANY time, so every run order of a "
        "FIFO pool or a k-worker pool is a label sequence; the real LocalPool / ThreadPool executors themselves are not run by this check",
        "virtual timer through NEW_TIMER_FN (crate built without the `timer` feature); time in whole milliseconds"]
    return rep.finish()
