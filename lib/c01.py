"""C01 - items, then at most one terminal, then nothing: pipelines as trees."""
from common import *
import tchain
import gen

OP2 = ["merge", "zip", "(combine_latest add)", "(combine_latest fst)", "with_latest_from", "take_until", "skip_until", "sample", "buffer"]
# the single-input operators, and higher-order stages that hand every item on unchanged (flat_map / concat_map over of(v), group_by
# followed by flat_map): identity nodes in the model, several times each so that they are drawn as often as a dozen plain operators
UOPS = gen.uop_instances(3) + ["(flat_map_of)", "(concat_map_of)", "(group_flat (mod 2))", "(group_flat id)"] * 4
COLD = ["", "(n 1)", "(n 1) (n 2)", "(n 1) c", "c", "(e 3)", "(n 1) (e 3)", "(n 1) c (n 2)", "(e 3) c", "(n 1) (n 2) c c"]
SRCS = ["(of 1)", "(of_none)", "(of_err 7)", "(from_iter 1 2 0)", "(from_iter)", "(repeat 2 2)", "(empty)", "(never)", "(throw 7)", "(start 1)"]


def leaf(rng):
    r = rng.below(100)
    if r < 70:
        return "(hot %d)" % rng.below(3)
    if r < 85:
        return "(cold %s)" % rng.choice(COLD)
    return "(src %s)" % rng.choice(SRCS)


def pipe(rng, depth):
    if depth == 0:
        return leaf(rng)
    r = rng.below(100)
    if r < 45:
        k = 1 + rng.below(3)
        return "(chain %s (ops %s))" % (pipe(rng, depth - 1), " ".join(rng.choice(UOPS) for _ in range(k)))
    if r < 88:
        return "(op2 %s %s %s)" % (rng.choice(OP2), pipe(rng, depth - 1), pipe(rng, depth - 1))
    return leaf(rng)


def stims(rng):
    out = []
    for _ in range(3 + rng.below(10)):
        i = rng.below(3)
        r = rng.below(100)
        if r < 66:
            out.append("(%d (n %d))" % (i, rng.below(3)))
        elif r < 84:
            out.append("(%d c)" % i)
        else:
            out.append("(%d (e %d))" % (i, 3 + rng.below(2)))
    return " ".join(out)


def depth_of(p):
    d = m = 0
    for ch in p:
        if ch == "(":
            d += 1
            m = max(m, d)
        elif ch == ")":
            d -= 1
    return m


def cases_for(tier, rng):
    cases = []
    n = 0
    # every two-input operator over every pair of small subtrees, both observation styles
    small = ["(hot 0)", "(hot 1)", "(chain (hot 0) (ops (take 1)))", "(chain (hot 1) (ops (skip 1)))", "(cold (n 1) c)", "(cold (e 3))", "(src (of 1))",
             "(src (never))"]
    for o in OP2:
        for a in small:
            for b in small:
                for _ in range(2 if tier == "quick" else 6):
                    n += 1
                    form = "local" if n % 2 else "threads"
                    idiom = " idiom" if (n // 2) % 2 else ""
                    cases.append(("t%d" % n, "(case t%d tree %s (op2 %s %s %s) (stims %s)%s)" % (n, form, o, a, b, stims(rng), idiom),
                                  {"kind": "pairs", "root": gen.opname(o), "idiom": bool(idiom)}))
    nrand = 20000 if tier == "quick" else 250000
    for _ in range(nrand):
        n += 1
        d = 1 + rng.below(3 if tier == "quick" else 4)
        p = pipe(rng, d)
        form = "local" if n % 2 else "threads"
        idiom = " idiom" if (n // 2) % 2 else ""
        cases.append(("t%d" % n, "(case t%d tree %s %s (stims %s)%s)" % (n, form, p, stims(rng), idiom),
                      {"kind": "random", "root": p.split()[0].strip("("), "depth": d, "idiom": bool(idiom)}))
    return cases


def run(tier, seed, replay=None):
    rep = Report("C01", tier, seed)
    rng = Rng(seed)
    proof_stage(rep, "C01")
    # tie by translation (T5): the three observers of the closure idiom, parsed from /repo/src, call exactly the closure meant
    proof_stage(rep, "C01src", limit=400)
    if not build_stage(rep):
        return rep.finish()
    cases = load_replay_case(replay) if replay else cases_for(tier, rng) + tchain.cases(tier, rng)
    correspond(rep, "C01", cases, "C01_pipeline_grammar / C01_two_inputs_any_timeline / C01_closure_idiom")
    c = rep.coverage
    hist = {}
    for _, _, t in cases:
        key = "%s/%s/depth%s/%s" % (t.get("kind"), t.get("root"), t.get("depth", 1), "idiom" if t.get("idiom") else "probe")
        hist[key] = hist.get(key, 0) + 1
    c["generator_distribution"] = hist
    c["exhaustive"] = False
    c["rule"] = ("random pipeline trees of depth 1-%d over three subjects (the same subject may occur several times), create() scripts (malformed ones "
                 "included) and basic sources; inner nodes: chains of 1-3 of the %d single-input operator instances, and the 8 two-input operators; "
                 "3-12 calls on the subjects per case, 34%% of them terminals, so that calls after an input's own terminal and several terminals are "
                 "the rule; observed by the recording probe and by the closure idiom .on_error(f).on_complete(g).subscribe(h); judged by the grammar "
                 "predicate wf on the implementation's own trace and compared with the model's execution of the same tree; plus every two-input "
                 "operator over all pairs of 8 small subtrees; local and _threads forms" % (3 if tier == "quick" else 4, len(UOPS))) + "; and " + tchain.RULE
    rep.assumptions = ["flattening operators and group_by occur inside the trees only in the forms flat_map(of) / concat_map(of) / group_by + flat_map "
                       "(identity nodes of the model); their general grammar is decided by C01_flattening / C01_groups here and by the C05 / C20 / C06 correspondences; scheduler-using operators are composed with one operator on either side",
                       "user callbacks do not re-enter the pipeline"]
    return rep.finish()
