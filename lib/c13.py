"""C13 - cold pipelines are lazy and every subscription is independent."""
from common import *
import gen
import tchain

SRCS = ["(of_fn 1)", "(start 2)", "(defer (of_fn 1))", "(defer (defer (start 2)))", "(create (n 1) (n 2) (n 0) c)", "(create (n 1) (e 3))", "(create)",
        "(create (n 2) (n 2) c (n 1))", "(defer (create (n 0) (n 1) (n 2) (n 1) c))", "(iter 0)", "(iter 1)", "(iter 4)", "(defer (iter 3))", "(coll 0)", "(coll 3)", "(defer (coll 2))"]
MODES = ["(seq 2)", "(seq 3)", "(nested 1)", "(nested 2)"]


def cases_for(tier, rng):
    cases = []
    n = 0
    uops = gen.uop_instances(3)
    # every operator instance alone (its state must be per subscription)
    for u in uops:
        for s in SRCS if tier == "thorough" else [SRCS[4], SRCS[8], SRCS[11], SRCS[14]]:
            for m in MODES:
                n += 1
                form = "local" if n % 2 else "threads"
                cases.append(("q%d" % n, "(case q%d indep %s %s (ops %s) %s)" % (n, form, s, u, m),
                              {"kind": "single", "op": gen.opname(u), "mode": m.strip("()").split()[0]}))
    nrand = 6000 if tier == "quick" else 80000
    for _ in range(nrand):
        k = rng.below(4)
        ch = [rng.choice(uops) for _ in range(k)]
        n += 1
        form = "local" if n % 2 else "threads"
        m = rng.choice(MODES)
        cases.append(("q%d" % n, "(case q%d indep %s %s (ops %s) %s)" % (n, form, rng.choice(SRCS), " ".join(ch), m),
                      {"kind": "chain", "depth": k, "mode": m.strip("()").split()[0]}))
    return cases


def run(tier, seed, replay=None):
    rep = Report("C13", tier, seed)
    rng = Rng(seed)
    proof_stage(rep, "C13")
    if not build_stage(rep):
        return rep.finish()
    cases = load_replay_case(replay) if replay else cases_for(tier, rng) + tchain.two_cases(tier, rng)
    correspond(rep, "C13", cases, "C13_successive_subscriptions_agree / C13_nested_subscriptions_agree / C13_no_shared_cell_in_pipeline_values")
    c = rep.coverage
    hist = {}
    for _, _, t in cases:
        key = "%s/%s/%s" % (t.get("kind"), t.get("mode", "overlapping"), t.get("depth", t.get("op")))
        hist[key] = hist.get(key, 0) + 1
    c["generator_distribution"] = hist
    c["exhaustive"] = False
    c["rule"] = ("cold sources whose closures / iterator count their calls (of_fn, start, defer - also nested -, create, from_iter over a counting "
                 "iterator and over a collection whose into_iter() counts) followed by a counting map and a chain of 0-3 of the single-input operator instances (each instance also alone); the "
                 "pipeline value is built, the counters are read (must be 0), then clones of it are subscribed twice or three times in a row, or "
                 "the second clone from inside the first subscriber's 1st / 2nd callback; observation: every subscription's trace and the counters; "
                 "specification: all traces equal the pure run and the counters are (number of subscriptions) x (calls of one); and " + tchain.RULE2)
    rep.assumptions = ["closures supplied by the user are themselves free of shared state", "futures (from_future) are not in the dynamic cases"]
    return rep.finish()
