"""Label sequences for the timed system (Timed.v): exhaustive short ones and biased random long ones."""
import itertools


def alphabet(op, has_src=True, ntasks=3, advs=(2, 5)):
    a = []
    if has_src:
        a += ["(src (n 1))", "(src (n 2))", "(src c)", "(src (e 7))"]
    a += ["(run %d)" % t for t in range(ntasks)]
    a += ["(adv %d)" % d for d in advs]
    a += ["unsub", "closed"]
    return a


def exhaustive(alpha, maxlen):
    for n in range(1, maxlen + 1):
        for seq in itertools.product(alpha, repeat=n):
            # canonical pruning: nothing interesting after a second unsub; no two consecutive `closed`
            if seq.count("unsub") > 1:
                continue
            if any(seq[i] == "closed" and seq[i + 1] == "closed" for i in range(len(seq) - 1)):
                continue
            # `closed` after `unsub` cannot be asked (the handle is consumed)
            if "unsub" in seq and "closed" in seq[seq.index("unsub"):]:
                continue
            yield list(seq)


def random_seq(rng, has_src, window, length, finish=False, prompt_pct=60):
    """Biased random sequence: after a source event or a clock advance the executor usually polls
    the tasks (in a random order); sometimes it does not, or polls late, or in the wrong order."""
    seq = []
    ntasks = 0
    unsubbed = False
    item = 0
    while len(seq) < length:
        r = rng.below(100)
        if has_src and r < 35:
            k = rng.below(10)
            if k < 7:
                item += 1
                seq.append("(src (n %d))" % item)
            elif k < 9:
                seq.append("(src c)")
            else:
                seq.append("(src (e 7))")
            ntasks += 1
        elif r < 60:
            seq.append("(adv %d)" % rng.choice([1, window - 1, window, window, window + 1, 2 * window + 1]))
        elif r < 66 and not unsubbed:
            seq.append("unsub"); unsubbed = True
        elif r < 72 and not unsubbed:
            seq.append("closed")
        elif r < 75 and finish:
            seq.append("finish")
        else:
            seq.append("(run %d)" % rng.below(max(1, ntasks + 1)))
            continue
        if rng.below(100) < prompt_pct:
            order = list(range(ntasks + 1))
            if rng.chance(1, 4):
                # any order
                for i in range(len(order) - 1, 0, -1):
                    j = rng.below(i + 1)
                    order[i], order[j] = order[j], order[i]
            seq += ["(run %d)" % t for t in order]
    return seq
