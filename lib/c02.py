"""C02 - after unsubscribe() returns the subscriber is never called again."""
from common import *
import xcheck
import ileave
import ileave2
import tchain
import gen
import tgen
import c04
import c05

TIMED = [("(delay 5)", 5, True), ("(delay 0)", 2, True), ("observe_on", 2, True), ("(delay_subscription 5)", 5, True), ("subscribe_on", 2, True),
         ("(debounce 5)", 5, True), ("(throttle 5 leading)", 5, True), ("(throttle 5 tailing)", 5, True), ("(throttle 5 all)", 5, True),
         ("(buffer_with_time 5)", 5, True), ("(buffer_with_count_and_time 2 5)", 5, True),
         ("(interval 5)", 5, False), ("(interval_at 3 5)", 5, False), ("(timer 7 5)", 5, False)]


def timed_cases(tier, rng):
    cases = []
    n = 0
    nper = 1500 if tier == "quick" else 15000
    for op, w, has_src in TIMED:
        for _ in range(nper):
            if has_src and rng.chance(1, 4):
                # an executor that runs ready tasks out of order: several events with their tasks left waiting, some of the
                # tasks polled in a random order (later ones before earlier ones), the window passing in between, more events
                k = 2 + rng.below(3)
                pre = ["(src (n %d))" % (i + 1) for i in range(k)]
                ts = list(range(k))
                for i in range(len(ts) - 1, 0, -1):
                    j = rng.below(i + 1)
                    ts[i], ts[j] = ts[j], ts[i]
                some = ts[:1 + rng.below(k)]
                pre += ["(run %d)" % t for t in some]
                if rng.chance(1, 2):
                    pre += ["(adv %d)" % w] + ["(run %d)" % t for t in some[:1 + rng.below(len(some))]]
                pre += ["(src (n %d))" % (k + 1 + i) for i in range(rng.below(3))]
            else:
                pre = tgen.random_seq(rng, has_src, w, rng.below(9), prompt_pct=70)
            pre = [l for l in pre if l not in ("unsub", "closed")]
            how = "unsub" if rng.chance(1, 2) else "drop"
            # afterwards: the input keeps emitting, the clock passes every window, every task is polled in some order, twice
            ntasks = 2 + sum(1 for l in pre if l.startswith("(src"))
            order = list(range(ntasks))
            for i in range(len(order) - 1, 0, -1):
                j = rng.below(i + 1)
                order[i], order[j] = order[j], order[i]
            runs = ["(run %d)" % t for t in order]
            post = []
            if has_src:
                post += ["(src (n 8))"]
            post += runs + ["(adv %d)" % (w + 1)] + runs
            if has_src:
                post += ["(src (n 9))", "(src c)"]
            post += ["(adv %d)" % (2 * w)] + ["(run %d)" % t for t in range(ntasks + 2)]
            n += 1
            form = "local" if n % 2 else "threads"
            cases.append(("t%d" % n, "(case t%d timed %s %s (labels %s))" % (n, form, op, " ".join(pre + [how] + post)),
                          {"kind": "timed", "op": op, "how": how}))
    return cases


def chain_cases(tier, rng):
    cases = []
    n = 0
    ops = gen.uop_instances(3)
    scripts = [s for s in gen.scripts(3) if len(s) >= 1]
    for u in ops:
        for s in scripts:
            evs = " ".join(gen.ev(e) for e in s + [1, "c"])
            for k in range(len(s) + 1):
                if tier == "quick" and rng.chance(1, 2):
                    continue
                n += 1
                how = "u" if n % 2 else "ud"
                cases.append(("c%d" % n, "(case c%d hotchain (calls %s) (ops %s) (cut %d %s))" % (n, evs, u, k, how),
                              {"kind": "chain", "op": gen.opname(u), "how": how}))
    return cases


def op2_cases(tier, rng):
    cases = []
    n = 0
    sa = c04.side_scripts(2, 0, False)
    sb = c04.side_scripts(2, 10, False)
    for op in c04.OPS:
        for a in sa:
            for b in sb:
                for tl in c04.interleavings(a, b):
                    for k in range(len(tl) + 1):
                        if rng.chance(2, 3) and tier == "quick":
                            continue
                        n += 1
                        how = "(u)" if n % 2 else "(ud)"
                        items = ["(%s %s)" % (s, gen.ev(e)) for s, e in tl]
                        # after the cut both inputs keep emitting
                        text = " ".join(items[:k] + [how] + items[k:] + ["(a (n 5))", "(b (n 15))", "(a c)", "(b c)"])
                        f = "op2" if n % 3 else "op2_t"
                        cases.append(("o%d" % n, "(case o%d %s %s (ina hot) (inb hot) (tl %s))" % (n, f, op, text),
                                      {"kind": "op2", "op": gen.opname(op), "how": how}))
    return cases


def flatten_cases(tier, rng):
    cases = []
    n = 0
    seqs = [s for s in c05.sequences(4, 3) if len(s) >= 1]
    for seq in seqs:
        for k in range(len(seq) + 1):
            hots = sum(1 for x in seq if "hoti" in x)
            if hots < 2 and rng.chance(3, 4) and tier == "quick":
                continue
            n += 1
            how = "(u)" if n % 2 else "(ud)"
            hots = sum(1 for x in seq if "hoti" in x)
            tail = ["(i %d (n 30))" % h for h in range(hots)] + ["(i %d c)" % h for h in range(hots)] + ["(o (coldi (n 40) c))", "(o c)"]
            api, lim = c05.APIS[n % len(c05.APIS)]
            form = "local" if n % 3 else "threads"
            cases.append(("f%d" % n, "(case f%d flatten %s %s %s (stims %s))" % (n, form, api, lim, " ".join(seq[:k] + [how] + seq[k:] + tail)),
                          {"kind": "flatten", "op": api, "how": how}))
    return cases


def run(tier, seed, replay=None):
    rep = Report("C02", tier, seed)
    rng = Rng(seed)
    proof_stage(rep, "C02")
    # tie by translation (T5): Subscriber, the slot between a hot source and its observer, parsed from /repo/src, is the slot machine
    proof_stage(rep, "C02src", limit=400)
    if not build_stage(rep):
        return rep.finish()
    if replay:
        cases = load_replay_case(replay)
    else:
        cases = (timed_cases(tier, rng) + chain_cases(tier, rng) + op2_cases(tier, rng) + flatten_cases(tier, rng)
                 + ileave.cases("subject", tier, rng, "is", only=lambda setup, threads: any("unsub" in t for t in threads))
                 + ileave2.cases(tier, rng, only_unsub=True)
                 + tchain.cases(tier, rng)
                 + [("x1", "(case x1 unsub_race %d)" % (10 if tier == "quick" else 60), {"kind": "threads", "op": "subscribe_on", "how": "pool"}),
                    # a guard dropped because its scope is left by a panic
                    ("x2", "(case x2 guard_unwind)", {"kind": "guard", "op": "subject", "how": "unwinding"})])
    res = correspond(rep, "C02", cases, "C02 (silence after unsubscribe: timed_ok / cut specifications / silent_after_unsub)")
    xcheck.cross_check(rep, "C02", cases, res, 40 if tier == "quick" else 400)
    if not replay:
        real_timer_cases(rep, "C02 (unsubscribe() against an item in flight on another thread, real timers)", which="races")
    c = rep.coverage
    hist = {}
    for _, _, t in cases:
        key = "%s/%s/%s" % (t.get("kind"), t.get("op"), t.get("how")) if "threads" not in t else "interleavings/%d threads" % t["threads"]
        hist[key] = hist.get(key, 0) + 1
    c["generator_distribution"] = hist
    c["exhaustive"] = False
    c["rule"] = ("unsubscribe() or the drop of an unsubscribe_when_dropped() guard injected at every position of: (a) 14 scheduler-using "
                 "operators / time sources on the hook scheduler: a random prefix of input events, clock advances and polls, then the input keeps "
                 "emitting, the clock passes every window and every task is polled in a random order, twice; (b) every single-input operator "
                 "behind a Subject x scripts <= 3 x every cut position; (c) the 8 two-input combinators x script pairs <= 2 x all interleavings x every "
                 "cut position, both inputs emitting afterwards; (d) flattening operators x all stimulus sequences <= 4 x every cut position, hot "
                 "inner observables and the outer stream emitting afterwards; observation = everything delivered, judged by 'nothing after the "
                 "unsubscribe returned' and compared with the model; a create() source emitting from a thread-pool task (subscribe_on) while its "
                 "subscription is unsubscribed from another thread; (e) an unsubscribing thread against emitting threads: " + ileave.RULE)
    rep.assumptions = ["the lock-level interleavings of an unsubscribing thread with an emitting thread are explored on SubjectThreads only (schedules with a bounded number of context switches, and random ones)",
                       "share()/ref_count pipelines are decided under C11"]
    return rep.finish()
