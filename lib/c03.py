"""C03 - sources and single-input operators compute their documented sequence."""
import os
from common import *
import xcheck
import gen


def make_cases(tier, rng):
    cases = []   # (id, text, tags)
    L1 = 4 if tier == "quick" else 5
    ops = gen.uop_instances(5)
    scripts = list(gen.scripts(L1))
    n = 0
    def add(kind, body, tags):
        nonlocal n
        n += 1
        cases.append(("k%d" % n, "(case k%d %s %s)" % (n, kind, body), tags))
    # A. exhaustive: every operator instance x every script, cold (create) and hot (subject)
    for u in ops:
        for s in scripts:
            evs = " ".join(gen.ev(e) for e in s)
            add("chain", "(create %s) (ops %s)" % (evs, u), {"op": gen.opname(u), "kind": "cold", "depth": 1})
            add("hotchain", "(calls %s) (ops %s)" % (evs, u), {"op": gen.opname(u), "kind": "hot", "depth": 1})
    # B. every basic source, alone and under one operator
    srcs = ["(of 1)", "(of (p 1 2))", "(of_some 2)", "(of_none)", "(of_ok 1)", "(of_err 7)", "(of_fn 3)", "(start 4)",
            "(from_iter)", "(from_iter 0 1 2 1)", "(repeat 2 0)", "(repeat 2 3)", "(empty)", "(never)", "(throw 5)",
            "(create (n 1) c (n 2) c)", "(create (n 1) (e 3) (n 2) c (e 4))", "(create (n 0) (n 1))"]
    unit_ok = {"map", "map_to", "filter", "tap", "on_error_map", "take", "skip", "take_last", "skip_last", "last",
               "first", "first_or", "last_or", "element_at", "ignore_elements", "default_if_empty", "distinct",
               "distinct_until_changed", "pairwise", "collect", "start_with", "count", "buffer_with_count", "contains",
               "take_while", "skip_while", "take_while_inclusive", "all", "filter_map", "distinct_key",
               "distinct_until_key_changed", "scan", "reduce_initial"}
    for src in srcs:
        add("chain", "%s (ops)" % src, {"op": src.strip("()").split(" ")[0], "kind": "source", "depth": 0})
        for u in ops:
            if src in ("(never)", "(throw 5)", "(of (p 1 2))") and gen.opname(u) not in unit_ok:
                continue
            add("chain", "%s (ops %s)" % (src, u), {"op": gen.opname(u), "kind": "source", "depth": 1})
    # C. sampled chains of depth 2..4, 30% of the hot ones with calls after the terminal
    nchains = 20000 if tier == "quick" else 150000
    for _ in range(nchains):
        d = 2 + rng.below(3)
        us = [rng.choice(ops) for _ in range(d)]
        hot = rng.chance(1, 2)
        s = gen.random_script(rng, 6, malformed_pct=30)
        evs = " ".join(gen.ev(e) for e in s)
        tags = {"op": "+".join(gen.opname(u) for u in us), "kind": "hot" if hot else "cold", "depth": d}
        if hot:
            add("hotchain", "(calls %s) (ops %s)" % (evs, " ".join(us)), tags)
        else:
            add("chain", "(create %s) (ops %s)" % (evs, " ".join(us)), tags)
    if tier == "thorough":
        # D. all depth-2 chains exhaustively over scripts <= 3
        small = list(gen.scripts(3))
        sub = [u for u in ops]
        for u1 in sub:
            for u2 in sub:
                for s in small[::1]:
                    if rng.chance(1, 6):
                        evs = " ".join(gen.ev(e) for e in s)
                        add("hotchain", "(calls %s) (ops %s %s)" % (evs, u1, u2),
                            {"op": gen.opname(u1) + "+" + gen.opname(u2), "kind": "hot", "depth": 2})
    return cases


def run(tier, seed, replay=None):
    rep = Report("C03", tier, seed)
    rng = Rng(seed)
    proof_stage(rep, "C03")
    # tie by translation (T5): the observers' method bodies parsed from /repo/src on this run compute the machines
    proof_stage(rep, "C03src", limit=400)
    if not build_stage(rep):
        return rep.finish()
    cases = load_replay_case(replay) if replay else make_cases(tier, rng)
    res = correspond(rep, "C03", cases, "C03_cold_pipeline / C03_hot_pipeline")
    xcheck.cross_check(rep, "C03", cases, res, 60 if tier == "quick" else 600)
    hist = {}
    for _, _, tags in cases:
        k = tags["op"].split("+")[0]
        hist[k] = hist.get(k, 0) + 1
    c = rep.coverage
    c["exhaustive"] = False
    c["rule"] = ("every operator instance (parameters 0..5, closure families) x every script of <= %d items over {0,1,2} x "
                 "{no terminal, complete, error}, cold (create) and hot (Subject); every basic source alone and under each operator; "
                 "random chains of depth 2-4 with post-terminal calls; a case is non-trivial when the implementation's trace is "
                 "non-empty; distinct = distinct case text" % (4 if tier == "quick" else 5))
    c["generator_distribution"] = {"first_operator_histogram": hist}
    rep.coverage["trusted_base"] = rep.coverage.get("trusted_base", []) + [
        "translator T5 (tools/gen_bodies.py): a tokenizer and recursive-descent parser for the statement / expression subset of Rust used by "
        "the observers' methods; it gives no meaning to anything (what it does not parse becomes XUnknown, which the evaluator refuses)",
        "Model/RustSem.v: the evaluator that gives the parsed bodies their meaning (Option / Vec / VecDeque / HashSet methods, usize arithmetic, "
        "struct fields, user closures as Gallina functions, the downstream observer as a token whose next / error / complete append events; "
        "`for x in items { downstream.next(x) }` given its meaning directly); modelled, not verified against rustc"]
    rep.assumptions = ["float arithmetic of average is modelled (exact rational scaled by 2520), not verified",
                       "closures are drawn from a fixed first-order family in cases; theorems quantify over all functions"]
    return rep.finish()
