"""C17 - is_closed() is sound and composites tear down late additions."""
import itertools
from common import *
import ileave2
import xcheck
import gen
import tgen
import timedcheck

TIMED = [("(delay 5)", 5, True), ("observe_on", 2, True), ("(delay_subscription 5)", 5, True), ("subscribe_on", 2, True),
         ("(debounce 5)", 5, True), ("(throttle 5 tailing)", 5, True), ("(throttle 5 all)", 5, True),
         ("(buffer_with_time 5)", 5, True), ("(buffer_with_count_and_time 2 5)", 5, True),
         ("(interval 5)", 5, False), ("(interval_at 3 5)", 5, False), ("(timer 7 5)", 5, False)]

TERMS = ["multi", "(leaf 0)", "(leaf 1)", "unit", "(zip (leaf 0) (leaf 1))", "(zip multi (leaf 2))", "(zip (leaf 2) multi)", "(zip unit multi)"]


def alg_cases(tier, rng):
    ops = ["(append 0)", "(append 1)", "(append 2)", "(die 0)", "(die 1)", "(die 2)"] + \
          ["(unsub %s)" % t for t in TERMS] + ["(closed %s)" % t for t in TERMS]
    cases = []
    n = 0
    L = 4 if tier == "quick" else 5
    tail = "(closed multi) (closed (leaf 0)) (closed (leaf 1)) (closed (leaf 2)) (closed (zip multi (leaf 2)))"
    for k in range(L + 1):
        for h in itertools.product(ops, repeat=k):
            n += 1
            cases.append(("a%d" % n, "(case a%d subalg %s (ops %s %s))" % (n, "local" if n % 2 else "threads", " ".join(h), tail),
                          {"kind": "algebra", "len": k}))
    # a member whose own teardown appends another leaf (3) to the composite it sits in: by then the composite is closed, so the
    # late addition is torn down at once (thread-safe form; the chained member is torn down through the composite only)
    pre = ["", "(append 0)", "(append 0) (append 1)", "(die 0)"]
    mid = ["", "(append 1)", "(append 2)", "(closed multi)", "(die 1)"]
    post = ["", "(append 2)", "(unsub multi)", "(closed (leaf 3))", "(unsub (leaf 3))"]
    for a in pre:
        for b in mid:
            for c in post:
                for ch in ("(append_chained 2 3)", "(append_chained 1 3)"):
                    if ("(append %s)" % ch.split()[1]) in (a + b) or ("(die %s)" % ch.split()[1]) in (a + b):
                        continue
                    n += 1
                    h = " ".join(x for x in (a, ch, b, "(unsub multi)", c) if x)
                    cases.append(("a%d" % n, "(case a%d subalg threads (ops %s %s (closed (leaf 3))))" % (n, h, tail), {"kind": "algebra", "len": "chained"}))
    return cases


def pool_cases(tier):
    """a subscribing task running on a pool thread while its handle is unsubscribed from another thread (also under C19 / C02):
    once unsubscribe() has returned nothing is delivered, neither by the task nor by the subscription it produced"""
    k = 10 if tier == "quick" else 60
    return [("race1", "(case race1 sched_race %d)" % k, {"kind": "thread-pool", "len": 0}),
            ("race2", "(case race2 unsub_race %d)" % k, {"kind": "thread-pool", "len": 0})]


def timed_cases(tier, rng):
    """is_closed() sampled after every label."""
    cases = []
    n = 0
    nper = 2500 if tier == "quick" else 25000
    for op, w, has_src in TIMED:
        for _ in range(nper):
            seq = tgen.random_seq(rng, has_src, w, 4 + rng.below(12), prompt_pct=70)
            seq = [l for l in seq if l != "closed"]
            out = []
            unsub = False
            for l in seq:
                out.append(l)
                if l == "unsub":
                    unsub = True
                if not unsub:
                    out.append("closed")
            n += 1
            cases.append(("t%d" % n, "(case t%d timed %s %s (labels %s))" % (n, "local" if n % 2 else "threads", op, " ".join(out)),
                          {"kind": "timed", "op": op}))
    return cases


def run(tier, seed, replay=None):
    rep = Report("C17", tier, seed)
    rng = Rng(seed)
    proof_stage(rep, "C17")
    # tie by translation (T5): MultiSubscription parsed from /repo/src is the composite machine (composites of up to three members)
    proof_stage(rep, "C17src", limit=400)
    if not build_stage(rep):
        return rep.finish()
    cases = load_replay_case(replay) if replay else alg_cases(tier, rng) + timed_cases(tier, rng) + ileave2.cases(tier, rng, kinds=("hot",)) + pool_cases(tier)
    res = correspond(rep, "C17", cases, "C17_closed_sound / C17_algebra_closed_sound / C17_late_additions / C17_closed_stable")
    xcheck.cross_check(rep, "C17", cases, res, 40 if tier == "quick" else 400)
    if not replay:
        real_timer_cases(rep, "C17_closed_sound (unsubscribe() against an item in flight on another thread, real timers)", which="races")
    c = rep.coverage
    hist = {}
    for _, _, t in cases:
        key = "%s/%s" % (t.get("kind"), t.get("op", t.get("len")))
        hist[key] = hist.get(key, 0) + 1
    c["generator_distribution"] = hist
    c["exhaustive"] = True
    c["rule"] = ("(a) all histories of <= %d operations over {append leaf 0/1/2 to the composite, a leaf ends by itself, unsubscribe / is_closed of "
                 "the composite, of leaves, of unit and of pairs mixing them} on MultiSubscription / ZipSubscription and the _threads forms, each "
                 "followed by a fixed tail of is_closed queries; observation = which leaf teardown ran and every is_closed answer; judged by the "
                 "extracted predicate alg_ok (closed implies all held leaves dead; late additions torn down; closed never becomes false) and "
                 "compared with the model, plus histories in which a member's own teardown appends another leaf to the composite; (b) 12 scheduler-using operators / time sources with is_closed() sampled after every label of random "
                 "label sequences; judged by 'no delivery after is_closed() answered true' (part of timed_ok via the model comparison) and "
                 "compared with the model; (c) is_closed() of a SubjectThreads subscription asked by other threads while the subject is being "
                 "terminated or the subscription unsubscribed, under every schedule with <= 3 context switches at mutex granularity: once it "
                 "has answered true nothing is delivered and it never answers false" % (4 if tier == "quick" else 5))
    rep.assumptions = ["ref-count (share) and finalizer subscriptions are decided under C11 / C15",
                       "subscriptions of untimed chains are Subscriber slots or (): their is_closed is part of the C06 / C02 observations"]
    return rep.finish()
