"""C20 - group_by sends every item to exactly one group, in order."""
from common import *
import gen

KEYS = ["(const 0)", "id", "(mod 2)", "(mod 3)"]
FORMS = ["local-hot", "local-cold", "threads-hot", "threads-cold"]


def make_cases(tier, rng):
    cases = []
    n = 0
    L = 5 if tier == "quick" else 7
    scripts = list(gen.scripts(L, items=[0, 1, 2, 3]))
    for s in scripts:
        evs = " ".join(gen.ev(e) for e in s)
        for key in KEYS:
            forms = FORMS if (len(s) <= 4 or tier == "thorough") else [FORMS[n % 4]]
            for form in forms:
                n += 1
                cases.append(("k%d" % n, "(case k%d group_by %s %s (calls %s))" % (n, form, key, evs),
                              {"form": form, "key": key, "len": len(s)}))
    # events after the terminal (hot source, through cloned handles)
    for s in gen.scripts(3, items=[0, 1, 2, 3], terminals=("c", ("e", 7))):
        for tail in gen.malformed_tails():
            evs = " ".join(gen.ev(e) for e in s + tail)
            for key in KEYS:
                n += 1
                form = "local-hot" if n % 2 else "threads-hot"
                cases.append(("k%d" % n, "(case k%d group_by %s %s (calls %s))" % (n, form, key, evs),
                              {"form": form, "key": key, "len": len(s), "malformed": True}))
    # a key function with a state of its own (called once per item), and take(N) on the stream of groups (create() source)
    for s in gen.scripts(4 if tier == "quick" else 6, items=[0, 1, 2, 3]):
        evs = " ".join(gen.ev(e) for e in s)
        n += 1
        cases.append(("k%d" % n, "(case k%d group_by %s chunk2 (calls %s))" % (n, "local-cold" if n % 2 else "threads-cold", evs),
                      {"form": "cold", "key": "chunk2", "len": len(s)}))
        for key in KEYS[1:]:
            for tk in (1, 2, 3):
                n += 1
                cases.append(("k%d" % n, "(case k%d group_by %s %s (calls %s) (take %d))" % (n, "local-cold" if n % 2 else "threads-cold", key, evs, tk),
                              {"form": "cold", "key": key + "/take", "len": len(s)}))
    # a consumer that subscribes to some groups only: the group of one key is announced and left alone (create() source)
    for s in gen.scripts(4 if tier == "quick" else 6, items=[0, 1, 2, 3]):
        evs = " ".join(gen.ev(e) for e in s)
        for key, ks in (("id", (0, 1)), ("(mod 2)", (0, 1)), ("(mod 3)", (0, 2))):
            for k in ks:
                n += 1
                cases.append(("k%d" % n, "(case k%d group_by %s %s (calls %s) (ignore %d))" % (n, "local-cold" if n % 2 else "threads-cold", key, evs, k),
                              {"form": "cold", "key": key + "/ignore", "len": len(s)}))
    return cases


def run(tier, seed, replay=None):
    rep = Report("C20", tier, seed)
    rng = Rng(seed)
    proof_stage(rep, "C20")
    if not build_stage(rep):
        return rep.finish()
    cases = load_replay_case(replay) if replay else make_cases(tier, rng)
    correspond(rep, "C20", cases, "C20_group_trace / C20_announces / C20_flatten / C20_outer_term / C20_announced_first")
    c = rep.coverage
    hist = {}
    for _, _, t in cases:
        key = "%s/%s" % (t.get("form"), t.get("key"))
        hist[key] = hist.get(key, 0) + 1
    c["generator_distribution"] = hist
    c["exhaustive"] = True
    c["rule"] = ("all scripts of <= %d items over {0,1,2,3} x {none, complete, error} x key functions {constant, identity, mod 2, mod 3} x "
                 "{Subject, SubjectThreads} groups x {hot Subject source, cold create source}; a recording subscriber is attached to every "
                 "group inside the announcing callback; plus scripts with calls after the terminal; the implementation's trace is judged by the "
                 "five projection predicates (extracted) and compared in full with the model's (group terminals within one fan-out sorted by "
                 "announcement order); plus a key function with a state of its own, take(N) on the stream of groups, and a consumer that leaves the "
                 "group of one key without a subscriber (it is announced once and nobody hears its items)" % (5 if tier == "quick" else 7))
    rep.assumptions = ["the order in which the groups receive the terminal (HashMap iteration order) is canonicalised, not specified"]
    return rep.finish()
