"""C15 - finalize runs its callback exactly once per subscription."""
import itertools
from common import *
import ileave2

SHAPES = ["plain", "(take_before 0)", "(take_before 1)", "(take_before 2)", "(take_after 0)", "(take_after 1)", "(take_after 2)"]
STIMS = ["(n 1)", "c", "(e 7)", "u"]


def hot_cases(tier):
    cases = []
    n = 0
    L = 5 if tier == "quick" else 7
    for k in range(L + 1):
        for h in itertools.product(STIMS, repeat=k):
            for sh in (SHAPES if k <= L - 1 else SHAPES[:1]):
                n += 1
                form = "local" if n % 2 else "threads"
                stims = [("ud" if (s == "u" and (n // 2) % 3 == 0) else s) for s in h]
                cases.append(("h%d" % n, "(case h%d finalize %s hot %s (stims %s))" % (n, form, sh, " ".join(stims)),
                              {"kind": "hot", "shape": sh.strip("()").split()[0], "len": k}))
    return cases


def cold_cases(tier):
    cases = []
    n = 0
    L = 4 if tier == "quick" else 6
    for k in range(L + 1):
        for h in itertools.product(STIMS[:3], repeat=k):
            for sh in SHAPES:
                for u in (False, True):
                    n += 1
                    form = "local" if n % 2 else "threads"
                    cases.append(("c%d" % n, "(case c%d finalize %s cold %s (stims %s%s))" % (n, form, sh, " ".join(h), " u" if u else ""),
                                  {"kind": "cold", "shape": sh.strip("()").split()[0], "len": k}))
    return cases


def iter_cases(tier):
    """an iterator source (from_iter asks is_finished before every pull and completes after the loop) in every shape"""
    cases = []
    n = 0
    for N in (0, 1, 2, 3, 5):
        for sh in SHAPES:
            for u in (False, True):
                n += 1
                form = "local" if n % 2 else "threads"
                cases.append(("it%d" % n, "(case it%d finalize %s iter %s (stims %d%s))" % (n, form, sh, N, " u" if u else ""),
                              {"kind": "iter", "shape": sh.strip("()").split()[0], "len": N}))
    return cases


def pool_cases(tier):
    """finalize_threads under subscribe_on on a thread pool, unsubscribed from another thread while the subscribing task runs (also
    under C19 / C17 / C02): the callback runs, once"""
    return [("race2", "(case race2 unsub_race %d)" % (10 if tier == "quick" else 60), {"kind": "thread-pool", "shape": "subscribe_on", "len": 0})]


def disconnected_cases(tier):
    """inputs that never hold the observer: never() (its subscription is `()`), a subject terminated beforehand"""
    cases = []
    n = 0
    for kind in ("never", "dead"):
        for k in range(4):
            for h in itertools.product(["u", "ud", "(n 1)", "c"] if kind == "dead" else ["u", "ud"], repeat=k):
                for sh in SHAPES:
                    n += 1
                    form = "local" if n % 2 else "threads"
                    cases.append(("d%d" % n, "(case d%d finalize %s %s %s (stims %s))" % (n, form, kind, sh, " ".join(h)),
                                  {"kind": kind, "shape": sh.strip("()").split()[0], "len": k}))
    return cases


def twice_cases(tier):
    """two subscriptions made from clones of one finalize observable: each has its own callback"""
    cases = []
    n = 0
    L = 4 if tier == "quick" else 6
    for k in range(L + 1):
        for h in itertools.product(["(n 1)", "c", "(e 7)", "(u 0)", "(u 1)"], repeat=k):
            n += 1
            form = "local" if n % 2 else "threads"
            cases.append(("w%d" % n, "(case w%d finalize %s twice plain (stims %s))" % (n, form, " ".join(h)), {"kind": "twice", "shape": "plain", "len": k}))
    return cases


def race_cases(tier):
    rounds = 300 if tier == "quick" else 5000
    return [("r%d" % i, "(case r%d finalize_race %d %d)" % (i, rounds, i), {"kind": "race", "items": i}) for i in range(4)]


def run(tier, seed, replay=None):
    rep = Report("C15", tier, seed)
    proof_stage(rep, "C15")
    # tie by translation (T5): finalize's observer and subscription bodies parsed from /repo/src are the machine's steps
    proof_stage(rep, "C15src", limit=400)
    if not build_stage(rep):
        return rep.finish()
    cases = load_replay_case(replay) if replay else hot_cases(tier) + cold_cases(tier) + iter_cases(tier) + pool_cases(tier) + disconnected_cases(tier) + twice_cases(tier) + race_cases(tier) + ileave2.cases(tier, Rng(seed), kinds=("fin",))
    correspond(rep, "C15", cases, "C15_exactly_once_right_after / C15_at_most_once / C15_once_when_unsubscribed / C15_race_once")
    c = rep.coverage
    hist = {}
    for _, _, t in cases:
        key = "%s/%s" % (t.get("kind"), t.get("shape", t.get("items")))
        hist[key] = hist.get(key, 0) + 1
    c["generator_distribution"] = hist
    c["exhaustive"] = True
    c["rule"] = ("every sequence of <= %d stimuli over {item, complete, error, unsubscribe (explicit or by dropping the guard)} pushed into a subject "
                 "behind finalize / finalize_threads, alone and with take(0..2) before or after it; every script of <= %d calls played by a "
                 "create() source during subscribe, with and without a later unsubscribe; the callback logs into the subscriber's own log with a "
                 "marker after each stimulus, so its position is observed; while a subscription is being unsubscribed the callback also pushes an item "
                 "into the subject, so an input still connected at that moment shows; inputs that never hold the observer (never(), a subject "
                 "terminated beforehand; two subscriptions made from clones of one finalize observable, each owing its own callback) with every sequence of <= 3 unsubscriptions / guard drops / late events; judged by the extracted predicate fin_ok (callback in the segment of "
                 "the first trigger, last there, nowhere else) and compared with the model; plus real-thread rounds racing a terminating thread "
                 "against an unsubscribing thread on finalize_threads (supporting evidence for the atomic-take assumption of C15_race_once)"
                 % ((5, 4) if tier == "quick" else (7, 6)))
    rep.assumptions = ["the take of the shared cell is one atomic step (it runs under the Mutex of MutArc): modelled, not verified; the real-thread rounds sample it",
                       "FinalizerSubscription is not Clone: a second unsubscription of the same subscription can only be a no-op stimulus"]
    return rep.finish()
