"""Cross-check of the extracted OCaml runner against the Coq kernel: for a sample of cases the runner's
answer is turned back into a Gallina term and `coqc` must accept
    Example x : <model function> <case> = <runner's answer>.  Proof. vm_compute. reflexivity. Qed.
so that the extraction, the OCaml compiler and the hand-written driver (parser, number conversion,
printers) are themselves under test.  Kinds: timed (run_timed), flatten (run_flatten), subject (srun)."""
import os
import re
from common import *


def parse(s):
    toks = re.findall(r"\(|\)|[^\s()]+", s)
    pos = 0
    def go():
        nonlocal pos
        t = toks[pos]; pos += 1
        if t == "(":
            l = []
            while toks[pos] != ")":
                l.append(go())
            pos += 1
            return l
        return t
    return go()


def head(x):
    return x[0] if isinstance(x, list) else x


def args(x):
    return x[1:] if isinstance(x, list) else []


def zlit(a):
    return "(%s)%%Z" % a


def val(x):
    if isinstance(x, list):
        h = x[0]
        if h == "p":
            return "(VP %s %s)" % (val(x[1]), val(x[2]))
        if h == "l":
            return "(VL [%s])" % "; ".join(val(v) for v in x[1:])
        if h == "some":
            return "(VOpt (Some %s))" % val(x[1])
        raise ValueError("val %r" % (x,))
    return {"#t": "(VB true)", "#f": "(VB false)", "u": "VU", "none": "(VOpt None)"}.get(x) or "(VZ %s)" % zlit(x)


def ev(x):
    if x == "c":
        return "Done"
    if x[0] == "n":
        return "(Next %s)" % val(x[1])
    if x[0] == "e":
        return "(Err %s)" % zlit(x[1])
    raise ValueError("ev %r" % (x,))


BIG = {"big": 5000, "big1": 4999, "mid": 4000}     # as in ocaml/driver.ml


def nat(a):
    return "%s%%nat" % BIG.get(a, a)


def nn(a):
    return "%s%%N" % a


def optn(a):
    return "None" if a == "none" else "(Some %s)" % nn(a)


def top(x):
    h, a = head(x), args(x)
    if h == "delay": return "(TDelay %s)" % nn(a[0])
    if h == "observe_on": return "TObserveOn"
    if h == "delay_subscription": return "(TDelaySubscription %s)" % nn(a[0])
    if h == "subscribe_on": return "TSubscribeOn"
    if h == "debounce": return "(TDebounce %s)" % nn(a[0])
    if h == "throttle": return "(TThrottle %s %s)" % (nn(a[0]), {"leading": "ELeading", "tailing": "ETailing"}.get(a[1], "EAll"))
    if h == "buffer_with_time": return "(TBufferTime %s)" % nn(a[0])
    if h == "buffer_with_count_and_time": return "(TBufferCountTime %s %s)" % (nat(a[0]), nn(a[1]))
    if h == "interval": return "(TInterval %s)" % nn(a[0])
    if h == "interval_at": return "(TIntervalAt %s %s)" % (nn(a[0]), nn(a[1]))
    if h == "timer": return "(TTimer %s %s)" % (val(a[0]), nn(a[1]))
    if h == "raw": return "TRaw"
    raise ValueError("top %r" % (x,))


def tlab(x):
    h, a = head(x), args(x)
    if h == "src": return "LSrc %s" % ev(a[0])
    if h == "run": return "LRun %s" % nat(a[0])
    if h == "adv": return "LAdv %s" % nn(a[0])
    if h in ("unsub", "drop"): return "LUnsub"
    if h == "closed": return "LClosed"
    if h == "finish": return "LFinish"
    if h == "spawn_once": return "LSpawnOnce %s" % optn(a[0])
    if h == "spawn_repeat": return "LSpawnRepeat %s %s %s" % (nn(a[0]), optn(a[1]), nat(a[2]))
    if h == "spawn_sub": return "LSpawnSub %s" % optn(a[0])
    if h == "cancel": return "LCancel %s" % nat(a[0])
    if h == "handle_closed": return "LHandleClosed %s" % nat(a[0])
    raise ValueError("tlab %r" % (x,))


def tout(x):
    h, a = head(x), args(x)
    if h == "t": return "TOut %s %s" % (nn(a[0]), ev(a[1]))
    if h == "rb": return "TRet %s" % ("true" if a[0] == "#t" else "false")
    if h == "ran": return "TRan %s %s %s" % (nat(a[0]), nat(a[1]), nn(a[2]))
    if h == "iu": return "TInnerUnsub %s" % nat(a[0])
    if h == "m": return "TMark %s" % nat(a[0])
    raise ValueError("tout %r" % (x,))


def fstim(x):
    h, a = head(x), args(x)
    if h == "o":
        if a[0] == "c": return "FOuter ODone"
        if a[0][0] == "e": return "FOuter (OErr %s)" % zlit(a[0][1])
        if a[0][0] == "coldi": return "FOuter (ONext (ICold [%s]))" % "; ".join(ev(e) for e in a[0][1:])
        if a[0][0] == "hoti": return "FOuter (ONext (IHot %s))" % nat(a[0][1])
    if h == "i": return "FInner %s %s" % (nat(a[0]), ev(a[1]))
    if h in ("u", "ud"): return "FUnsub"
    raise ValueError("fstim %r" % (x,))


def fout(x):
    if x == "STUCK": return "FStuck"
    h, a = head(x), args(x)
    if h == "i": return "FItem %s %s" % (nat(a[0]), val(a[1]))
    if h == "t": return "FTerm %s" % ev(a[0])
    if h == "sub": return "FSubscribed %s" % nat(a[0])
    if h == "done": return "FInnerDone %s" % nat(a[0])
    if h == "m": return "FMark %s" % nat(a[0])
    raise ValueError("fout %r" % (x,))


def sop(x):
    h, a = head(x), args(x)
    if h == "sub": return "OpSubscribe"
    if h == "unsub": return "OpUnsubOne %s" % nat(a[0])
    if h == "next": return "OpNext %s" % val(a[0])
    if h == "next_sub_inside": return "OpNextSubInside %s %s" % (val(a[0]), nat(a[1]))
    if h == "error": return "OpError %s" % zlit(a[0])
    return {"complete": "OpComplete", "clone": "OpClone", "retain": "OpRetain", "unsub_subject": "OpUnsubSubject", "len": "OpLen",
            "is_empty": "OpIsEmpty", "is_closed": "OpIsClosed", "is_finished": "OpIsFinished"}.get(h) or ("OpSubClosed %s" % nat(a[0]))


def sobs(x):
    h, a = head(x), args(x)
    if h == "d": return "Deliver %s %s" % (nat(a[0]), ev(a[1]))
    if h == "s": return "Subscribed %s" % nat(a[0])
    if h == "rn": return "RetN %s" % nat(a[0])
    if h == "rb": return "RetB %s" % ("true" if a[0] == "#t" else "false")
    raise ValueError("sobs %r" % (x,))


def fn1(x):
    h, a = head(x), args(x)
    return {"id": "FId", "even": "FEven", "pair_self": "FPairSelf", "some_if_even": "FSomeIfEven", "not": "FNot"}.get(h) or \
        {"add": "(FAdd %s)", "mul": "(FMul %s)", "mod": "(FMod %s)", "lt": "(FLt %s)", "eq": "(FEq %s)"}.get(h, "(FConst %s)") % (zlit(a[0]) if h != "const" else val(a[0]))


def fn2(x):
    return {"add": "F2Add", "snd": "F2Snd", "fst": "F2Fst", "pair": "F2Pair", "max": "F2Max", "min": "F2Min", "count": "F2Count"}[head(x)]


def uop(x):
    h, a = head(x), args(x)
    prim = {
        "map": lambda: "OMap (apply_fn %s)" % fn1(a[0]),
        "map_to": lambda: "OMapTo %s" % val(a[0]),
        "filter": lambda: "OFilter (pred_of %s)" % fn1(a[0]),
        "filter_map": lambda: "OFilterMap (opt_of %s)" % fn1(a[0]),
        "tap": lambda: "OTap",
        "on_error_map": lambda: "OOnErrorMap (fun e => (e + %s)%%Z)" % zlit(a[0]),
        "take": lambda: "OTake %s" % nat(a[0]),
        "skip": lambda: "OSkip %s" % nat(a[0]),
        "take_while": lambda: "OTakeWhile (pred_of %s) false" % fn1(a[0]),
        "take_while_inclusive": lambda: "OTakeWhile (pred_of %s) true" % fn1(a[0]),
        "skip_while": lambda: "OSkipWhile (pred_of %s)" % fn1(a[0]),
        "take_last": lambda: "OTakeLast %s" % nat(a[0]),
        "skip_last": lambda: "OSkipLast %s" % nat(a[0]),
        "last": lambda: "OLast",
        "scan": lambda: "OScan (apply_fn2 %s) %s" % (fn2(a[0]), val(a[1])),
        "scan_default": lambda: "OScan (apply_fn2 %s) (VZ 0%%Z)" % fn2(a[0]),
        "default_if_empty": lambda: "ODefaultIfEmpty %s" % val(a[0]),
        "distinct": lambda: "ODistinct",
        "distinct_key": lambda: "ODistinctKey (apply_fn %s)" % fn1(a[0]),
        "distinct_until_changed": lambda: "ODistinctUntilChanged",
        "distinct_until_key_changed": lambda: "ODistinctUntilKeyChanged (apply_fn %s)" % fn1(a[0]),
        "pairwise": lambda: "OPairwise",
        "buffer_with_count": lambda: "OBufferCount %s" % nat(a[0]),
        "contains": lambda: "OContains %s" % val(a[0]),
        "collect": lambda: "OCollect",
        "start_with": lambda: "OStartWith %s" % lst(val(v) for v in a),
    }
    if h in prim:
        return "UPrim (%s)" % prim[h]()
    other = {
        "first": lambda: "UFirst", "first_or": lambda: "UFirstOr %s" % val(a[0]), "last_or": lambda: "ULastOr %s" % val(a[0]),
        "element_at": lambda: "UElementAt %s" % nat(a[0]), "ignore_elements": lambda: "UIgnoreElements",
        "all": lambda: "UAll (pred_of %s)" % fn1(a[0]),
        "reduce_initial": lambda: "UReduceInitial (apply_fn2 %s) %s" % (fn2(a[0]), val(a[1])),
        "reduce": lambda: "UReduceInitial (apply_fn2 %s) (VZ 0%%Z)" % fn2(a[0]),
        "count": lambda: "UCount", "sum": lambda: "USum", "max": lambda: "UMax", "min": lambda: "UMin", "average": lambda: "UAverage",
    }
    if h in other:
        return other[h]()
    raise ValueError("uop %r" % (x,))


def src(x):
    h, a = head(x), args(x)
    m = {"of": lambda: "SrcOf %s" % val(a[0]), "of_some": lambda: "SrcOfOption (Some %s)" % val(a[0]), "of_none": lambda: "SrcOfOption None",
         "of_ok": lambda: "SrcOfResult (inl %s)" % val(a[0]), "of_err": lambda: "SrcOfResult (inr %s)" % zlit(a[0]),
         "of_fn": lambda: "SrcOfFn %s" % val(a[0]), "start": lambda: "SrcStart %s" % val(a[0]),
         "from_iter": lambda: "SrcFromIter %s" % lst(val(v) for v in a), "repeat": lambda: "SrcRepeat %s %s" % (val(a[0]), nat(a[1])),
         "empty": lambda: "SrcEmpty", "never": lambda: "SrcNever", "throw": lambda: "SrcThrow %s" % zlit(a[0]),
         "create": lambda: "SrcCreate %s" % lst(ev(e) for e in a)}
    return m[h]()


def lst(items):
    return "[" + "; ".join(items) + "]"


def statement(case_text, model_answer):
    """the Gallina equation for one case, or None for kinds that are not cross-checked"""
    c = parse(case_text)
    kind, body = c[2], c[3:]
    out = parse("(" + model_answer + ")")
    if kind == "timed":
        return "run_timed %s %s = %s" % (top(body[1]), lst(tlab(l) for l in args(body[2])), lst(tout(o) for o in out))
    if kind == "flatten":
        api = body[1]
        lim = "(Some 1%nat)" if api in ("concat_all", "concat_map") else "None" if api in ("flatten", "flat_map") or body[2] == "inf" else "(Some %s)" % nat(body[2])
        return "run_flatten %s %s = %s" % (lim, lst(fstim(s) for s in args(body[3])), lst(fout(o) for o in out))
    if kind in ("chain", "chain_t"):
        return "run_src (%s) %s = %s" % (src(body[0]), lst("(%s)" % uop(u) for u in args(body[1])), lst(ev(e) for e in out))
    if kind in ("hotchain", "hotchain_t"):
        calls = args(body[0])
        if len(body) > 2:
            calls = calls[:int(args(body[2])[0])]
        return "run_hot (expand_all %s) (slot %s) = %s" % (lst("(%s)" % uop(u) for u in args(body[1])), lst(ev(e) for e in calls), lst(ev(e) for e in out))
    if kind == "subject":
        return "srun subj0 %s = %s" % (lst(sop(o) for o in args(body[1])), lst(sobs(o) for o in out))
    return None


def cross_check(rep, name, cases, results, nsample):
    """cases: (id, text, tags); results: id -> (impl, model, spec) as returned by correspond()."""
    if not results:
        return
    pool = [(cid, text) for cid, text, _ in cases if results.get(cid) and results[cid][1] is not None]
    if not pool:
        return
    step = max(1, len(pool) // nsample)
    chosen = pool[::step][:nsample]
    lines = ["From RxModel Require Import Timed Flatten Subject Derived.", "Open Scope N_scope.", ""]
    k = 0
    for cid, text in chosen:
        try:
            st = statement(text, results[cid][1])
        except (ValueError, IndexError, KeyError):
            st = None
        if st is None:
            continue
        k += 1
        lines.append("Example x%d : %s.\nProof. vm_compute. reflexivity. Qed." % (k, st))
    if k == 0:
        return
    os.makedirs(os.path.join(WORK, "xcheck"), exist_ok=True)
    path = os.path.join(WORK, "xcheck", "X%s.v" % name)
    open(path, "w").write("\n".join(lines) + "\n")
    rc, out = sh(["timeout", "900", "coqc"] + COQ_Q + ["-o", path + "o", path], cwd=COQ)
    c = rep.coverage
    c["runner_answers_reproved_in_coq"] = c.get("runner_answers_reproved_in_coq", 0) + (k if rc == 0 else 0)
    if rc != 0:
        rep.violations.append(("the extracted runner and the Coq kernel disagree on the model's answer (extraction / driver cross-check)",
                               {"obligation": "xcheck-" + name, "detail": out[-3000:], "failing_input_found": False}))
