"""C11 - publish/connect and share subscribe the source once and multicast."""
import itertools
from common import *
import ileave2

COLD = ["(cold)", "(cold (n 1))", "(cold (n 1) (n 2) c)", "(cold (n 1) (e 3))", "(cold c)", "(cold (n 1) c (n 2))"]


def histories(tier, rng):
    cases = []
    n = 0
    L = 5 if tier == "quick" else 6
    share_ops = ["(sub)", "(unsub 0)", "(unsub 1)", "(src (n 1))", "(src c)", "(src (e 3))", "(closed 0)"]
    pub_ops = ["(sub)", "(unsub 0)", "(src (n 1))", "(src c)", "connect", "subself"]
    for mode, ops in (("share", share_ops), ("publish", pub_ops)):
        for k in range(L + 1):
            for h in itertools.product(ops, repeat=k):
                if sum(1 for x in h if x in ("(sub)", "subself")) > 3:
                    continue
                n += 1
                form = "local" if n % 2 else "threads"
                cases.append(("p%d" % n, "(case p%d share %s hot %s (ops %s))" % (n, form, mode, " ".join(h)),
                              {"kind": "hot", "mode": mode, "len": k}))
    # cold sources: the script is played when the source is subscribed
    cold_ops = ["(sub)", "(unsub 0)", "(unsub 1)", "(closed 0)", "(closed 1)", "connect", "subself"]
    for src in COLD:
        for mode in ("share", "publish"):
            for k in range(5):
                for h in itertools.product(cold_ops if mode == "publish" else cold_ops[:-2], repeat=k):
                    n += 1
                    form = "local" if n % 2 else "threads"
                    cases.append(("p%d" % n, "(case p%d share %s %s %s (ops %s))" % (n, form, src, mode, " ".join(h)),
                                  {"kind": "cold", "mode": mode, "len": k}))
    # longer random histories with three subscribers
    allops = ["(sub)", "(unsub 0)", "(unsub 1)", "(unsub 2)", "(src (n 1))", "(src (n 2))", "(src c)", "(src (e 3))", "(closed 0)", "(closed 1)", "(closed 2)"]
    for _ in range(4000 if tier == "quick" else 60000):
        k = 6 + rng.below(8)
        mode = "share" if rng.below(3) else "publish"
        h = [rng.choice(allops + (["connect"] if mode == "publish" else [])) for _ in range(k)]
        if mode == "publish":
            h = [x for x in h if not x.startswith("(closed")]
        n += 1
        form = "local" if n % 2 else "threads"
        cases.append(("p%d" % n, "(case p%d share %s hot %s (ops %s))" % (n, form, mode, " ".join(h)), {"kind": "hot-random", "mode": mode, "len": k}))
    return cases


def run(tier, seed, replay=None):
    rep = Report("C11", tier, seed)
    rng = Rng(seed)
    proof_stage(rep, "C11")
    if not build_stage(rep):
        return rep.finish()
    cases = load_replay_case(replay) if replay else histories(tier, rng) + ileave2.cases(tier, rng, kinds=("share",)) + [
        # a subscriber that joins the shared observable from inside a callback of it, during an emission
        ("sr1", "(case sr1 share_reenter)", {"mode": "share", "src": "hot", "class": "join-inside-a-callback"})]
    correspond(rep, "C11", cases, "C11_source_subscribed_at_most_once / C11_not_before_connect / C11_multicast / C11_released_after_last_leaver")
    c = rep.coverage
    hist = {}
    for _, _, t in cases:
        key = "%s/%s/len%s" % (t.get("kind"), t.get("mode"), t.get("len"))
        hist[key] = hist.get(key, 0) + 1
    c["generator_distribution"] = hist
    c["exhaustive"] = True
    c["rule"] = ("all histories of <= %d operations over {subscribe a clone / fork, unsubscribe subscription 0 / 1, a next / complete / error on the hot "
                 "source, is_closed, connect, subscribe the published value itself} for share and for publish (at most three subscribers), all histories <= 4 over six cold scripts, and random "
                 "histories of 6-13 operations with three subscribers; upstream of the shared point a counted subscription and a tap: observation = when "
                 "the source is subscribed, every item passing the tap, every delivery per subscriber, every is_closed answer, with a marker after each "
                 "operation; specification = the ideal machine (the source is let go when the last subscriber leaves), model = the code as it is; a case "
                 "where the implementation follows the model and not the specification is the recorded finding" % (5 if tier == "quick" else 6))
    c["rule"] += "; share_threads with subscribers joining and leaving from two or three real threads while the source emits: " + ileave2.RULE
    rep.assumptions = ["share placed after side-effecting upstream operators is represented by the tap",
                       "the thread interleavings of share_threads are judged by predicates only (connected at most once, per-subscriber order), not compared with a model"]
    return rep.finish()
