"""C05 - flattening delivers every inner item once and honours the concurrency limit."""
from common import *
import xcheck
import ileave2

COLD = ["(coldi c)", "(coldi (n 1) c)", "(coldi (n 1) (n 2) c)", "(coldi (n 1))", "(coldi (n 1) (e 5) (n 2))", "(coldi (n 1) c (n 3) c)"]
APIS = [("merge_all", "0"), ("merge_all", "mid"), ("merge_all", "1"), ("merge_all", "2"), ("merge_all", "3"), ("merge_all", "inf"),
        ("concat_all", "1"), ("flatten", "inf"), ("flat_map", "inf"), ("concat_map", "1")]


def sequences(maxlen, max_inners):
    """All stimulus sequences: outer emissions of cold / fresh hot inners, outer terminals, and
    notifications of the hot inners introduced so far (also after their or the outer's terminal)."""
    out = []
    def rec(seq, inners, hots):
        out.append(list(seq))
        if len(seq) == maxlen:
            return
        if inners < max_inners:
            for c in COLD:
                rec(seq + ["(o %s)" % c], inners + 1, hots)
            rec(seq + ["(o (hoti %d))" % hots], inners + 1, hots + 1)
        rec(seq + ["(o c)"], inners, hots)
        rec(seq + ["(o (e 9))"], inners, hots)
        for h in range(hots):
            rec(seq + ["(i %d (n %d))" % (h, 10 + h)], inners, hots)
            rec(seq + ["(i %d c)" % h], inners, hots)
            rec(seq + ["(i %d (e 6))" % h], inners, hots)
    rec([], 0, 0)
    return out


def make_cases(tier, rng):
    cases = []
    n = 0
    def add(form, api, lim, seq, klass):
        nonlocal n
        n += 1
        cases.append(("k%d" % n, "(case k%d flatten %s %s %s (stims %s))" % (n, form, api, lim, " ".join(seq)),
                      {"form": form, "api": api, "limit": lim, "class": klass, "len": len(seq)}))
    L = 5 if tier == "quick" else 6
    seqs = sequences(L, 3)
    for seq in seqs:
        if len(seq) < 2:
            continue
        if len(seq) <= 4 or tier == "thorough":
            for api, lim in APIS:
                add("local", api, lim, seq, "exhaustive")
            api, lim = APIS[n % len(APIS)]
            add("threads", api, lim, seq, "exhaustive")
        else:
            api, lim = APIS[n % len(APIS)]
            add("local" if n % 3 else "threads", api, lim, seq, "exhaustive")
    # random longer sequences with up to 5 inners, biased towards queued inners (several hot ones first)
    nrand = 40000 if tier == "quick" else 400000
    for _ in range(nrand):
        seq, inners, hots = [], 0, 0
        ln = 6 + rng.below(8)
        for _ in range(ln):
            r = rng.below(100)
            if r < 30 and inners < 5:
                if rng.chance(1, 2):
                    seq.append("(o (hoti %d))" % hots); hots += 1
                else:
                    seq.append("(o %s)" % rng.choice(COLD))
                inners += 1
            elif r < 36:
                seq.append(rng.choice(["(o c)", "(o c)", "(o (e 9))"]))
            elif hots:
                h = rng.below(hots)
                seq.append(rng.choice(["(i %d (n %d))" % (h, 10 + h), "(i %d (n %d))" % (h, 20 + h), "(i %d c)" % h, "(i %d c)" % h, "(i %d (e 6))" % h]))
        api, lim = rng.choice(APIS)
        add("local" if rng.chance(1, 2) else "threads", api, lim, seq, "random")
    return cases


def run(tier, seed, replay=None):
    rep = Report("C05", tier, seed)
    rng = Rng(seed)
    proof_stage(rep, "C05")
    # tie by translation (T5): merge_all / concat_all / flatten / flat_map / concat_map and the _threads forms build one operator with the limit the model assumes
    proof_stage(rep, "C05src", limit=400)
    if not build_stage(rep):
        return rep.finish()
    corpus = []
    if not replay:
        for k, line in enumerate(open(os.path.join(VERIF, "corpus", "C05-merge_all-queued-sync-inner.cases"))):
            if line.strip():
                corpus.append(("c%d" % k, re.sub(r"^\(case \S+", "(case c%d" % k, line.strip()), {"class": "corpus"}))
    cases = load_replay_case(replay) if replay else corpus + make_cases(tier, rng) + ileave2.cases(tier, rng, kinds=("flat",))
    res = correspond(rep, "C05", cases, "C05_limit / C05_downstream_wf / C05_no_stuck / C05_done_not_early / C05_done_not_late (flatten model)")
    xcheck.cross_check(rep, "C05", cases, res, 40 if tier == "quick" else 400)
    c = rep.coverage
    hist = {}
    for _, _, t in cases:
        key = "%s/%s/%s/%s" % (t.get("form"), t.get("api"), t.get("limit"), t.get("class"))
        hist[key] = hist.get(key, 0) + 1
    c["generator_distribution"] = hist
    c["exhaustive"] = True
    c["rule"] = ("all stimulus sequences of <= %d steps over: outer emission of one of 6 synchronous inner observables (empty, 1-2 items, "
                 "without terminal, failing, with calls after its terminal) or of a fresh hot (Subject) inner, outer complete / error, and "
                 "next / complete / error of every hot inner introduced so far (also after terminals), with <= 3 inner observables; for "
                 "merge_all(1|2|3|MAX), concat_all, flatten, flat_map, concat_map; local and _threads forms; plus random sequences of "
                 "6-13 steps with <= 5 inners; observation = per stimulus: subscriptions and completions of inner observables, items "
                 "tagged with their inner observable, the downstream terminal, panic / hang" % (5 if tier == "quick" else 6))
    rep.assumptions = ["each hot inner observable is emitted by the outer stream at most once",
                       "inner subscriptions/completions are observed through a harness-side wrapper observable around every inner"]
    return rep.finish()
