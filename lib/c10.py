"""C10 - thread-safe variants serialise delivery and cannot deadlock."""
import itertools
from common import *
import ileave
import ileave2

TWO = ["merge", "zip", "take_until"]   # skip_until: its skip flag is an atomic, the shared cell is locked only once skipping has stopped


def lock_cases(tier, rng):
    """single-threaded: which mutexes each operation locks, in order (the programs of the model)"""
    cases = []
    n = 0
    for k in (1, 2, 3):
        ops = ["(0 (n 1))"] + ["(unsub %d)" % i for i in range(k)]
        for L in range(0, 4 if tier == "quick" else 5):
            for h in itertools.product(ops, repeat=L):
                for term in ("", "(0 c)", "(0 (e 3))"):
                    n += 1
                    cases.append(("l%d" % n, "(case l%d locks (hot 0) %d (ops %s %s))" % (n, k, " ".join(h), term), {"kind": "locks", "pipe": "subject", "subs": k}))
    for o in TWO:
        ops = ["(0 (n 1))", "(1 (n 2))"]
        for L in range(0, 5):
            for h in itertools.product(ops, repeat=L):
                if o == "take_until" and "(1 (n 2))" in h[:-1]:
                    continue            # the notifier's first item ends the stream: later calls lock differently
                n += 1
                cases.append(("l%d" % n, "(case l%d locks (%s (hot 0) (hot 1)) 1 (ops %s))" % (n, o, " ".join(h)), {"kind": "locks", "pipe": o, "subs": 1}))
    return cases


def stress_cases(tier):
    rounds, items = (6, 1500) if tier == "quick" else (60, 4000)
    kinds = [("subject", 3), ("merge", 3), ("zip", 2), ("combine_latest", 2), ("take_until", 2), ("merge_all", 3), ("share", 3)]
    cases = [("x%d" % i, "(case x%d conc %s %d %d %d)" % (i, k, p, items, rounds), {"kind": "threads", "pipe": k}) for i, (k, p) in enumerate(kinds)]
    cases.append(("x99", "(case x99 sched_race %d)" % (10 if tier == "quick" else 60), {"kind": "threads", "pipe": "task-handle"}))
    cases.append(("x96", "(case x96 handshake observe_on %d)" % (5 if tier == "quick" else 40), {"kind": "threads", "pipe": "observe_on-pool"}))
    cases.append(("x97", "(case x97 handshake delay %d)" % (5 if tier == "quick" else 40), {"kind": "threads", "pipe": "delay-pool"}))
    cases.append(("x98", "(case x98 unsub_race %d)" % (10 if tier == "quick" else 60), {"kind": "threads", "pipe": "subscribe_on-pool"}))
    return cases


def run(tier, seed, replay=None):
    rep = Report("C10", tier, seed)
    rng = Rng(seed)
    proof_stage(rep, "C10")
    if not build_stage(rep):
        return rep.finish()
    cases = load_replay_case(replay) if replay else (lock_cases(tier, rng) + stress_cases(tier)
                                                       + ileave.cases("subject", tier, rng, "is") + ileave.cases("behavior", tier, rng, "ib")
                                                       + ileave2.cases(tier, rng))
    # the thorough tier runs ~2.2 million schedules on real threads: give the harness the time
    correspond(rep, "C10", cases, "C10_no_deadlock / C10_callbacks_are_exclusive / C10_*_disciplined / C10_cancel_waits_for_running_poll",
               impl_timeout=900 if tier == "quick" else 2700)
    c = rep.coverage
    hist = {}
    for _, _, t in cases:
        key = "%s/%s" % (t.get("kind"), t.get("pipe"))
        hist[key] = hist.get(key, 0) + 1
    c["generator_distribution"] = hist
    c["exhaustive"] = False
    c["rule"] = ("(a) the tie: through the crate's lock hook, the sequence of mutexes locked by every operation (subscribe, next, unsubscribe, "
                 "complete, error) of all histories <= 3 (4) on a SubjectThreads with 1-3 subscribers, and of next on either input of merge_threads, "
                 "zip_threads, take_until_threads, compared (up to renaming by first appearance) with the acquisitions of the "
                 "model's programs - the programs the theorems are about; (b) real threads: 2-3 producers pushing thousands of items while another "
                 "thread keeps subscribing and unsubscribing, on a subject, merge, zip, combine_latest, take_until, merge_all, share; probes flag "
                 "overlapping entry, compare orders between subscribers, and every thread must return (20 s watchdog); a task body on a thread "
                 "pool against unsubscribe() of its handle; observe_on_threads / delay_threads on a pool with a callback that waits for the producer's "
                 "next call to return (a hand-shake, not a re-entry): the producer must not be held up by a running delivery. The schedules of (b) are the operating system's: supporting evidence, not enumeration; "
                 "(c) " + ileave.RULE + "; (d) " + ileave2.RULE)
    rep.assumptions = ["callers do not re-enter the pipeline from inside a callback (the property's own proviso)",
                       "the lock hook reports acquisitions only: the nesting of the critical sections is the model's (Rust guard scopes read from the source)",
                       "the common-order clause is decided by exclusion of the subject's observer-list mutex (C10_callbacks_are_exclusive on that mutex) and sampled by the stress runs; it has no separate theorem"]
    return rep.finish()
