"""C09 - rate-limiting operators never invent, duplicate or reorder items."""
import timedcheck
from common import real_timer_cases
import tchain

OPS = [("(debounce 5)", 5), ("(debounce 2)", 2), ("(throttle 5 leading)", 5), ("(throttle 5 tailing)", 5), ("(throttle 5 all)", 5),
       ("(throttle 2 all)", 2), ("(buffer_with_time 5)", 5), ("(buffer_with_count_and_time 2 5)", 5), ("(buffer_with_count_and_time 0 5)", 5),
       ("(buffer_with_count_and_time 3 2)", 2),
       # a count that is a limit "never reached": usize::MAX, 2^33 (flush by time only)
       ("(buffer_with_count_and_time big 5)", 5), ("(buffer_with_count_and_time mid 2)", 2),
       # a window of length zero: its timer is due as soon as it is polled
       ("(throttle 0 tailing)", 2), ("(throttle 0 all)", 2), ("(throttle 0 leading)", 2), ("(debounce 0)", 2)]
# (buffer_with_time with a zero period is left out: its repeating task re-arms a timer that is due at once, so a single poll
#  of the real task never returns; the documentation is silent about it and no property speaks of it)


def run(tier, seed, replay=None):
    return timedcheck.run_timed_check(
        "C09", "C09", "C09 (subseq_ok / buffers_ok on the timed model)", OPS,
        "debounce(5|2|0), throttle_time(5|2|0) x {leading, tailing, all}, buffer_with_time(5), buffer_with_count_and_time(2|0|3, 5|2) over a Subject "
        "input, local and _threads forms: every label sequence of <= 4 labels over {next 1, next 2, complete, error, poll task 0/1/2, advance by "
        "w-1/w/w+1, unsubscribe, is_closed} and random sequences of 8-21 labels with gaps shorter than, equal to and longer than the window and both "
        "orders of same-instant input events and timer firings; observation = deliveries with virtual time stamps; and " + tchain.RULE2,
        ["sample(notifier) is covered by C04 (it takes a notifier, not a scheduler)"],
        tier, seed, replay,
        extra=lambda tier, rng: [c for c in tchain.two_cases(tier, rng) if "debounce" in c[1] or "buffer" in c[1]],
        # real threads, real timer: an item arriving while the window task hands the trailing item to a slow subscriber (seeded C09-13)
        post=lambda rep: real_timer_cases(rep, "C09 (source items only, at most once, in source order: throttle_time on a thread pool)", which="order"))
