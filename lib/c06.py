"""C06 - subjects deliver each item once, in order, to exactly the current subscribers."""
import itertools
from common import *
import xcheck
import ileave

VARIANTS = ["local", "threads", "mr_item", "mr_err", "mr_both"]
OPS = ["sub", "(unsub 0)", "(unsub 1)", "(unsub 2)", "(next 1)", "(next 2)", "(next_sub_inside 3 0)", "(next_sub_inside 4 1)",
       "(error 7)", "complete", "clone", "retain", "unsub_subject", "is_closed", "is_finished",
       "(sub_closed 0)", "(sub_closed 1)", "(sub_closed 2)"]
SIZE_OPS = ["len", "is_empty"]
TAIL = "(next 9) is_finished (sub_closed 0) (sub_closed 1) (sub_closed 2) (sub_closed 3)"
TAIL_SIZE = "len is_empty (next 9) len"


def make_cases(tier, rng):
    cases = []
    n = 0
    def add(variant, ops, klass):
        nonlocal n
        n += 1
        cases.append(("k%d" % n, "(case k%d subject %s (ops %s))" % (n, variant, " ".join(ops)),
                      {"variant": variant, "class": klass, "len": len(ops)}))
    L = 4 if tier == "quick" else 5
    # A. all histories up to L operations, each followed by a fixed observation tail
    for k in range(L + 1):
        for h in itertools.product(OPS, repeat=k):
            if k == L and tier == "quick":
                v = VARIANTS[n % len(VARIANTS)]      # longest layer: variants take turns
                add(v, list(h) + [TAIL], "exhaustive")
            elif k == L:
                add("local", list(h) + [TAIL], "exhaustive")
                add(VARIANTS[1 + n % 4], list(h) + [TAIL], "exhaustive")
            else:
                for v in VARIANTS:
                    add(v, list(h) + [TAIL], "exhaustive")
    # B. len / is_empty (also while open: compared with the model only), histories up to 3
    for k in range(4):
        for h in itertools.product(OPS[:13], repeat=k):
            add(VARIANTS[n % len(VARIANTS)], list(h) + [TAIL_SIZE], "size")
    # C. random longer histories
    nrand = 50000 if tier == "quick" else 400000
    allops = OPS + SIZE_OPS
    for _ in range(nrand):
        ln = 6 + rng.below(7 if tier == "quick" else 15)
        h = []
        for _ in range(ln):
            r = rng.below(100)
            if r < 25:
                h.append("sub")
            elif r < 50:
                h.append("(next %d)" % rng.below(3))
            elif r < 62:
                h.append("(unsub %d)" % rng.below(4))
            elif r < 72:
                h.append("(next_sub_inside %d %d)" % (rng.below(3), rng.below(3)))
            elif r < 76:
                h.append(rng.choice(["(error 7)", "complete", "unsub_subject"]))
            else:
                h.append(rng.choice(allops))
        add(rng.choice(VARIANTS), h + [TAIL], "random")
    return cases


def run(tier, seed, replay=None):
    rep = Report("C06", tier, seed)
    rng = Rng(seed)
    proof_stage(rep, "C06")
    if not build_stage(rep):
        return rep.finish()
    cases = load_replay_case(replay) if replay else make_cases(tier, rng) + ileave.cases("subject", tier, rng, "is")
    res = correspond(rep, "C06", cases, "C06_subject_refines")
    xcheck.cross_check(rep, "C06", cases, res, 40 if tier == "quick" else 400)
    c = rep.coverage
    hist = {}
    for _, _, t in cases:
        key = "%s/%s" % (t.get("variant"), t.get("class")) if "variant" in t else "interleavings/%d threads" % t.get("threads", 0)
        hist[key] = hist.get(key, 0) + 1
    c["generator_distribution"] = hist
    c["exhaustive"] = True
    c["rule"] = ("all histories of <= %d operations drawn from 18 kinds (subscribe, unsubscribe-one x3, next x2, next with a "
                 "subscription made inside subscriber 0/1's callback, error, complete, clone, retain, unsubscribe-subject, is_closed, "
                 "is_finished, subscriber.is_closed x3) each followed by a fixed observation tail, over Subject, SubjectThreads and the "
                 "three MutRef subjects; len/is_empty histories; random histories of 6-12 operations; observation = every delivery "
                 "(subscriber, notification) in global order plus every API return value; non-trivial = non-empty observation"
                 % (4 if tier == "quick" else 5)) + "; and " + ileave.RULE
    rep.assumptions = ["len()/is_empty() while the subject is open are compared with the model only (the property specifies them after a terminal)",
                       "the lock-level interleavings of SubjectThreads are explored by schedules with a bounded number of context switches (and random ones), not all of them; the statement for all schedules is the theorem set C06_threads_* over the lock-level model"]
    return rep.finish()
