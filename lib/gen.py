"""Case generators shared by several properties."""
import itertools

ITEMS = [0, 1, 2]

FNS = ["id", "(add 1)", "(mul 2)", "(mod 2)", "(const 7)", "pair_self"]
PREDS = ["(lt 1)", "(lt 2)", "(eq 1)", "even", "(const #t)", "(const #f)"]
KEYS = ["id", "(mod 2)", "(const 0)"]
FN2S = ["add", "snd", "fst", "pair", "max", "min", "count"]


def ev(e):
    if e == "c":
        return "c"
    if isinstance(e, tuple):
        return "(e %d)" % e[1]
    return "(n %d)" % e


def scripts(maxlen, items=ITEMS, terminals=(None, "c", ("e", 7))):
    """All well-formed scripts: up to maxlen items then each terminal."""
    for n in range(maxlen + 1):
        for its in itertools.product(items, repeat=n):
            for t in terminals:
                yield list(its) + ([t] if t is not None else [])


def malformed_tails():
    """Events issued after a terminal (through cloned handles)."""
    return [[1], ["c"], [("e", 9)], [2, "c"], [("e", 9), 1]]


def uop_instances(maxn=5):
    """Every single-input operator with every small parameter / closure."""
    ops = []
    ops += ["(map %s)" % f for f in FNS]
    ops += ["(map_to 9)", "(map_to (p 1 #t))"]
    ops += ["(filter %s)" % p for p in PREDS]
    ops += ["(filter_map some_if_even)", "(filter_map (add 1))"]
    ops += ["(tap)", "(on_error_map 100)"]
    for n in range(maxn + 1):
        ops += ["(take %d)" % n, "(skip %d)" % n, "(take_last %d)" % n, "(skip_last %d)" % n,
                "(buffer_with_count %d)" % n, "(element_at %d)" % n]
    for n in ("big", "big1", "mid"):     # usize::MAX, usize::MAX - 1, 2^33
        ops += ["(take %s)" % n, "(skip %s)" % n, "(take_last %s)" % n, "(skip_last %s)" % n,
                "(buffer_with_count %s)" % n, "(element_at %s)" % n]
    for p in PREDS:
        ops += ["(take_while %s)" % p, "(take_while_inclusive %s)" % p, "(skip_while %s)" % p, "(all %s)" % p]
    ops += ["(last)", "(first)", "(first_or 9)", "(last_or 9)", "(ignore_elements)"]
    ops += ["(scan %s 0)" % f for f in FN2S] + ["(scan add 5)", "(scan_default add)"]
    ops += ["(reduce_initial %s 0)" % f for f in FN2S] + ["(reduce_initial add 5)", "(reduce add)", "(reduce max)"]
    ops += ["(default_if_empty 9)", "(distinct)", "(distinct_until_changed)", "(pairwise)", "(collect)"]
    ops += ["(distinct_key %s)" % k for k in KEYS] + ["(distinct_until_key_changed %s)" % k for k in KEYS]
    ops += ["(contains %d)" % v for v in (0, 1, 2, 5)]
    ops += ["(start_with)", "(start_with 8)", "(start_with 8 9)"]
    ops += ["(count)", "(sum)", "(max)", "(min)", "(average)"]
    return ops


def opname(u):
    return u.strip("()").split(" ")[0]


def random_script(rng, maxlen, items=ITEMS, malformed_pct=0):
    n = rng.below(maxlen + 1)
    s = [rng.choice(items) for _ in range(n)]
    t = rng.below(4)
    if t == 1 or t == 3:
        s.append("c")
    elif t == 2:
        s.append(("e", 7))
    if s and s[-1] in ("c", ("e", 7)) and rng.below(100) < malformed_pct:
        s += rng.choice(malformed_tails())
    return s


def sources_for(script):
    """Cold sources that produce exactly this well-formed script (besides `create`)."""
    items = [e for e in script if isinstance(e, int)]
    term = script[len(items):]
    out = []
    if term == ["c"]:
        out.append("(from_iter %s)" % " ".join(map(str, items)) if items else "(from_iter)")
        if len(items) == 1:
            v = items[0]
            out += ["(of %d)" % v, "(of_some %d)" % v, "(of_ok %d)" % v, "(of_fn %d)" % v, "(start %d)" % v]
        if len(items) == 0:
            out += ["(empty)", "(of_none)"]
        if items and all(i == items[0] for i in items):
            out.append("(repeat %d %d)" % (items[0], len(items)))
    if term == [("e", 7)] and not items:
        out += ["(of_err 7)"]
    return out
