"""Cases for the interleaving harness (Ileave.v): scripts for two or three threads on a thread-safe
subject, and schedules with a bounded number of context switches (every schedule with at most B
switches away from a thread that could continue is `t0^a t1^b t2^c ...` for some run lengths)."""
import itertools

TAIL = 40  # round-robin picks appended to every schedule: everybody gets to finish

SUBJECT_SCRIPTS = [
    # (setup, threads)
    ("(sub 0) (sub 1)", ["(n 5)", "(n 6)"]),
    ("(sub 0) (sub 1)", ["(n 5) (n 7)", "(n 6)"]),
    ("(sub 0) (sub 1)", ["(n 5)", "(unsub 0) (n 6)"]),
    ("(sub 0) (sub 1)", ["(n 5) c", "(n 6)"]),
    ("(sub 0) (sub 1)", ["(n 5)", "(e 3)"]),
    ("(sub 0)", ["(n 5)", "(sub 1) (n 6)"]),
    ("(sub 0)", ["(n 5) (n 7)", "(sub 1) (unsub 1)"]),
    ("(sub 0) (sub 1)", ["c", "(unsub 0)"]),
    ("(sub 0) (sub 1)", ["c", "(e 3)"]),
    ("(sub 0) (sub 1) (n 1)", ["(n 5)", "(n 6)", "(unsub 1)"]),
    ("(sub 0)", ["(n 5)", "(n 6)", "(sub 1)"]),
    ("(sub 0) (sub 1) (n 1)", ["(n 5)", "c", "(unsub 0)"]),
    ("(sub 0) (sub 1)", ["(n 5) (n 6)", "sunsub"]),
    ("(sub 0)", ["(sub 1) (n 5)", "sunsub (n 6)"]),
    ("(sub 0)", ["c", "sunsub", "(n 5)"]),
]

BEHAVIOR_SCRIPTS = [
    ("(bsub 0)", ["(bn 1)", "(bn 2)"]),
    ("(bsub 0)", ["(bn 1)", "(bsub 1)"]),
    ("(bsub 0)", ["(bn 1) (bn 3)", "(bsub 1) peek"]),
    ("(bsub 0) (bn 4)", ["(bn 1)", "(bn 2)", "(bsub 1)"]),
    ("(bsub 0)", ["(bn 1) peek", "(bn 2) peek"]),
    ("(bsub 0) (bsub 1)", ["(bn 1)", "(unsub 1) (bn 2)"]),
    ("(bsub 0)", ["(bn 1)", "bc"]),
    ("(bsub 0)", ["(bsub 1)", "(be 3)"]),
    ("(bsub 0)", ["(bn 1) (bn 2)", "bsunsub"]),
]


def schedules(nthreads, maxrun, switches):
    """all `t0^a0 t1^a1 ... tk^ak` with k <= switches, consecutive threads different"""
    out = []
    for k in range(1, switches + 2):
        for ts in itertools.product(range(nthreads), repeat=k):
            if any(ts[i] == ts[i + 1] for i in range(k - 1)):
                continue
            for runs in itertools.product(range(1, maxrun + 1), repeat=k - 1):
                sched = []
                for t, a in zip(ts, runs):
                    sched += [t] * a
                # the last thread of the plan runs to its end; then everybody else, round robin
                sched += [ts[-1]] * maxrun
                out.append(sched)
    return out


def tail(nthreads):
    return [t for _ in range(TAIL) for t in range(nthreads)]


def cases(kind, tier, rng, prefix, judge="", only=None):
    scripts = SUBJECT_SCRIPTS if kind == "subject" else BEHAVIOR_SCRIPTS
    cs = []
    n = 0
    for setup, threads in scripts:
        if only and not only(setup, threads):
            continue
        nt = len(threads)
        maxrun = (8 if tier == "quick" else 14) if nt == 2 else (6 if tier == "quick" else 9)
        sw = (3 if tier == "quick" else 4) if nt == 2 else (2 if tier == "quick" else 3)
        scheds = schedules(nt, maxrun, sw)
        # random longer interleavings on top of the bounded ones
        for _ in range(150 if tier == "quick" else 3000):
            scheds.append([rng.below(nt) for _ in range(40)])
        seen = set()
        for sc in scheds:
            key = tuple(sc)
            if key in seen:
                continue
            seen.add(key)
            n += 1
            full = sc + tail(nt)
            text = "(case %s%d ileave 0 (setup %s) (threads %s) (sched %s)%s)" % (
                prefix, n, setup, " ".join("(%s)" % t for t in threads), " ".join(map(str, full)), (" " + judge) if judge else "")
            cs.append(("%s%d" % (prefix, n), text, {"kind": kind, "threads": nt, "setup": setup, "scripts": " | ".join(threads)}))
    return cs


RULE = ("real threads on a SubjectThreads / a BehaviorSubject over SubjectThreads under explicit schedules: exactly one thread runs at a "
        "time and parks right before every MutArc lock (lock_gate hook) and inside every probe callback; a schedule is a list of thread "
        "numbers, one pick = lock and run on to the next gate, picking a blocked or finished thread does nothing. Scripts: %d (subject) + %d "
        "(behavior) sets of 2-3 thread scripts (next, complete, error, subscribe, unsubscribe, unsubscribe the subject, peek) after a "
        "sequential setup; schedules: every schedule with <= 3 (2 for three threads; thorough: 4 / 3) context switches and run lengths up "
        "to the longest script, plus random ones; observation = every lock acquisition (mutexes renamed by first appearance), every "
        "callback with the operation that caused it, peek answers, how it ended, the stored value; compared item by item with "
        "Ileave.run_case on the same schedule and judged by IleaveSpec's predicates" % (len(SUBJECT_SCRIPTS), len(BEHAVIOR_SCRIPTS)))
