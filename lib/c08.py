"""C08 - time and async sources emit exactly what and when they promise."""
import itertools
from common import *
import xcheck
import timedcheck

OPS = [("(interval 5)", 5), ("(interval 1)", 1), ("(interval_at 3 10)", 5), ("(interval_at 0 4)", 4), ("(interval_at 12 5)", 5),
       ("(timer 7 5)", 5), ("(timer 7 0)", 2)]

RES = ["p", "(i 1)", "(i 2)", "(f 7)", "end"]


def prompt_cases():
    """the executor runs exactly as the timers fall due: the specification is exact here"""
    cases = []
    n = 0
    for p in (1, 4, 5, 10):
        for k in range(1, 9):
            n += 1
            labels = " ".join(["(adv %d) (run 0)" % p] * k)
            cases.append(("p%d" % n, "(case p%d timed %s (interval %d) (labels %s))" % (n, "local" if n % 2 else "threads", p, labels),
                          {"opfull": "(interval %d)" % p, "form": "local", "class": "prompt"}))
            # the instant has been reached when interval_at is called: the first tick at the first poll
            n += 1
            cases.append(("p%d" % n, "(case p%d timed %s (interval_at 0 %d) (labels (run 0) %s))" % (n, "threads" if n % 2 else "local", p, labels),
                          {"opfull": "(interval_at 0 %d)" % p, "form": "local", "class": "prompt"}))
            for dl in (3, 12):
                n += 1
                labels2 = "(run 0) (adv %d) (run 0) " % dl + labels
                cases.append(("p%d" % n, "(case p%d timed local (interval_at %d %d) (labels %s))" % (n, dl, p, labels2),
                              {"opfull": "(interval_at %d %d)" % (dl, p), "form": "local", "class": "prompt"}))
    return cases


def async_cases(tier, rng):
    cases = []
    n = 0
    L = 4 if tier == "quick" else 5
    for kind in ("from_stream", "from_stream_result", "from_future", "from_future_result"):
        for k in range(L + 1):
            for script in itertools.product(RES, repeat=k):
                if kind == "from_stream" and "(f 7)" in script:
                    continue
                if kind.startswith("from_future"):
                    # a future: pending some times, then ready
                    body = [x for x in script if x not in ("end",)]
                    if kind == "from_future" and "(f 7)" in body:
                        continue
                    if any(x != "p" for x in body[:-1]) or not body:
                        continue
                    script = body
                for labels in (["poll"] * (k + 2), ["poll", "closed"] * (k + 1), ["poll", "unsub", "poll", "poll"],
                               ["closed", "poll", "poll", "unsub", "poll"], ["unsub", "poll"]):
                    n += 1
                    cases.append(("a%d" % n, "(case a%d async %s (script %s) (labels %s))" % (n, kind, " ".join(script), " ".join(labels)),
                                  {"opfull": kind, "form": "local", "class": "async"}))
    # long streams: many items ready in one poll (127, 128, 129, 300), also with a pending poll in the middle, then the end
    for kind in ("from_stream", "from_stream_result"):
        for m in (127, 128, 129, 300):
            for cut in (None, 100):
                items = ["(i %d)" % (i % 7) for i in range(m)]
                if cut:
                    items.insert(cut, "p")
                for tail in (["end"], ["(f 7)"] if kind == "from_stream_result" else ["end"]):
                    n += 1
                    cases.append(("a%d" % n, "(case a%d async %s (script %s) (labels poll poll poll closed))" % (n, kind, " ".join(items + tail)),
                                  {"opfull": kind, "form": "local", "class": "async-long"}))
    return cases


def run(tier, seed, replay=None):
    rep = Report("C08", tier, seed)
    rng = Rng(seed)
    proof_stage(rep, "C08")
    if not build_stage(rep):
        return rep.finish()
    if replay:
        cases = load_replay_case(replay)
    else:
        cases = prompt_cases() + timedcheck.op_cases(OPS, tier, rng, exh_len=5, finish=True, has_src=False, nrand=6000) + async_cases(tier, rng)
    res = correspond(rep, "C08", cases, "C08_interval / C08_interval_at / C08_timer / C08_async_prefix / C08_async_complete")
    xcheck.cross_check(rep, "C08", cases, res, 40 if tier == "quick" else 400)
    if not replay:
        real_timer_cases(rep, "C08 (the model's assumption about new_timer: not ready before its duration has elapsed)")
    c = rep.coverage
    hist = {}
    for _, _, t in cases:
        key = "%s/%s/%s" % (t.get("opfull"), t.get("form"), t.get("class"))
        hist[key] = hist.get(key, 0) + 1
    c["generator_distribution"] = hist
    c["exhaustive"] = True
    c["rule"] = ("interval(5), interval(1), interval_at(+3,10), interval_at(+0,4), interval_at(+12,5), timer(7,5), timer(7,0): every label sequence "
                 "of <= 5 labels over {poll task 0/1/2, advance by w-1/w/w+1, unsubscribe, is_closed, downstream starts reporting finished} and random "
                 "sequences of 8-21 labels (single steps, jumps over several periods, late polls); from_stream / from_stream_result / from_future / "
                 "from_future_result over every poll script of <= 4 results (pending, item, error, end) x 5 label patterns (polls only, polls with "
                 "is_closed, unsubscribe in the middle, before the first poll); observation = deliveries (with virtual time for the timed sources) "
                 "and is_closed answers")
    rep.assumptions = ["the executor is represented by explicit poll labels on the crate's hook scheduler: any task may be polled at any time",
                       "virtual timer through NEW_TIMER_FN (crate built without the `timer` feature); time in whole milliseconds",
                       "interval_at's instant is an offset from Instant::now() at construction; the microseconds between construction and "
                       "subscription are below the millisecond resolution of the virtual clock"]
    return rep.finish()
