"""C19 - scheduled tasks run at most once, never early, and stay cancelled."""
import itertools
from common import *
import xcheck

SPAWNS = ["(spawn_once none)", "(spawn_once 5)", "(spawn_repeat 3 none 2)", "(spawn_repeat 3 5 1)", "(spawn_repeat 3 none 0)",
          "(spawn_sub none)", "(spawn_sub 5)"]


def valid(seq):
    """handle_closed t only while the handle exists; cancel at most once per task."""
    cancelled = set()
    n = 0
    for l in seq:
        if l.startswith("(spawn"):
            n += 1
        elif l.startswith("(cancel"):
            t = int(l.split()[1].rstrip(")"))
            if t in cancelled:
                return False
            cancelled.add(t)
        elif l.startswith("(handle_closed"):
            t = int(l.split()[1].rstrip(")"))
            if t in cancelled or t >= n:
                return False
    return True


def make_cases(tier, rng):
    cases = []
    n = 0
    def add(form, seq, klass):
        nonlocal n
        n += 1
        cases.append(("k%d" % n, "(case k%d timed %s raw (labels %s))" % (n, form, " ".join(seq)), {"class": klass, "len": len(seq)}))
    # A. one task, every label sequence up to L over {poll, advance, cancel, query}
    L = 6 if tier == "quick" else 8
    one = ["(run 0)", "(adv 2)", "(adv 3)", "(adv 5)", "(cancel 0)", "(handle_closed 0)"]
    for sp in SPAWNS:
        for k in range(L + 1):
            for seq in itertools.product(one, repeat=k):
                s = [sp] + list(seq)
                if valid(s):
                    add("local" if n % 2 else "threads", s, "one-task")
    # B. two or three tasks spawned at different times, random interleavings
    nrand = 40000 if tier == "quick" else 400000
    for _ in range(nrand):
        seq = []
        nt = 0
        cancelled = set()
        for _ in range(6 + rng.below(14)):
            r = rng.below(100)
            if r < 18 and nt < 4:
                seq.append(rng.choice(SPAWNS)); nt += 1
            elif r < 38:
                seq.append("(adv %d)" % rng.choice([1, 2, 3, 5, 8]))
            elif r < 46 and nt:
                t = rng.below(nt)
                if t not in cancelled:
                    seq.append("(cancel %d)" % t); cancelled.add(t)
            elif r < 54 and nt:
                t = rng.below(nt)
                if t not in cancelled:
                    seq.append("(handle_closed %d)" % t)
            elif nt:
                seq.append("(run %d)" % rng.below(nt))
        # one case in five speaks microseconds: every delay and period is then below one millisecond
        add(rng.choice(["local", "threads", "local", "threads", "local_us"]), seq, "multi-task")
    # the repeating tasks behind interval (RepeatTask::new) and interval_at (RepeatTask::starting_now behind the initial delay,
    # shorter than, equal to and longer than the period), also in microseconds
    import timedcheck
    for form in (("local", "threads"), ("local_us",)):
        for c in timedcheck.op_cases([("(interval 5)", 5), ("(interval_at 3 5)", 5), ("(interval_at 5 5)", 5), ("(interval_at 7 5)", 5)], tier, rng,
                                     forms=form, exh_len=4, nrand=800, finish=True, has_src=False):
            n += 1
            cases.append(("k%d" % n, c[1].replace("(case %s " % c[0], "(case k%d " % n), {"class": "repeating-source", "len": c[2]["len"]}))
    # a body running on a pool thread while its handle is unsubscribed (real threads: C10_cancel_waits_for_running_poll)
    cases.append(("race1", "(case race1 sched_race %d)" % (10 if tier == "quick" else 60), {"class": "thread-pool", "len": 0}))
    cases.append(("race2", "(case race2 unsub_race %d)" % (10 if tier == "quick" else 60), {"class": "thread-pool", "len": 0}))
    return cases


def run(tier, seed, replay=None):
    rep = Report("C19", tier, seed)
    rng = Rng(seed)
    proof_stage(rep, "C19")
    if not build_stage(rep):
        return rep.finish()
    cases = load_replay_case(replay) if replay else make_cases(tier, rng)
    res = correspond(rep, "C19", cases, "C19_once_at_most_once / C19_never_before_delay / C19_repeat_ticks / C19_quiet_after_cancel_or_closed")
    xcheck.cross_check(rep, "C19", cases, res, 40 if tier == "quick" else 400)
    if not replay:
        real_timer_cases(rep, "C19_never_before_delay (the model's assumption about new_timer)")
    c = rep.coverage
    hist = {}
    for _, _, t in cases:
        hist[t.get("class")] = hist.get(t.get("class"), 0) + 1
    c["generator_distribution"] = hist
    c["exhaustive"] = True
    c["rule"] = ("tasks scheduled directly through Scheduler::schedule on the crate's hook scheduler (OnceTask with delay none/5, RepeatTask "
                 "period 3 with/without delay declining at 0/1/2, subscribing OnceTask): for each kind every sequence of <= %d labels over "
                 "{poll the task, advance the clock by 2/3/5, unsubscribe the handle, is_closed()}; plus random interleavings of up to four "
                 "tasks; observation = per label: which task function ran with which sequence number at which virtual time, answers of "
                 "is_closed(), unsubscription of the subscription produced by a subscribing task; one multi-task case in five in microseconds "
                 "(every delay below a millisecond); the repeating tasks of interval and interval_at (initial delay <, =, > the period) under "
                 "every label sequence <= 4 and random ones; a subscribing task running on a pool thread while its handle is unsubscribed: "
                 "nothing is delivered afterwards, neither by the task nor by the subscription it produced" % (6 if tier == "quick" else 8))
    rep.assumptions = ["the executor is represented by explicit poll labels on the hook scheduler (any task may be polled at any time); "
                       "the real LocalPool / ThreadPool only choose among these polls",
                       "virtual timer installed through NEW_TIMER_FN (the crate is built without the `timer` feature); the real timer is run "
                       "separately (harness_rt, feature on) on 44 cases (timer, interval, delay, delay_subscription x 11 delays) from 0 to beyond 2^64 microseconds: never ready early"]
    return rep.finish()
